"""C03 — forest productivity detection equals the least fixed point, in any insert order."""
import itertools

from harness.props import c03_rdb as RDB

ID = "C03"
TITLE = "forest table method = least fixed point, order independent, monotone"
COQ_PROPS = "Props/C03.v"
COQ_RUN = ("Forest.Run", "run_c03")
GEN_TARGETS = ["can_give_terms", "compute_shift", "preimage_gap",
               # the gap bookkeeping (Forest/GenBridgeGap.v proves the model branches on these)
               "increase_value_hold", "correct_gap_new_gap", "correct_gap_release"]
N = {"quick": 12000, "thorough": 400000}
# a case takes milliseconds; an implementation that loops (the MODEL provably does not:
# C03_terminates) is reported as a violation with its input after this CPU budget
CASE_CPU_SECONDS = 20
RULE = (
    "histories of 1-40 forest keys over 1-12 labels (label sets with gaps), shifts in [-4,4], arity 0-4 "
    "with repeated children, shaped streams (cycles of positive / zero / negative net shift, late large "
    "shifts that change the gap size, chains), interleaved is_pumping queries on known and unknown labels; "
    "4% of the cases instead evaluate the three definitions REGENERATED from forest.py (_can_give_terms, "
    "_compute_shift, Function.preimage_gap) and the source functions on the same arguments (translator validation); "
    "after EVERY operation TableMethod.function / pumping_subuniverse() / is_pumping are compared with BOTH extracted "
    "models (layer A = Forest/Model.v, layer B = Forest/ModelB.v with the cached _shifts, the two indices and the "
    "incrementally maintained _preimage_count), and with a naive Kleene iteration (oracle); additionally the INTERNALS "
    "of layer B are compared with the internals of the real object after every operation (information only: extra check "
    "'layer-B internals') and the layer-B invariant is decided on the real object, split into a GENUINE part (cached shifts "
    "of live rules, _preimage_count, live part of the two indices exact, queue/held set empty) and observable-equivalent "
    "BOOKKEEPING (dead index entries, _infinity_count: information only); when the genuine part fails, up to 300 random "
    "continuations (1-8 keys/queries appended to the history) are run on the real object and the first one on which "
    "function / is_pumping / pumping_subuniverse differs from the Kleene iteration is reported as a VIOLATION with that "
    "extended history as failing input (none found: loud line in the evidence, no violation); each multiset is "
    "replayed in ONE second random order and the FINAL function dicts are compared (sampled order independence); "
    "consecutive prefixes of the generated order are checked for monotonicity. "
    "Non-trivial: some class ends with a finite non-zero value AND some class pumps; distinct = distinct op list. "
    "SECOND FAMILY (15% of the cases, harness/props/c03_rdb.py): a REAL RuleDBForest(reverse=True/False) linked to a real "
    "CombinatorialSpecificationSearcher over a table universe of the C04 generator (2-10 integer classes; real Rule / "
    "VerificationRule / EmptyStrategy rule objects, so forest_key(), to_reverse_rule(i).forest_key() and the emptiness "
    "cache are the library's), driven in three modes: ruledb.add(start, ends, rule) called directly with 3-30 rules of the "
    "table in a generated order (and once more in a second order: same verified classes at the end); the same rules through "
    "searcher.add_rule; a real level-by-level search. Every key the database hands to table_method.add_rule_key becomes an "
    "AddKey operation; after EVERY return of add() ruledb.is_verified(label) is asked for every label of the class database "
    "and one unused label, and ruledb.has_specification() once: compared with the extracted model run_c03 on exactly these "
    "operations (= pumping_answer of the model state after the keys handed over so far) and judged by the Kleene iteration; "
    "the oracle also recomputes from the TABLE and the emptiness cache at the time of the call which keys each add() must "
    "hand over (forward key with bucket NORMAL/EQUIV/VERIFICATION, reverse keys with bucket REVERSE/EQUIV when reverse=True "
    "and the rule is reversible, one VERIFICATION key per empty child of a possibly_empty rule not served before, added through "
    "searcher.add_rule) - a dropped, doubled or altered key is a violation. Non-trivial there: >= 6 operations, some "
    "class verified and some not."
)
TRUSTED = [
    "modelled, not verified: rule_db/forest.py Function + DefaultList + TableMethod — hand-written Gallina model "
    "Forest/ModelB.v (layer B: the data structures of the code as they are — _rules, cached _shifts rows updated by "
    "-1/+1/None, _rules_using_class, _rules_pumping_class, deque with duplicates, held set, cached gap, Function._value "
    "grown lazily, raw _preimage_count maintained incrementally, the three asserts) tied to the code by this "
    "correspondence: observables after every operation (compared), internals after every operation (informational; "
    "a failure of the genuine part of the invariant on the real object triggers a search for a failing continuation). "
    "Not transcribed: a DefaultList grows by trailing empty entries when merely read (stripped on both sides); "
    "ForestRuleKey.bucket (plays no role in TableMethod); len(shifts) != len(children)",
    "RuleDBForest.add / _add_empty_rule / is_verified / has_specification have NO Gallina model in this property (C04 and "
    "C11 model add as EvKey events of the searcher model): here they are run for real and their effect - the list of keys "
    "that reaches the table method, the answers after every add() - is compared with the extracted table-method model on "
    "that key list and with an oracle that recomputes the keys from the strategy table (harness/props/c03_rdb.py)",
    "Forest/Model.v (layer A) is no longer trusted for the theorems about the incremental algorithm: it is proved to "
    "be one schedule of layer S (C03_A_is_S), like layer B (C03_B_refines_S)",
]
ASSUMPTIONS = [
    "termination is proved for the MODELS (layer A: C03_terminates with fuel_bound; layer B = the code's own schedule: "
    "C03_B_terminates with fuel_boundS = (2*slots+R+1)*n*((n+1)*g+2)+3, slots = SUM_keys(1+arity); layer A's fuel_bound "
    "is NOT enough for layer B: C03_B_same_fuel_bound_refuted); the real _process_queue is tied to layer B by the "
    "correspondence only, so a change of forest.py that makes it loop shows up as a harness timeout / NonTermination "
    "guard (the extracted models, run with the proved bounds, provably never answer OutOfFuel: "
    "C03_harness_never_out_of_fuel, C03_B_harness_never_out_of_fuel)",
    "labels are non-negative integers (ClassDB labels); children and shifts tuples have equal length (a kids list "
    "cannot express unequal lengths; Rule.forest_key passes strategy.shifts() unvalidated — checked by no property)",
    "RuleDBForest cases: 'the rules inserted' are turned into keys by the library's own rule.forest_key / to_reverse_rule / "
    "classdb.is_empty; the oracle's expectation is computed from the table universe (children, shifts, reversible flag, "
    "emptiness cache snapshot at the call) - it presupposes table strategies (pure functions of the class). That "
    "is_verified(l) after add() equals pumping_answer (run_total pick0 (keys handed over)) l is CHECKED per case with the "
    "extracted model (C03_total_sound_complete then gives: = pumps in the least fixed point of those keys); it is not a "
    "Coq theorem about a model of RuleDBForest (no ops_of_events bridge to the searcher model of C04/C17 yet)",
    "set.pop() and the iteration order of the held set are universally quantified in the theorems (pick, ord with "
    "perm_ok); the extracted models resolve them by position, the real run by Python's set order — the observables "
    "provably do not depend on it, the stale internals may (reported separately)",
]


def _key(parent, kids):
    return [0, parent, [[c, s] for c, s in kids]]


def _gen_translated(rng):
    """arguments for the three definitions regenerated from forest.py (translator validation)"""
    which = rng.randrange(3)
    optz = lambda lo, hi: None if rng.random() < 0.25 else rng.randint(lo, hi)
    if which == 0:
        return {"gen": [0, [optz(-3, 4) for _ in range(rng.randint(0, 5))]]}
    if which == 1:
        k = rng.randint(0, 5)
        return {"gen": [1, optz(0, 9), [optz(0, 9) for _ in range(k)], [rng.randint(-4, 4) for _ in range(k)]]}
    n = rng.randint(0, 12)
    cnt = [rng.choice([0, 0, 1, 2, 5]) for _ in range(n)] + [0] * rng.choice([0, 0, 1, 3])
    return {"gen": [2, cnt, rng.randint(1, 5)]}


RDB_SHARE = 0.15


def gen(rng, tier):
    while True:
        if rng.random() < 0.04:
            yield _gen_translated(rng)
            continue
        # the thorough tier runs 33 times the cases; its share of real searches is a fifth (about 12 000 real
        # RuleDBForest runs instead of 60 000: each retains its full key / answer history, and the quick-tier
        # random stream is unchanged by this)
        if rng.random() < (RDB_SHARE if tier != "thorough" else RDB_SHARE / 5):
            # second case family: a REAL RuleDBForest driven through add() (harness/props/c03_rdb.py)
            yield RDB.gen_case(rng)
            continue
        style = rng.choice(["random", "random", "cycle", "chain", "lateshift", "dense", "tiny"])
        nlab = rng.randint(1, 12)
        labels = rng.sample(range(0, 16), nlab) if rng.random() < 0.4 else list(range(nlab))
        smax = rng.choice([1, 1, 2, 3, 4])
        ops = []
        nk = rng.randint(1, 40 if style != "tiny" else 5)

        def rnd_key(smax=smax):
            ar = rng.choice([0, 1, 1, 2, 2, 2, 3, 4])
            p = rng.choice(labels)
            kids = [(rng.choice(labels), rng.randint(-smax, smax)) for _ in range(ar)]
            if rng.random() < 0.5:
                kids = [(c, abs(s)) for c, s in kids]
            return _key(p, kids)

        if style == "cycle":
            m = rng.randint(1, min(5, nlab))
            cyc = rng.sample(labels, m)
            net = rng.choice([-1, 0, 0, 1, 2])
            sh = [rng.randint(-smax, smax) for _ in range(m)]
            sh[-1] += net - sum(sh)
            for i in range(m):
                extra = [(rng.choice(labels), rng.randint(0, smax))] if rng.random() < 0.3 else []
                ops.append(_key(cyc[i], [(cyc[(i + 1) % m], sh[i])] + extra))
            if rng.random() < 0.7:
                ops.append(_key(rng.choice(labels), []))
        elif style == "chain":
            for a, b in zip(labels, labels[1:]):
                ops.append(_key(a, [(b, rng.randint(0, smax))]))
            ops.append(_key(labels[-1], []))
        elif style == "dense":
            for p in labels:
                for _ in range(rng.randint(1, 3)):
                    ops.append(rnd_key())
        while len([o for o in ops if o[0] == 0]) < nk:
            ops.append(rnd_key())
        if style == "lateshift":
            ops.append(rnd_key(smax=smax + rng.randint(1, 4)))
            ops.extend(rnd_key() for _ in range(rng.randint(0, 5)))
        rng.shuffle(ops)
        ops = ops[:40]
        out = []
        for o in ops:
            out.append(o)
            if rng.random() < 0.15:
                out.append([1, rng.choice(labels) if rng.random() < 0.7 else rng.randint(0, 20)])
        yield {"ops": out, "perm_seed": rng.randrange(1 << 30)}


def _sxopt(v):
    return [] if v is None else v


def encode(case):
    if "rdb" in case:
        raise ValueError("RuleDBForest cases are encoded from the real run (encode_with)")
    if "gen" in case:
        g = case["gen"]
        if g[0] == 0:
            return [-7, 0, [_sxopt(v) for v in g[1]]]
        if g[0] == 1:
            return [-7, 1, _sxopt(g[1]), [_sxopt(v) for v in g[2]], g[3]]
        return [-7, 2, g[1], g[2]]
    return case["ops"]


def encode_with(case, res):
    """history cases: the ops AND one snapshot of the real object's internals per op (compared by the
    extracted layer-B model with its own internals; informational verdicts, see canon_model)"""
    if "rdb" in case:
        return RDB.encode_with(case, res)
    if "gen" in case:
        return encode(case)
    return [-8, case["ops"], res.get("ints") or []]


# informational tallies (main process only): layer-B internals vs the real object's internals
INT_STATS = {"ops": 0, "canon_equal": 0, "full_equal": 0, "canon_diff_examples": [], "cases": 0,
             "real_invariant_ops": 0, "real_invariant_fail": 0, "real_invariant_examples": [],
             # genuine invariant failures: with a failing continuation (reported as VIOLATION by the oracle) / without
             "genuine_witnessed": 0, "genuine_unwitnessed": 0, "genuine_unwitnessed_examples": [], "search_tries": 0,
             # observable-equivalent bookkeeping (dead index entries, _infinity_count)
             "bookkeeping_fail": 0, "bookkeeping_examples": []}


def canon_model(mo):
    """model answer of a history: (-8000 layerA layerB verdicts).  The two observable lists are compared
    with the implementation; the verdicts on the INTERNALS are tallied, never compared."""
    if isinstance(mo, list) and len(mo) == 4 and mo[0] == -8000:
        INT_STATS["cases"] += 1
        for v in mo[3]:
            INT_STATS["ops"] += 1
            INT_STATS["canon_equal"] += int(v[0] == 1)
            INT_STATS["full_equal"] += int(v[1] == 1)
            if v[0] != 1 and len(INT_STATS["canon_diff_examples"]) < 3:
                INT_STATS["canon_diff_examples"].append(v[2:] if len(v) > 2 else v)
        return mo[:3]
    return mo


def _impl_translated(g):
    """the three source functions themselves, on the same arguments"""
    from comb_spec_searcher.rule_db.forest import Function, TableMethod

    if g[0] == 0:
        return int(TableMethod._can_give_terms(list(g[1])))
    if g[0] == 1:
        tm = TableMethod()
        k = len(g[2])
        tm._function._value = [g[1]] + list(g[2])     # label 0 = parent, 1..k = children
        got = tm._compute_shift((0, tuple(range(1, k + 1))), tuple(g[3]))
        return [_sxopt(v) for v in got]
    f = Function()
    f._preimage_count._list = list(g[1])
    return f.preimage_gap(g[2])


def _static(ops):
    keys = [o for o in ops if o[0] == 0]
    labels = [o[1] for o in ops] + [c for o in keys for c, _ in o[2]]
    n = max(labels, default=-1) + 1
    g = max([1] + [abs(s) for o in keys for _, s in o[2]])
    ar = max([len(o[2]) for o in keys], default=0)
    return len(keys), n, g, ar


def fuel_bound(ops):
    """fuel_bound of coq/theories/Forest/TerminationDefs.v: the PROVED bound on the number of iterations
    of one _process_queue call of the model, for the whole history"""
    R, n, g, _ = _static(ops)
    return (3 * R + 1) * (n * ((n + 1) * g + 2)) + 3


def fuel_boundS(ops):
    """fuel_boundS of coq/theories/Forest/SchedDefs.v: the PROVED bound for layer B (the code's own re-queueing:
    once per registered (rule, child) pair), slots = SUM_keys (1 + arity)"""
    R, n, g, _ = _static(ops)
    slots = sum(1 + len(o[2]) for o in ops if o[0] == 0)
    return (2 * slots + R + 1) * (n * ((n + 1) * g + 2)) + 3


class NonTermination(Exception):
    pass


_CAPPED = None


def _capped_table_method():
    """TableMethod with two termination guards, so that a change of forest.py that makes _process_queue
    loop is reported quickly and with its input instead of burning the CPU budget of the case:
    * no finite value may exceed B = (n+1)*g+1 (n = 1+largest label, g = largest |shift|): for the model this
      is the proved reason for termination (held rules + pigeonhole bound on the gap, C03_iteration_decreases);
    * the number of _increase_value/_set_infinite calls during one add_rule_key (every iteration of
      _process_queue that can prolong the loop goes through one of them) may not exceed the measure of
      Forest/SchedDefs.v (mu_s, proved for layer B = the code's own re-queueing: a rule is re-queued once per
      occurrence of the class among its children and once as a rule of the class):
      ((2*arity+3)*R+1)*n*((n+1)*g+2)+3 >= fuel_boundS >= fuel_bound (C03_B_terminates, C03_fuel_bound_le_S)."""
    global _CAPPED
    if _CAPPED is None:
        from comb_spec_searcher.rule_db.forest import TableMethod

        class Capped(TableMethod):
            steps = 0
            cap = 0
            vbound = 0
            max_steps = 0

            def _tick(self):
                self.steps += 1
                if self.steps > self.cap:
                    raise NonTermination(
                        "_process_queue made more than %d calls of _increase_value/_set_infinite during one "
                        "add_rule_key" % self.cap
                    )

            def _increase_value(self, comb_class, rule_idx):
                self._tick()
                super()._increase_value(comb_class, rule_idx)
                v = self.function.get(comb_class, 0)
                if v is not None and v > self.vbound:
                    raise NonTermination(
                        "the value of class %d reached %d, above the bound (n+1)*g+1 = %d that the hold test "
                        "and the gap guarantee" % (comb_class, v, self.vbound)
                    )

            def _set_infinite(self, comb_class):
                self._tick()
                return super()._set_infinite(comb_class)

            def add_rule_key(self, rule_key):
                self.steps = 0
                try:
                    return super().add_rule_key(rule_key)
                finally:
                    self.max_steps = max(self.max_steps, self.steps)

        _CAPPED = Capped
    return _CAPPED()


def _guarded_tm(ops):
    R, n, g, ar = _static(ops)
    tm = _capped_table_method()
    tm.vbound = (n + 1) * g + 1
    tm.cap = ((2 * ar + 3) * R + 1) * (n * ((n + 1) * g + 2)) + 3
    return tm


def _strip(ls):
    ls = [list(x) for x in ls]
    while ls and not ls[-1]:
        ls.pop()
    return ls


def _snapshot(tm):
    """the internals of the real TableMethod in the encoding of Forest/Run.v (cmp_int):
    ( _shifts  _rules_using_class  _rules_pumping_class  _value  preimage_count  _infinity_count  _gap_size  _current_gap )"""
    F = tm._function
    rows = [[_sxopt(v) for v in row] for row in tm._shifts]
    using = [sorted([r, c] for r, c in l) for l in _strip(tm._rules_using_class._list)]
    pumping = [sorted(l) for l in _strip(tm._rules_pumping_class._list)]
    return [rows, using, pumping, [_sxopt(v) for v in F._value], list(F.preimage_count), F._infinity_count,
            tm._gap_size, list(tm._current_gap)]


def _real_invariant(tm):
    """the layer-B invariant (Forest/RefineB.v, BInv) decided on the REAL object between two operations,
    split by what a violation can mean.  Returns (genuine, bookkeeping), each None = holds, else what fails.

    GENUINE (the algorithm READS it to decide an answer; a violation predicts a wrong observable on SOME
    continuation, and impl() then searches for one):
      * the cached _shifts row of every live rule (finite parent) = _compute_shift of the current table
        (read by the firing test of _process_queue / _increase_value / _set_infinite);
      * _preimage_count = histogram of the finite values (read by preimage_gap -> gap -> hold test);
      * every live (rule, child) pair with a finite child is listed EXACTLY once in _rules_using_class[child],
        every live rule exactly once in _rules_pumping_class[parent] (a missing entry = a missed +-1 update
        of a cached shift, a doubled entry = a doubled one), and no entry of a live rule sits under a wrong
        class / wrong child index;
      * queue and held set empty between operations (else the answers were handed out before the fixed point).
    BOOKKEEPING (observable-equivalent: no answer of function / is_pumping / pumping_subuniverse can depend
    on it, so a harmless refactoring may change it; stays informational):
      * DEAD entries in the two indices - entries of a rule whose parent is infinite (its queue visits end in
        the `current_value is None: return` of _increase_value/_set_infinite, its row is never read for an
        answer) and entries filed under an infinite class (that list is never read again): the purge loop of
        _set_infinite is an optimisation;
      * _infinity_count (read by status() only)."""
    F = tm._function
    vals = list(F._value)
    fin = lambda c: c >= len(vals) or vals[c] is not None
    live = lambda i: vals[tm._rules[i].parent] is not None if 0 <= i < len(tm._rules) else False
    for i, k in enumerate(tm._rules):
        if vals[k.parent] is not None:
            p = vals[k.parent]
            want = [None if (c < len(vals) and vals[c] is None) else (vals[c] if c < len(vals) else 0) + s - p
                    for c, s in zip(k.children, k.shifts)]
            if list(tm._shifts[i]) != want:
                return "cached shifts of live rule %d are %r, recomputed %r" % (i, tm._shifts[i], want), None
    hist = {}
    for v in vals:
        if v is not None:
            hist[v] = hist.get(v, 0) + 1
    pc = list(F.preimage_count)
    if any(pc[j] != hist.get(j, 0) for j in range(len(pc))) or any(j >= len(pc) for j in hist):
        return "preimage_count %r is not the histogram %r" % (pc, hist), None
    want_p, want_u = {}, {}
    for i, k in enumerate(tm._rules):
        if vals[k.parent] is not None:
            want_p.setdefault(k.parent, []).append(i)
            for j, c in enumerate(k.children):
                if fin(c):
                    want_u.setdefault(c, []).append((i, j))
    all_p = {c: sorted(l) for c, l in enumerate(tm._rules_pumping_class._list) if l}
    all_u = {c: sorted(l) for c, l in enumerate(tm._rules_using_class._list) if l}
    # the part of the indices that is ever read for an answer: entries of live rules under finite classes
    got_p = {c: [i for i in l if live(i)] for c, l in all_p.items() if fin(c)}
    got_u = {c: [(i, j) for i, j in l if live(i)] for c, l in all_u.items() if fin(c)}
    got_p = {c: l for c, l in got_p.items() if l}
    got_u = {c: l for c, l in got_u.items() if l}
    if got_p != want_p:
        return "live part of _rules_pumping_class %r, live rules per parent %r" % (got_p, want_p), None
    if got_u != want_u:
        return "live part of _rules_using_class %r, live (rule, child) pairs %r" % (got_u, want_u), None
    if tm._processing_queue or tm._rule_holding_extra_terms:
        return "queue or held set not empty between operations", None
    if F._infinity_count != sum(1 for v in vals if v is None):
        return None, "infinity_count %r" % (F._infinity_count,)
    if all_p != want_p:
        return None, "dead entries in _rules_pumping_class %r, live rules per parent %r" % (all_p, want_p)
    if all_u != want_u:
        return None, "dead entries in _rules_using_class %r, live (rule, child) pairs %r" % (all_u, want_u)
    return None, None


def _run_tm(ops, ints=None, inv=None):
    from comb_spec_searcher.typing import ForestRuleKey, RuleBucket

    tm = _guarded_tm(ops)
    out = []
    snaps = []
    for o in ops:
        if o[0] == 0:
            kids = o[2]
            tm.add_rule_key(
                ForestRuleKey(o[1], tuple(c for c, _ in kids), tuple(s for _, s in kids), RuleBucket.NORMAL)
            )
            fn = tm.function
            fd = [[k, (fn[k] if fn[k] is not None else [])] for k in sorted(fn)]
            sub = []
            ptr = 0
            for fk in tm.pumping_subuniverse():
                while tm._rules[ptr] is not fk:
                    ptr += 1
                sub.append(ptr)
                ptr += 1
            out.append([fd, sub])
            snaps.append(dict(fn))
        else:
            out.append(int(tm.is_pumping(o[1])))
        if ints is not None:
            ints.append(_snapshot(tm))
        if inv is not None:
            inv.append(_real_invariant(tm))
    return out, snaps


# ---- a failed GENUINE invariant must be turned into a failing INPUT: search for a continuation of the
#      history on which an observable answer of the real object is wrong (decided by naive_lfp, no model)
SEARCH_TRIES = 300          # per case, for the first SEARCH_FULL cases of a process; afterwards SEARCH_TRIES_LATE
SEARCH_TRIES_LATE = 30
SEARCH_FULL = 20
_SEARCHED = [0]


def _observable_fault(tm, keys, labels):
    """None, or how an observable answer of the real object differs from the least fixed point of `keys`"""
    want = naive_lfp(keys)
    got = tm.function
    if got != want:
        return "function=%r but least fixed point=%r" % (got, want)
    inf = {l for l, v in want.items() if v is None}
    for l in labels:
        if bool(tm.is_pumping(l)) != (l in inf):
            return "is_pumping(%d)=%r but least fixed point says %r" % (l, tm.is_pumping(l), l in inf)
    sub = [(k.parent, k.children, k.shifts) for k in tm.pumping_subuniverse()]
    wsub = [(p, tuple(c for c, _ in kids), tuple(s for _, s in kids)) for _, p, kids in keys
            if p in inf and all(c in inf for c, _ in kids)]
    if sub != wsub:
        return "pumping_subuniverse()=%r but the keys whose classes all pump are %r" % (sub, wsub)
    return None


def _find_continuation(ops, at, seed, tries):
    """the genuine invariant fails on the real object after ops[at]: append random keys / queries to the history
    (cut after the failing operation, or whole) until an OBSERVABLE answer is wrong.
    Returns ({"ops": extended history, "why": ...} or None, tries used)."""
    import random
    from comb_spec_searcher.typing import ForestRuleKey, RuleBucket

    r = random.Random(seed)
    labs = sorted({o[1] for o in ops} | {c for o in ops if o[0] == 0 for c, _ in o[2]})
    g = max([1] + [abs(s) for o in ops if o[0] == 0 for _, s in o[2]])
    fresh = [max(labs, default=0) + 1, max(labs, default=0) + 2]
    for t in range(tries):
        base = ops[:at + 1] if t % 2 == 0 else ops
        pool = labs + (fresh if r.random() < 0.3 else [])
        smax = g + (1 if r.random() < 0.15 else 0)
        ext = []
        for _ in range(r.randint(1, 8)):
            if r.random() < 0.15:
                ext.append([1, r.choice(pool)])
                continue
            ar = r.choice([0, 0, 0, 1, 1, 2, 2, 3])
            kids = [(r.choice(pool), r.randint(-smax, smax) if r.random() < 0.5 else r.randint(0, smax))
                    for _ in range(ar)]
            ext.append(_key(r.choice(pool), kids))
        hist = base + ext
        tm = _guarded_tm(hist)
        keys = []
        why = None
        for n_done, o in enumerate(hist):
            try:
                if o[0] == 0:
                    keys.append(o)
                    tm.add_rule_key(ForestRuleKey(o[1], tuple(c for c, _ in o[2]), tuple(s for _, s in o[2]),
                                                  RuleBucket.NORMAL))
                else:
                    tm.is_pumping(o[1])
            except Exception as ex:  # pylint: disable=broad-except
                why = "raises %s: %s" % (type(ex).__name__, ex)
            if why is None and n_done >= len(base):
                why = _observable_fault(tm, keys, pool)
            if why is not None:
                return {"ops": hist[:n_done + 1], "why": "after operation %d of the extended history: %s" % (n_done, why)}, t + 1
    return None, tries


def impl(case):
    if "rdb" in case:
        return RDB.impl(case)
    if "gen" in case:
        return {"out": _impl_translated(case["gen"]), "snaps": [], "final_perm": {}}
    ints, inv = [], []
    out, snaps = _run_tm(case["ops"], ints, inv)
    # the same multiset in another order
    import random

    keys = [o for o in case["ops"] if o[0] == 0]
    r = random.Random(case["perm_seed"])
    perm = keys[:]
    r.shuffle(perm)
    _, snaps2 = _run_tm(perm)
    bad = [(i, w[0]) for i, w in enumerate(inv) if w[0]]
    book = [(i, w[1]) for i, w in enumerate(inv) if w[1]]
    res = {"out": [-8000, out, out], "snaps": snaps, "final_perm": snaps2[-1] if snaps2 else {}, "ints": ints,
           "inv_ops": len(inv), "inv_bad": bad[:1], "inv_book": book[:1]}
    if bad:
        _SEARCHED[0] += 1
        tries = SEARCH_TRIES if _SEARCHED[0] <= SEARCH_FULL else SEARCH_TRIES_LATE
        res["inv_witness"], res["inv_tries"] = _find_continuation(case["ops"], bad[0][0], case["perm_seed"], tries)
    # "out": the observables twice — compared with layer A and with layer B of the model
    return res


INF = None


def naive_lfp(keys):
    """Kleene iteration of Phi with cap (n+2)*g+3: independent of the table method."""
    labels = set()
    g = 1
    for _, p, kids in keys:
        labels.add(p)
        for c, s in kids:
            labels.add(c)
            g = max(g, abs(s))
    cap = (len(labels) + 2) * g + 3
    f = {l: 0 for l in labels}
    changed = True
    while changed:
        changed = False
        for _, p, kids in keys:
            v = min([(cap if f[c] >= cap else f[c] + s) for c, s in kids], default=cap)
            v = max(0, min(v, cap))
            if v > f[p]:
                f[p] = v
                changed = True
    return {l: (INF if v >= cap else v) for l, v in f.items() if v != 0}


def oracle(case, res):
    if "rdb" in case:
        return RDB.oracle(case, res)
    if "exception" in res:
        return "implementation raised " + res["exception"]
    if "gen" in case:
        return None
    keys = []
    prev = {}
    i = 0
    for o in case["ops"]:
        if o[0] != 0:
            continue
        keys.append(o)
        want = naive_lfp(keys)
        got = res["snaps"][i]
        if got != want:
            return "after %d insertions function=%r but least fixed point=%r" % (i + 1, got, want)
        for l, v in prev.items():
            if v is INF and got.get(l, 0) is not INF:
                return "class %d stopped pumping after insertion %d" % (l, i + 1)
            if v is not INF and got.get(l, 0) is not INF and got.get(l, 0) < v:
                return "value of class %d decreased after insertion %d" % (l, i + 1)
        prev = got
        i += 1
    if keys and res["final_perm"] != res["snaps"][-1]:
        return "answer depends on insertion order: %r vs %r" % (res["snaps"][-1], res["final_perm"])
    if res.get("inv_witness"):
        # a GENUINE invariant of the algorithm (see _real_invariant) fails on the real object although every answer
        # on this history is still right: the continuation found by impl() is an input on which an answer is wrong
        i, what = res["inv_bad"][0]
        w = res["inv_witness"]
        return ("layer-B invariant fails on the real object after operation %d (%s); FAILING INPUT: on the extended "
                "history ops=%r an observable answer is wrong - %s" % (i, what, w["ops"], w["why"]))
    return None


def nontrivial(case, res):
    if "rdb" in case:
        return RDB.nontrivial(case, res)
    if not res.get("snaps"):
        return False
    last = res["snaps"][-1]
    return any(v is None for v in last.values()) and any(v not in (None, 0) for v in last.values())


def key(case):
    if "rdb" in case:
        return RDB.key(case)
    return str(case.get("gen", case.get("ops")))


def classify(case, res):
    if "rdb" in case:
        return RDB.classify(case, res)
    # (runs in the main process) informational tally: the layer-B invariant on the REAL object
    INT_STATS["real_invariant_ops"] += res.get("inv_ops", 0)
    if res.get("inv_bad"):
        INT_STATS["real_invariant_fail"] += 1
        INT_STATS["search_tries"] += res.get("inv_tries", 0)
        ex = {"ops": case.get("ops"), "op_index": res["inv_bad"][0][0], "what": res["inv_bad"][0][1]}
        if len(INT_STATS["real_invariant_examples"]) < 3:
            INT_STATS["real_invariant_examples"].append(ex)
        if res.get("inv_witness"):
            INT_STATS["genuine_witnessed"] += 1
        else:
            INT_STATS["genuine_unwitnessed"] += 1
            if len(INT_STATS["genuine_unwitnessed_examples"]) < 3:
                INT_STATS["genuine_unwitnessed_examples"].append(ex)
    if res.get("inv_book"):
        INT_STATS["bookkeeping_fail"] += 1
        if len(INT_STATS["bookkeeping_examples"]) < 2:
            INT_STATS["bookkeeping_examples"].append({"ops": case.get("ops"), "op_index": res["inv_book"][0][0], "what": res["inv_book"][0][1]})
    if "gen" in case:
        return ["translated:" + ["can_give_terms", "compute_shift", "preimage_gap"][case["gen"][0]]]
    tags = []
    ks = [o for o in case["ops"] if o[0] == 0]
    tags.append("keys<=10" if len(ks) <= 10 else "keys>10")
    ar = max((len(o[2]) for o in ks), default=0)
    tags.append("maxarity=%d" % ar)
    if res.get("snaps"):
        last = res["snaps"][-1]
        if any(v is None for v in last.values()):
            tags.append("some_pumping")
        if any(v not in (None, 0) for v in last.values()):
            tags.append("some_finite_nonzero")
    if any(s < 0 for o in ks for _, s in o[2]):
        tags.append("negative_shift")
    return tags


def shrink(case):
    if "rdb" in case:
        yield from RDB.shrink(case)
        return
    if "gen" in case:
        return
    # a case that fails ONLY through the invariant + continuation search: first replace it by the extended
    # history, which fails the plain observable oracle (function != least fixed point) by itself
    try:
        res = impl(case)
        why = oracle(case, res)
    except Exception:  # pylint: disable=broad-except
        why = None
    if why and why.startswith("layer-B invariant fails") and res.get("inv_witness"):
        yield {"ops": res["inv_witness"]["ops"], "perm_seed": case["perm_seed"]}
    ops = case["ops"]
    for i in range(len(ops)):
        yield {"ops": ops[:i] + ops[i + 1:], "perm_seed": case["perm_seed"]}
    for i, o in enumerate(ops):
        if o[0] == 0:
            for j in range(len(o[2])):
                o2 = [0, o[1], o[2][:j] + o[2][j + 1:]]
                yield {"ops": ops[:i] + [o2] + ops[i + 1:], "perm_seed": case["perm_seed"]}


TECHNIQUE = "Coq proof over THREE executable layers of the table method: S (schedule-parametric: soundness/completeness w.r.t. the inductive least fixed point via the gap lemma and run invariants, termination by a decreasing measure and a pigeonhole bound on the gap, for EVERY re-queue list / set order / table growth), A and B (the code's data structures as they are) both proved to be schedules of S by lock-step simulation + extracted-model/implementation correspondence for A and B"
LEVEL_TEXT = (
    "Theorems of coq/theories/Props/C03.v (axiom-free). WHAT THEY ARE ABOUT: executable Gallina models, not forest.py itself. "
    "Layer B (Forest/ModelB.v) transcribes the incremental algorithm as the code runs it: firing from the CACHED _shifts rows "
    "(written once by _compute_shift, then updated by -1/+1/None), re-queueing through _rules_pumping_class/_rules_using_class "
    "(one entry per registered (rule, child) pair, tested on half-updated rows, duplicates in the deque), the purge of "
    "_set_infinite, the incrementally maintained _preimage_count, the lazily grown _value, the three asserts. "
    "C03_B_lockstep/C03_B_refines_S: every iteration of B's loop, with the cache and the indices forgotten, is an iteration of the "
    "schedule-parametric layer S, and the invariant BInv (cached row = _compute_shift of the CURRENT table for every rule with a "
    "finite parent - C03_B_cached_shifts_current; the two indices = exactly the live (rule, child) pairs without duplicates; "
    "_preimage_count = histogram; no assert failed - C03_B_never_asserts) holds after every operation, for every resolution of "
    "set.pop() and of the set iteration order. For EVERY schedule of layer S (any admissible re-queue list, release order, table "
    "growth): reported pumping <-> pumps in the inductive least fixed point; reported value n <-> exactly n terms derivable; "
    "dependence only on the SET of keys; monotone; pumping_subuniverse = keys whose classes all pump (C03_S_*); every loop iteration "
    "decreases mu_s (C03_S_iteration_decreases, C03_S_chain_bounded). Layer A (Forest/Model.v: firing recomputed from the value "
    "table, own re-queue order) is one schedule (C03_A_is_S); its theorems C03_sound_complete ... C03_total_* are kept. Hence "
    "C03_B_refines_A: same history => B and A give the same function dict, pumping_subuniverse, is_pumping and value of every class "
    "after every operation, and C03_B_sound_complete / _order_independent / _monotone / _pumping_subuniverse hold for the code's "
    "own schedule. TERMINATION of layer B: C03_B_terminates with fuel_boundS = (2*slots+R+1)*n*((n+1)*g+2)+3 (slots = SUM (1+arity)); "
    "the claim 'same fuel_bound as layer A' is FALSE and refuted by a witness (C03_B_same_fuel_bound_refuted: one key "
    "0 -> (0 shift 5) x 10 needs 58 iterations, fuel_bound = 51). C03_B_harness_obs_equal: the list of answers the extracted "
    "layer-B model gives the harness IS the list layer A gives, never OutOfFuel, never an assertion."
)
LEVEL_NOTE = (
    "The tie between forest.py and layer B is the correspondence: after every operation of every generated history the real "
    "TableMethod's function / pumping_subuniverse / is_pumping are compared with the extracted layer-A AND layer-B models "
    "(a disagreement is a violation), and the real object's internals (_shifts, the two indices, _value, preimage_count, "
    "_infinity_count, _gap_size; separately the schedule-dependent stale rows and cached _current_gap) with layer B's - "
    "informational only, reported in the evidence under 'layer-B internals'. The invariant BInv is decided on the real object "
    "after every operation: a failure of the part the firing/gap decisions READ (cached shifts of live rules, _preimage_count, "
    "live index entries exact, empty queue/held set) starts a search for a continuation history with a wrong observable answer, "
    "reported as a violation with that history; dead index entries (the purge of _set_infinite is an optimisation: entries of "
    "rules with an infinite parent only lead to the early return of _increase_value) and _infinity_count (status() only) are "
    "observable-equivalent bookkeeping and stay informational. The arithmetic of layer B IS the source's: _can_give_terms, _compute_shift, Function.preimage_gap, the hold test "
    "of _increase_value and the gap interval / release test of _correct_gap are RE-TRANSLATED from forest.py on every run and used "
    "by ModelB.v directly (layer A is proved to branch on the same expressions: C03_firing_test_is_source [an identity of "
    "functions: the code evaluates that composition only in add_rule_key; that the CACHED row equals it at firing time is "
    "C03_B_cached_shifts_current, a theorem about layer B], C03_gap_search_is_source [about the source's loop applied to the "
    "histogram; that _preimage_count IS that histogram is part of BInv], C03_hold_test_is_source, C03_correct_gap_is_source). "
    "The control flow of ModelB.v (loops over the indices, order of updates, queue appends) is hand-transcribed: an edit of "
    "the +1/-1 updates in forest.py breaks no proof obligation, it shows up as a correspondence mismatch (observables) and in "
    "the internals tally. Termination of the real _process_queue follows only through the correspondence (a looping change is "
    "seen as a NonTermination guard / timeout, never as agreement). Order independence of the REAL code is sampled (one extra "
    "permutation per case, final dict). The history cases drive a bare TableMethod with bucket NORMAL; the observation points "
    "RuleDBForest.is_verified / has_specification are driven by the second case family (15% of the cases): a real RuleDBForest "
    "linked to a real searcher, add() called directly in a generated order / through searcher.add_rule / by a real search, "
    "all four buckets, reverse keys, empty-class keys; after every add() is_verified of every label and has_specification are "
    "compared with the extracted model run on the keys the database handed to its table method (so C03_total_sound_complete "
    "speaks about the answer: it is pumping_answer (run_total ...) of exactly those keys) and with the Kleene iteration, and the "
    "keys handed over are compared with the keys the rule must produce according to the table (correspondence + oracle, no "
    "theorem about add() itself; counts in the evidence under 'real RuleDBForest'). Trusted: Coq kernel, extraction, OCaml "
    "driver, harness."
)


_FOREST_HEAD = "class TableMethod:\n"
# source texts outside the translator's subset / with a changed shape: each must be REJECTED (fail closed)
_BAD_SNIPPETS = [
    ("increase_value_hold", _FOREST_HEAD + "    def _increase_value(self, comb_class, rule_idx):\n"
     "        current_value = self._function[comb_class]\n"
     "        if current_value > self._current_gap[1]:\n            self._rule_holding_extra_terms.add(rule_idx)\n"
     "            return\n", "the None test that makes current_value an int is gone"),
    ("increase_value_hold", _FOREST_HEAD + "    def _increase_value(self, comb_class, rule_idx):\n"
     "        current_value = self._function[comb_class]\n        if current_value is None:\n            return\n"
     "        if self._strict:\n            if current_value > self._current_gap[1]:\n"
     "                self._rule_holding_extra_terms.add(rule_idx)\n                return\n",
     "the hold test is wrapped in a new condition"),
    ("increase_value_hold", _FOREST_HEAD + "    def _increase_value(self, comb_class, rule_idx):\n"
     "        current_value = self._function[comb_class]\n        if current_value is None:\n            return\n"
     "        if current_value > self._current_gap[1] // 2:\n            self._rule_holding_extra_terms.add(rule_idx)\n"
     "            return\n", "unsupported operator"),
    ("correct_gap_new_gap", _FOREST_HEAD + "    def _correct_gap(self):\n        k = self._function.preimage_gap(self._gap_size)\n"
     "        k = k + 1\n        new_gap = (k, k + self._gap_size - 1)\n", "local k assigned twice"),
    ("correct_gap_release", _FOREST_HEAD + "    def _correct_gap(self):\n        k = self._function.preimage_gap(self._gap_size)\n"
     "        new_gap = (k, k + self._gap_size - 1)\n        if new_gap[1] > self._last_gap[1]:\n"
     "            self._processing_queue.extend(self._rule_holding_extra_terms)\n", "reads an attribute the target does not bind"),
]


def extra_checks(ctx):
    from harness import gen_selftest

    st = INT_STATS
    detail = (
        "ops=%d in %d histories; canonical internals equal: %d; schedule-dependent internals equal: %d; "
        "layer-B invariant BInv decided on the REAL object after each of %d operations, split: GENUINE part (cached "
        "shifts of live rules, _preimage_count, live part of the two indices exact, queue/held empty) fails in %d "
        "histories, of which %d with a failing continuation found (each reported as VIOLATION by the oracle) and %d "
        "without (%d continuations tried in total); BOOKKEEPING part (dead index entries, _infinity_count: "
        "observable-equivalent, informational) differs in %d histories. "
        "[canonical = live rows of _shifts, _rules_using_class, _rules_pumping_class (sorted), _value, preimage_count, "
        "_infinity_count, _gap_size of the extracted layer-B model vs the real TableMethod after every operation "
        "(informational: layer B transcribes the purge, a refactoring need not keep it); "
        "schedule-dependent = stale rows of rules with an infinite parent, cached _current_gap (model resolves set.pop()/"
        "set order by position)]"
        % (st["ops"], st["cases"], st["canon_equal"], st["full_equal"],
           st["real_invariant_ops"], st["real_invariant_fail"], st["genuine_witnessed"], st["genuine_unwitnessed"],
           st["search_tries"], st["bookkeeping_fail"])
    )
    if st["canon_equal"] != st["ops"]:
        detail = ("CANONICAL INTERNALS DIFFER on %d operations (observables are compared separately; if they agree this is "
                  "not a violation: the code's bookkeeping differs from layer B's transcription). B's snapshots: %r. "
                  % (st["ops"] - st["canon_equal"], st["canon_diff_examples"]))[:400] + detail
    if st["bookkeeping_fail"]:
        detail = ("BOOKKEEPING of the real object differs from layer B's invariant (observable-equivalent): %r. "
                  % (st["bookkeeping_examples"],))[:400] + detail
    if st["genuine_unwitnessed"]:
        detail = ("!!! GENUINE LAYER-B INVARIANT FAILS ON THE REAL OBJECT in %d histories AND NO FAILING CONTINUATION WAS "
                  "FOUND (model and implementation observables agree on them, else the case is a VIOLATION anyway): the "
                  "firing test reads a state the proofs exclude; look at forest.py. Examples: %r. !!! "
                  % (st["genuine_unwitnessed"], st["genuine_unwitnessed_examples"]))[:700] + detail
    info = [("layer-B internals vs real TableMethod (genuine invariant failures are searched for a failing input; "
             "the rest informational)", True, detail)]
    info.extend(RDB.coverage_check(len(ctx.cases) >= 5000))
    return info + [gen_selftest.rejects(_BAD_SNIPPETS)] + gen_selftest.checks(GEN_TARGETS, ctx.seed, ID)


# translator tie (DESIGN.md 10.9): what the regenerated definitions add to the level
LEVEL_NOTE += (
    ' Each regenerated definition is evaluated against the source on random arguments every run (harness/gen_selftest.py).'
)
