"""
C03, second case family: a REAL RuleDBForest (rule_db/forest.py) driven through its public interface.

A case {"rdb": {"u": table universe, "rev": 0/1, "comp": 0/1, "mode": ..., "prog": [[sid, class], ...],
"levels": n, "perm_seed": s}} builds a real CombinatorialSpecificationSearcher (the rule database needs one:
_add_empty_rule goes through searcher.add_rule, root_label / classdb are the searcher's) with
RuleDBForest(reverse=rev) over a table universe (harness/universes/table.py: integer classes, real Rule /
VerificationRule objects of real DisjointUnion / Symmetry / Verification strategies, so forest_key(),
to_reverse_rule(i).forest_key() and EmptyStrategy rules are the library's own) and then

  mode "add"     : builds the rule objects of `prog` (strategy sid applied to class c; sid -1 = EmptyStrategy rule)
                   and calls ruledb.add(start, ends, rule) directly, in the generated order;
  mode "css_add" : the same rules through searcher.add_rule(start, ends, rule) (set_empty, symmetry expansion,
                   try_verify run as in a search and call ruledb.add themselves);
  mode "search"  : css.do_level() up to `levels` times (every add of a real search), stopping when the database
                   reports a specification or (go_on = 1) going on after it.

ruledb.add and ruledb.table_method.add_rule_key are wrapped (instance attributes; forest.py is not edited):
every key the database hands to its table method becomes an AddKey operation; after EVERY return of add()
ruledb.is_verified(label) is asked for every label of the class database and one unused label, and
ruledb.has_specification() once.  These answers are
  (1) compared with the extracted Coq model run_c03 on exactly these operations (the answer of an IsPumping
      operation of the model is pumping_answer of the state after the AddKey operations so far:
      C03_total_sound_complete applies to it) - a disagreement is a broken correspondence;
  (2) judged by the oracle with the Kleene iteration naive_lfp of c03.py over the keys handed over so far, and
  (3) the keys themselves are judged: for every add() the oracle recomputes FROM THE TABLE (not through
      rule.forest_key) the forward key, the reverse keys (reverse=True, reversible rule) and the empty-class
      keys (_add_empty_rule: possibly_empty rule, child empty, label not served before) that the call must
      hand to the table method, with the bucket the emptiness cache at the time of the call implies.
"""
import copy
import os

MODES = ["add", "add", "add", "css_add", "css_add", "search", "search"]


# ----------------------------------------------------------------- generator
def gen_case(rng):
    from harness.props.c04 import gen_universe

    u = gen_universe(rng)
    n = u["ncls"]
    prog = []
    for sid, st in enumerate(u["strats"]):
        if st["kind"] == "F":
            continue
        for c in sorted(st["apply"], key=int):
            prog.append([sid, int(c)])
    for c in range(n):
        if u["empty"][c] and rng.random() < 0.5:
            prog.append([-1, c])
    rng.shuffle(prog)
    prog = prog[:rng.choice([3, 6, 10, 16, 24, 30])]
    for _ in range(rng.choice([0, 0, 1, 2])):          # the same rule added twice
        if prog:
            prog.insert(rng.randrange(len(prog) + 1), list(rng.choice(prog)))
    return {"rdb": {"u": u, "rev": 1 if rng.random() < 0.7 else 0, "comp": rng.randint(0, 1),
                    "mode": rng.choice(MODES), "prog": prog, "levels": rng.choice([2, 4, 8, 30]), "go_on": rng.randint(0, 1),
                    "perm_seed": rng.randrange(1 << 30)}}


# ----------------------------------------------------------------- real run
def _enc_fk(fk):
    from harness.props.c11_find import enc_key

    return enc_key(fk)      # [parent, children, shifts, bucket index in (REVERSE, NORMAL, EQUIV, VERIFICATION)]


def _drive(rdb, prog, record=True):
    """one real RuleDBForest run; returns the dict of everything observed"""
    import logging

    import logzero

    logzero.loglevel(logging.ERROR)
    from comb_spec_searcher import CombinatorialSpecificationSearcher
    from comb_spec_searcher.class_db import ClassDB
    from comb_spec_searcher.exception import NoMoreClassesToExpandError, StrategyDoesNotApply
    from comb_spec_searcher.rule_db import RuleDBForest
    from comb_spec_searcher.strategies.strategy import EmptyStrategy
    from harness.props import c11_find as FR
    from harness.universes import table as T

    u = copy.deepcopy(rdb["u"])
    u.pop("uid", None)
    u["uid"] = "c03-%d-%d" % (os.getpid(), len(T.UNIVERSES))
    uid = T.register(u)
    ops, out, events, stack = [], [], [], []
    res = {"ops": ops, "out": out, "events": events, "died": None}
    try:
        pack = T.make_pack(uid)
        start = T.start_class(uid, bool(rdb.get("comp")))
        cls_type = type(start)
        classdb = ClassDB(cls_type)
        ruledb = RuleDBForest(reverse=bool(rdb["rev"]))
        tm = ruledb.table_method
        real_key = tm.add_rule_key
        real_add = ruledb.add

        def add_rule_key(fk):
            real_key(fk)
            k = _enc_fk(fk)
            ops.append([0, k[0], [[c, s] for c, s in zip(k[1], k[2])]])
            if stack:
                stack[-1]["keys"].append(k)
            else:
                res.setdefault("stray", []).append(k)     # a key handed over outside any add()
            fn = tm.function
            fd = [[l, (fn[l] if fn[l] is not None else [])] for l in sorted(fn)]
            sub, ptr = [], 0
            for got in tm.pumping_subuniverse():
                while tm._rules[ptr] is not got:
                    ptr += 1
                sub.append(ptr)
                ptr += 1
            out.append([fd, sub])

        def add(start_label, ends, rule):
            desc, _ = FR.describe(rule)
            classes, empties = FR.snapshot(classdb)
            ev = {"desc": desc, "start": start_label, "ends": list(ends), "classes": classes, "empties": empties,
                  "pe": int(bool(rule.possibly_empty)), "keys": [], "depth": len(stack), "answers": None}
            events.append(ev)
            stack.append(ev)
            try:
                real_add(start_label, ends, rule)
            finally:
                stack.pop()
            # after EVERY insertion: is_verified for every label (and one label never used), has_specification
            nlab = len(classdb.comb_class_list)
            ans = []
            for l in range(nlab + 1):
                a = bool(ruledb.is_verified(l))
                ops.append([1, l])
                out.append(int(a))
                ans.append(int(a))
            ev["answers"] = ans
            try:
                root = ruledb.root_label            # the searcher's start_label (set before its __init__ adds rules)
                hs = bool(ruledb.has_specification())
            except (RuntimeError, AttributeError):
                root, hs = None, None
            if hs is not None:
                ops.append([1, root])
                out.append(int(hs))
            ev["root"] = root
            ev["has_spec"] = None if hs is None else int(hs)

        tm.add_rule_key = add_rule_key
        ruledb.add = add
        try:
            css = CombinatorialSpecificationSearcher(start, pack, ruledb=ruledb, classdb=classdb)
            res["init_events"] = len(events)
            if rdb["mode"] == "search":
                for _ in range(int(rdb.get("levels", 8))):
                    if ruledb.has_specification() and not rdb.get("go_on"):
                        break
                    try:
                        css.do_level()
                    except NoMoreClassesToExpandError:
                        break
            else:
                for sid, c in prog:
                    cobj = cls_type(uid, c)
                    try:
                        rule = EmptyStrategy()(cobj) if sid < 0 else T.make_strategy(uid, sid)(cobj)
                        children = rule.children
                    except StrategyDoesNotApply:
                        continue
                    ends = tuple(classdb.get_label(k) for k in children)
                    start_label = classdb.get_label(rule.comb_class)
                    if rdb["mode"] == "add":
                        ruledb.add(start_label, ends, rule)
                    else:
                        css.add_rule(start_label, ends, rule)
        except (KeyError, IndexError, StrategyDoesNotApply) as e:
            # a table without the strategy contracts can make the searcher die (C04's business); what was
            # observed up to there stands
            res["died"] = type(e).__name__
        classes, _ = FR.snapshot(classdb)
        res["final"] = {str(classes[l]): int(bool(tm.is_pumping(l))) for l in range(len(classes))}
        res["nlab"] = len(classes)
        return res
    finally:
        T.UNIVERSES.pop(uid, None)


def impl(case):
    rdb = case["rdb"]
    res = _drive(rdb, rdb["prog"])
    if rdb["mode"] == "add" and not res["died"]:
        # the same rules in another order, on a fresh database: same verified CLASSES at the end
        import random

        perm = list(rdb["prog"])
        random.Random(rdb["perm_seed"]).shuffle(perm)
        r2 = _drive(rdb, perm)
        res["final_perm"] = None if r2["died"] else r2["final"]
    return res


def encode_with(case, res):
    return res.get("ops") or []


# ----------------------------------------------------------------- oracle
def _expected(u, ev, rev, already):
    """(own keys, labels of the empty-class keys) add() must hand to the table method for this event, from the TABLE
    and the emptiness cache at the time of the call; None = the table has no such rule"""
    from harness.props.c11_find import expected_key

    classes, empties = ev["classes"], ev["empties"]
    sid, parent, kind, _var = ev["desc"]
    fwd = expected_key(u, classes, empties, [sid, parent, kind, -1])
    if fwd is None:
        return None
    own = [fwd]
    kids = []
    if kind != 2:
        e = u["strats"][sid]["apply"].get(str(parent))
        kids = list(e["children"])
        if rev and kind == 0 and e["reversible"]:
            for i in range(len(kids)):
                own.append(expected_key(u, classes, empties, [sid, parent, 0, i]))

    def emp(c):
        l = classes.index(c)
        return bool(empties[l]) if empties[l] != -1 else bool(u["empty"][c])

    empt = []
    if ev["pe"]:
        for l, c in zip(ev["ends"], kids):
            if l not in already and l not in empt and emp(c):
                empt.append(l)
    return own, empt


def _srt(keys):
    return sorted(keys, key=repr)


def oracle(case, res):
    from harness.props.c03 import naive_lfp

    if "exception" in res:
        return "implementation raised " + res["exception"]
    rdb = case["rdb"]
    u, rev = rdb["u"], bool(rdb["rev"])
    if res.get("stray"):
        return "keys %r reached the table method outside any RuleDBForest.add call" % (res["stray"][:3],)
    events = res["events"]
    already = set()
    handed = []            # keys in the order handed over: [0, parent, [[child, shift]...]]
    prev = set()
    pending = []           # labels whose empty-class add() must follow (nested), in order
    # events are listed in ENTRY order: an outer add comes before the nested adds of its _add_empty_rule; the keys
    # reach the table method in the order: nested adds first, then the outer call's own keys.  The answers of the
    # outer event are taken after all of them.
    order = sorted(range(len(events)), key=lambda j: _exit_rank(events, j))
    dead_depth = None
    for j, ev in enumerate(events):
        exp = _expected(u, ev, rev, already)
        what = "RuleDBForest.add(%d, %r, <rule %r>)" % (ev["start"], tuple(ev["ends"]), ev["desc"])
        if exp is None:
            return "%s: the table has no such rule (harness)" % what
        own, empt = exp
        if ev["answers"] is None and res.get("died"):
            # the call did not return: the searcher died inside it (KeyError / IndexError / StrategyDoesNotApply
            # out of a table without contracts, e.g. EmptyStrategy applied to a class a symmetry wrongly marked
            # empty); what it and the calls nested in it handed over counts for the answers, its key set is not judged
            pending = []
            dead_depth = ev["depth"]
            continue
        if dead_depth is not None and ev["depth"] > dead_depth:
            continue            # nested in the call that died
        if ev["depth"] > 0:
            # a nested call comes from _add_empty_rule of the enclosing one: it was predicted there
            want = pending.pop(0) if pending else None
            if want != ev["start"] or ev["desc"][2] != 2:
                return ("%s was called from inside another add() (through searcher.add_rule) but the empty-class rule "
                        "expected next is for label %r" % (what, want))
        if _srt(ev["keys"]) != _srt(own):
            return ("%s with reverse=%s handed the keys %r to the table method; the forest keys of the rule and its "
                    "reverse rules, recomputed from the table, are %r" % (what, rev, ev["keys"], own))
        if ev["depth"] == 0 and pending:
            return "the empty-class rule(s) for label(s) %r were never added" % (pending,)
        if empt:
            pending = empt + pending
            already.update(empt)
    if pending:
        return "the empty-class rule(s) for label(s) %r were never added" % (pending,)
    # the answers: after the return of every add(), over the keys handed over up to then
    for j in order:
        ev = events[j]
        handed.extend([0, k[0], [[c, s] for c, s in zip(k[1], k[2])]] for k in ev["keys"])
        if ev["answers"] is None:
            continue            # the run died inside this call
        want = naive_lfp(handed)
        inf = {l for l, v in want.items() if v is None}
        what = "after RuleDBForest.add(%d, %r, <rule %r>) (call %d)" % (ev["start"], tuple(ev["ends"]), ev["desc"], j)
        for l, a in enumerate(ev["answers"]):
            if bool(a) != (l in inf):
                return "%s is_verified(%d) = %r but in the least fixed point of the %d keys handed over the class %s" % (
                    what, l, bool(a), len(handed), "pumps" if l in inf else "does not pump")
        if ev["has_spec"] is not None and bool(ev["has_spec"]) != (ev["root"] in inf):
            return "%s has_specification() = %r but the root label %d %s in the least fixed point" % (
                what, bool(ev["has_spec"]), ev["root"], "pumps" if ev["root"] in inf else "does not pump")
        now = {l for l, a in enumerate(ev["answers"]) if a}
        if not prev <= now:
            return "%s the labels %r are no longer verified" % (what, sorted(prev - now))
        prev = now
    if res.get("final_perm") is not None and res["final_perm"] != res["final"]:
        diff = sorted(c for c in set(res["final"]) | set(res["final_perm"])
                      if res["final"].get(c) != res["final_perm"].get(c))
        return "the verified classes depend on the order of the add() calls: classes %r differ (%r vs %r)" % (
            diff, res["final"], res["final_perm"])
    return None


def _exit_rank(events, j):
    """events are recorded at ENTRY; the answers are taken at EXIT.  A nested event (depth d+1 directly after its
    enclosing event of depth d) exits before it.  Exit order = post-order of the nesting forest."""
    # position of the first later event whose depth is <= this one's: everything before it that is deeper exits first
    d = events[j]["depth"]
    k = j + 1
    while k < len(events) and events[k]["depth"] > d:
        k += 1
    return (k, -d)


# ----------------------------------------------------------------- bookkeeping
STATS = {"cases": 0, "modes": {}, "rev_cases": 0, "adds": 0, "nested_adds": 0, "keys": 0,
         "bucket": {"REVERSE": 0, "NORMAL": 0, "EQUIV": 0, "VERIFICATION": 0},
         "fwd": 0, "rev_keys": 0, "rev_keys_equiv": 0, "empty_keys": 0, "answers": 0, "answers_true": 0,
         "has_spec": 0, "has_spec_true": 0, "died": 0, "perm": 0, "max_keys": 0}
BNAMES = ["REVERSE", "NORMAL", "EQUIV", "VERIFICATION"]


def classify(case, res):
    st = STATS
    rdb = case["rdb"]
    tags = ["rdb", "rdb:" + rdb["mode"], "rdb:reverse=%d" % rdb["rev"]]
    if "events" not in res:
        return tags
    st["cases"] += 1
    st["modes"][rdb["mode"]] = st["modes"].get(rdb["mode"], 0) + 1
    st["rev_cases"] += int(bool(rdb["rev"]))
    st["died"] += int(bool(res.get("died")))
    st["perm"] += int(res.get("final_perm") is not None)
    nk = 0
    for ev in res["events"]:
        st["adds"] += 1
        st["nested_adds"] += int(ev["depth"] > 0)
        for i, k in enumerate(ev["keys"]):
            nk += 1
            st["bucket"][BNAMES[k[3]]] += 1
            if ev["desc"][2] == 2:
                st["empty_keys"] += 1
            elif i == 0:
                st["fwd"] += 1
            else:
                st["rev_keys"] += 1
                st["rev_keys_equiv"] += int(k[3] == 2)
        if ev["answers"] is not None:
            st["answers"] += len(ev["answers"])
            st["answers_true"] += sum(ev["answers"])
        if ev.get("has_spec") is not None:
            st["has_spec"] += 1
            st["has_spec_true"] += ev["has_spec"]
    st["keys"] += nk
    st["max_keys"] = max(st["max_keys"], nk)
    tags.append("rdb:keys<=10" if nk <= 10 else ("rdb:keys<=40" if nk <= 40 else "rdb:keys>40"))
    if any(k[3] == 0 for ev in res["events"] for k in ev["keys"]):
        tags.append("rdb:bucket_REVERSE")
    if any(ev["depth"] > 0 for ev in res["events"]):
        tags.append("rdb:empty_rule_via_add_empty_rule")
    fin = res.get("final") or {}
    if any(fin.values()):
        tags.append("rdb:some_verified")
    if res["events"] and res["events"][-1].get("has_spec"):
        tags.append("rdb:has_specification")
    if res.get("died"):
        tags.append("rdb:searcher_died")
    return tags


def nontrivial(case, res):
    fin = res.get("final") or {}
    return len(res.get("ops") or []) >= 6 and any(fin.values()) and not all(fin.values())


def key(case):
    import json

    r = case["rdb"]
    return json.dumps([r["u"], r["rev"], r["comp"], r["mode"], r["prog"], r["levels"], r.get("go_on", 0)], sort_keys=True)


def shrink(case):
    r = case["rdb"]
    if r["mode"] != "search":
        for i in range(len(r["prog"])):
            yield {"rdb": dict(r, prog=r["prog"][:i] + r["prog"][i + 1:])}
    u = r["u"]
    for sid, st in enumerate(u["strats"]):
        for c in list(st["apply"]):
            if r["mode"] != "search" and [sid, int(c)] in r["prog"]:
                continue
            v = copy.deepcopy(u)
            del v["strats"][sid]["apply"][c]
            yield {"rdb": dict(r, u=v)}
    if r["mode"] == "search" and r["levels"] > 1:
        yield {"rdb": dict(r, levels=r["levels"] - 1)}


def coverage_check(full):
    """list of (name, ok, detail): what the RuleDBForest cases reached; `full` = a whole quick/thorough run (floors
    apply).  Details are kept below the 600 characters the evidence file retains."""
    st = STATS
    d1 = ("%d cases (%s; reverse=True: %d; searcher died [table without contracts]: %d; second insertion order compared: %d); "
          "%d add() calls (%d nested: empty-class rules from _add_empty_rule via searcher.add_rule) handed %d keys to the "
          "table method (max %d per case): forward %d, reverse %d (%d of them filed under EQUIV), empty-class %d; buckets: %s"
          % (st["cases"], ", ".join("%s %d" % kv for kv in sorted(st["modes"].items())), st["rev_cases"], st["died"],
             st["perm"], st["adds"], st["nested_adds"], st["keys"], st["max_keys"], st["fwd"], st["rev_keys"],
             st["rev_keys_equiv"], st["empty_keys"], ", ".join("%s %d" % (b, st["bucket"][b]) for b in BNAMES)))
    d2 = ("after every add(): is_verified(label) for every label of the class database + one unused label: %d answers "
          "(%d True); has_specification(): %d answers (%d True); each compared with the extracted run_c03 on the keys handed "
          "over (mismatch = broken correspondence) and judged by the Kleene iteration; the keys of each of the %d add() calls "
          "recomputed from the table" % (st["answers"], st["answers_true"], st["has_spec"], st["has_spec_true"], st["adds"]))
    ok = True
    if full:
        ok = (st["cases"] >= 500 and st["rev_keys"] >= 1000 and st["empty_keys"] >= 100 and st["bucket"]["REVERSE"] >= 100
              and st["answers_true"] >= 1000 and st["has_spec_true"] >= 100 and st["nested_adds"] >= 50
              and all(st["modes"].get(m, 0) >= 50 for m in ("add", "css_add", "search")))
    return [("real RuleDBForest driven through add(): cases, add() calls, forest keys by origin and bucket "
             "(coverage floors on a full run)", ok, d1),
            ("real RuleDBForest: is_verified / has_specification observed after every add()", st["answers"] > 0 or not full, d2)]
