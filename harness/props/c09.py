"""C09 — every rule form counts its parent correctly from its children, with parameters."""
import json
import os
import traceback

ID = "C09"
TITLE = "every rule form counts its parent correctly from its children, with parameters"
COQ_PROPS = "Props/C09.v"
COQ_RUN = ("Count.ConstructorsRun", "run_c09")
GEN_TARGETS = ["compositions", "quotient_parent_shift",
               # the three parameter-map functions (Count/GenBridgeParamMap.v proves the model's are these)
               "constructor_param_map", "union_param_map", "quotient_param_map",
               # the dictionary EquivalencePathRule.constructor composes (Count/GenBridgePathDict.v)
               "path_dict_initial", "path_dict_compose", "path_dict_invert", "path_dict_duplicates"]
N = {"quick": 10000, "thorough": 100000}
RULE = (
    "REAL rule objects of /repo with extra parameters. (words, 45%) the classes of example.py extended with "
    "statistics (number of a letter, number of occurrences of a factor, constant offsets): a union strategy "
    "(just the prefix / append a letter) and a product strategy (cut the prefix into atoms and a rest, within the "
    "example's own safe index) whose extra_parameters keep, rename, drop (statistic identically 0 on the child), "
    "merge (two parent statistics mapped onto one child statistic) or add (child statistic the parent does not "
    "track) statistics, with shuffled parameter and dictionary orders. (syn, 37% + quot, 8%) synthetic classes "
    "given by explicit finite tables combined by sum / prod nodes with arbitrary partial, non-injective dictionaries "
    "(1-3 children, atoms, empty children, minimum sizes 0-2); the 'quot' sub-stream holds reverse product rules "
    "whose sympy.div is a real multivariate long division (1-3 parent statistics, siblings with several statistic "
    "tuples at their minimum size = a divisor with several monomials, a flipped child with several tuples per size, "
    "sometimes several parent statistics merged onto one statistic of the flipped child); extra_checks require "
    "every run to contain such divisions (tags q:params, q:multivariate, q:divisor-multiterm, q:long-division, "
    "q:merged-on-flipped, computed from the true terms and dictionaries, not from the implementation). Forms: the rule, its reverse w.r.t. every child "
    "(Complement / Quotient incl. sympy.div with parameters), the equivalence rule, the equivalence rule of the "
    "reverse, EquivalencePathRule chains (forward steps then reverse steps). ONE-FACTOR PRODUCTS (fix 25e10f1) in "
    "every form that accepts them: the product rule itself (words: the prefix split with no cut = the class with "
    "relabelled statistics; syn: a prod node with one child), its reverse (form 3, Quotient without sibling), its "
    "equivalence rule (form 7), the refused equivalence rule of its reverse (form 8: NotImplementedError is the "
    "expected outcome) and path steps that are RAW one-factor product rules / their ReverseRules (step kinds 2/3, "
    "what SpecificationRuleExtractor._find_rule hands out), mixed with union steps. rule.get_terms(n), n <= N <= 8, "
    "all parameter tuples, with the sub-term providers bound to the children's TRUE terms; compared with the "
    "model and (oracle) with the brute-force terms of the rule's own class. An 'edge' stream (about 6.5% of the "
    "cases) holds configurations the code does not support (reverse w.r.t. a child with merged or untracked "
    "statistics, in forms 2, 3, 5 and in the reverse steps of paths): the oracle judges them against brute force "
    "like every other case; the recorded behaviours are reported as KNOWN-FINDING (finding_match: the silent 0 of "
    "Complement in forms 2/5 and of the composed dictionary in form 6, the AssertionError of Quotient.param_map "
    "in form 3, the AssertionError of DisjointUnion.param_map on a conflicting merge in form 2; corpus cases make "
    "them appear on every run), every other failure is a violation; a path with a reverse step over a "
    "non-injective dictionary must refuse with NotImplementedError before the first term. Quotient with several "
    "parent statistics merged onto one statistic of the flipped child is NOT an edge case "
    "(C09_quotient_parent_map_round_trip) and is judged by the oracle. "
    "Non-trivial: >= 1 extra parameter somewhere, >= 3 levels computed and a level with >= 2 distinct keys or a "
    "count >= 2."
)
TECHNIQUE = (
    "Coq proofs over a hand-written executable model of the four constructors' get_terms and the rebuilt "
    "constructors of the derived rule forms (utils.compositions and Quotient.__init__ arithmetic regenerated "
    "from source), including the executable step functions the correspondence runs and the model's exact "
    "polynomial division + extracted-model/implementation correspondence on real rule objects"
)
LEVEL_TEXT = (
    "Theorems C09_* (coq/theories/Props/C09.v), for ALL tables, sizes and parameter tuples (no bound): "
    "C09_union / C09_product / C09_complement: the model's DisjointUnion / CartesianProduct / Complement get_terms "
    "fed with the children's true tables raise nothing and return the true table of the parent (resp. of the "
    "flipped child) whenever the rule is genuine — for the product this is that pruning utils.compositions by "
    "minimum sizes and atom sizes loses nothing w.r.t. the FULL convolution; siblings may drop / merge / add "
    "statistics arbitrarily. C09_quotient_parameter_free: Rule._ensure_level with the Quotient constructor "
    "(integer branch) returns the flipped child's true counts at every size, by induction over the cache levels; "
    "the product rule need only be genuine at the sizes read (0 .. N + _parent_shift). "
    "C09_quotient_params: the same WITH extra parameters (the sympy.div branch, modelled by the exact division "
    "poly_div): every level is the flipped child's true TABLE, for all sizes and parameter tuples, given the "
    "minimum-size / atom contract, genuineness at the sizes read, every sibling having an object of its minimum "
    "size, non-negative counts and parameter values, and the parent map sending the image of a child tuple back "
    "to it (C09_quotient_parent_map_round_trip: true of the map the code builds whenever every statistic of the "
    "flipped child is the image of a parent statistic; merged statistics allowed). C09_exact_division / "
    "C09_exact_quotient_unique / C09_no_zero_divisors: the model's division returns THE exact quotient (unique: "
    "Z[k_0..] has no zero divisors) whenever dividend = quotient * divisor with tables of counts. "
    "END TO END: C09_union_step, C09_product_step, C09_complement_step, C09_quotient_step(_parameter_free), "
    "C09_equivalence_step, C09_equivalence_reverse_step, C09_path_step and the refinement lemmas C09_*_step_is_* "
    "state the same for the EXECUTABLE functions *_step the correspondence runs (position maps built from the "
    "dictionaries, then get_terms, inside `levels` = Rule._ensure_level: C09_levels), with genuineness stated "
    "through the dictionary semantics. "
    "C09_dictionary_maps / C09_param_maps_agree / C09_complement_parent_map / C09_complement_round_trip: the "
    "position maps the code builds from a well-formed extra_parameters dictionary, run through "
    "Constructor.param_map and DisjointUnion.param_map, compute the dictionary semantics (dropped statistic = 0, "
    "merged statistics share a child statistic) and never assert; the parent map of Complement is that of the "
    "inverted dictionary exactly when the dictionary is injective. C09_equivalence(_child_index,_reverse), "
    "C09_path(_reverse_link,_dictionary): the constructors rebuilt by EquivalenceRule and EquivalencePathRule "
    "(first non-empty child, composed / inverted dictionaries) are genuine when the original rules are. "
    "FIX 25e10f1 (Count/ConstructorsOneFactor.v): C09_one_factor_product_is_union (a one-factor product is genuine "
    "iff the one-child union over the same dictionary is), C09_equivalence_one_factor_product (form 7 returns the "
    "parent's true table; it IS the form-4 step; two or more factors: NotImplementedError), C09_quotient_no_sibling "
    "(form 3 with ONE kid and >= 1 parent statistic: every level is the factor's true table, nothing of the rule's own "
    "terms is read), C09_path_step_one_factor_product (+ _lowering, _link, C09_path_single_product_step: typed path "
    "steps, a raw product step contributes the dictionary of its only factor and is a genuine link). "
    "OPEN FINDINGS characterised (Count/ConstructorsFindings.v): C09_complement_untracked_characterised (without "
    "coverage the Complement step raises nothing and returns the true table pushed through child -> parent -> child; "
    "C09_complement_round_trip_coordinate: untracked coordinates become 0), C09_complement_untracked_refuted (so "
    "C09_complement_step without coverage is false; witness = corpus case), C09_complement_merged_asserts / "
    "C09_union_param_map_asserts_iff (the assertion is reached exactly on tuples whose merged statistics differ)."
)
LEVEL_NOTE = (
    "Modelled, not verified: the transcription itself (Count/Constructors.v), tied by the correspondence on real "
    "rule objects. TRUSTED, not proved: that sympy.div returns the exact quotient (the theorems are about the "
    "model's exact division, which is compared with what the implementation returns through sympy on every "
    "reverse product rule with parameters, incl. multi-step multivariate divisions). Not covered by a correctness theorem: a flipped child "
    "with a statistic no parent statistic maps to (open finding complement-untracked-child-statistic: characterised "
    "for Complement, C09_complement_untracked_*; for Quotient.param_map's AssertionError and for the composed "
    "dictionary of a path the behaviour is tied by correspondence and masked narrowly by finding_match); the "
    "one-kid Quotient whose parent has NO statistic (C09_quotient_no_sibling needs >= 1; correspondence + oracle only); "
    "negative parameter values; fixed_values of the path constructor (not "
    "used by get_terms); the end-to-end theorem of the path form takes the chain of true tables as given "
    "(chain_ok), the per-link facts being C09_equivalence / C09_path_reverse_link."
)
TRUSTED = [
    "translator harness/translate.py for Gen/Compositions.v and Gen/QuotientParentShift.v (a source edit of "
    "utils.compositions or Quotient.__init__ changes the definitions the theorems are about)",
    "sympy.div / sympy.Poly in Quotient._b with parameters: TRUSTED to return the exact quotient q (q * c_poly = "
    "a_poly) when one exists; the model divides exactly itself (Count/Constructors.v poly_div, proved to return the "
    "unique exact quotient: C09_exact_division, C09_exact_quotient_unique) and is compared with the implementation",
    "conversion of Python rule objects to descriptors in harness/props/c09.py (names -> integers, "
    "dict insertion order, Counter iteration order)",
    "harness/universes/words_stats.py: the statistics-carrying word classes (subclass of example.py's "
    "AvoidingWithPrefix) and the synthetic classes whose true terms are computed by definition of the dictionaries",
]
ASSUMPTIONS = [
    "true term tables have non-negative values (they are counts)",
    "classes honour minimum_size_of_object / is_atom: no object below the minimum size; an atom has objects of its "
    "minimum size only (Vanish)",
    "parameter tuples of a class have one entry per extra parameter; extra_parameters dictionaries are well formed: "
    "distinct parameter names, keys among the parent's parameters (wf_dict)",
    "complement/quotient: every parameter of the flipped child is the image of exactly one parent parameter "
    "(injective dictionary covering the child's parameters) — the round-trip hypothesis of C09_complement; "
    "otherwise the code asserts or (untracked child statistic) silently reports that statistic as 0",
    "quotient with >= 2 children (C09_quotient_step): every sibling has an object of its minimum size (else the code "
    "divides by zero); with ONE child (C09_quotient_no_sibling, fix 25e10f1) there is no sibling and no such hypothesis; "
    "with parameters: parameter values are non-negative (they are exponents of sympy polynomials); every statistic of "
    "the flipped child is the image of at least one parent statistic (several may be merged onto it)",
    "quotient: the original product rule is genuine at the sizes 0 .. N + _parent_shift that levels 0..N read",
]

ERR = {"AssertionError": 1, "KeyError": 2, "ZeroDivisionError": 3, "NotImplementedError": 4}
_CACHE = {}


def _U():
    from harness.universes import words_stats

    return words_stats


# ------------------------------------------------------------------ building
def _build(case):
    """-> (original rule(s) info for the descriptor, rule to count)"""
    k = json.dumps(case, sort_keys=True)
    if k in _CACHE:
        return _CACHE[k]
    if len(_CACHE) > 3000:
        _CACHE.clear()
    U = _U()
    if case["form"] == 6:
        rule, rules = U.path_rule([(U._tup(s["node"]), s["rev"], s["idx"]) for s in case["steps"]])
        out = (rules, rule)
    else:
        base = U.base_rule(case["spec"])
        out = (base, U.derive(base, case["form"], case["idx"]))
    _CACHE[k] = out
    return out


class _Names:
    def __init__(self):
        self.ids = {}

    def __call__(self, name):
        if name not in self.ids:
            self.ids[name] = len(self.ids)
        return self.ids[name]


def _table(comb_class, n):
    return [[list(p), v] for p, v in _U().true_terms(comb_class, n).items()]


def _tables(comb_class, upto):
    return [_table(comb_class, n) for n in range(upto + 1)]


def _kids_desc(base, nm):
    dicts = base.constructor.extra_parameters
    out = []
    for child, d in zip(base.children, dicts):
        out.append([
            [nm(x) for x in child.extra_parameters],
            [[nm(a), nm(b)] for a, b in d.items()],
            child.minimum_size_of_object(),
            int(bool(child.is_atom())),
            int(bool(child.is_empty())),
        ])
    return out


def _step_kind(r):
    """(kind, original rule, idx) of a rule of an EquivalencePathRule: kind 0 EquivalenceRule of a union,
    1 EquivalenceRule of the reverse of a union, 2 RAW one-factor product rule, 3 its RAW ReverseRule (25e10f1)"""
    from comb_spec_searcher.strategies.rule import EquivalenceRule, ReverseRule

    if isinstance(r, EquivalenceRule):
        orig = r.original_rule
        rev = isinstance(orig, ReverseRule)
        return int(rev), (orig.original_rule if rev else orig), (orig.idx if rev else 0)
    rev = isinstance(r, ReverseRule)
    return 2 + int(rev), (r.original_rule if rev else r), (r.idx if rev else 0)


def encode(case):
    nm = _Names()
    N_ = case["N"]
    if case["form"] == 6:
        rules, rule = _build(case)
        steps = []
        for r in rules:
            kind, base, idx = _step_kind(r)
            steps.append([kind, [nm(x) for x in base.comb_class.extra_parameters], _kids_desc(base, nm), idx])
        return [6, 0, N_, steps, _tables(rule.children[0], N_)]
    base, _ = _build(case)
    form, idx = case["form"], case["idx"]
    kids = _kids_desc(base, nm)
    mins = [k[2] for k in kids]
    upto = N_ + (sum(mins) - mins[idx] if form == 3 else 0)
    pn = [nm(x) for x in base.comb_class.extra_parameters]
    return [form, idx, N_, pn, kids, _tables(base.comb_class, max(upto, 0)),
            [_tables(c, max(upto, 0)) for c in base.children]]


def _canon(terms):
    return sorted([[int(x) for x in p], int(v)] for p, v in terms.items() if v != 0)


def impl(case):
    _, rule = _build(case)
    # a fresh rule object per run: terms_cache must start empty
    k = json.dumps(case, sort_keys=True)
    _CACHE.pop(k, None)
    rule.set_subrecs(_U().Provider)
    levels, err, exc = [], [], None
    for n in range(case["N"] + 1):
        try:
            levels.append(_canon(rule.get_terms(n)))
        except (AssertionError, KeyError, ZeroDivisionError, NotImplementedError) as ex:
            err = ERR[type(ex).__name__]
            exc = "%s at level %d: %s" % (type(ex).__name__, n, str(ex)[:200])
            frames = traceback.extract_tb(ex.__traceback__)
            where = ["%s:%s" % (os.path.basename(f.filename), f.name) for f in frames[-2:]]
            break
    res = {"out": [levels, err]}
    if exc:
        res["raised"] = exc
        res["raised_in"] = where
    if case["form"] in (2, 5):
        # the Complement constructor of the real rule: dictionary of the flipped child
        cons = rule.constructor
        d = cons.extra_parameters[cons.idx]
        vals = list(d.values())
        res["flipped"] = {
            "untracked": [i for i, x in enumerate(rule.comb_class.extra_parameters) if x not in vals],
            "merged": len(set(vals)) < len(vals),
            "conflict_levels": _merge_conflict_levels(rule.children[0], d, case["N"]),
        }
    if case["form"] == 3:
        # the Quotient constructor of the real rule: statistics of the flipped child no parent statistic maps to
        cons = rule.constructor
        vals = list(cons.extra_parameters[cons.idx].values())
        res["flipped"] = {
            "untracked": [i for i, x in enumerate(rule.comb_class.extra_parameters) if x not in vals],
            "merged": False, "conflict_levels": [],
        }
    if case["form"] == 6:
        # read off the CASE (not the implementation): the statistics of the path's first class that a REVERSE
        # step loses (the class the step starts from carries a statistic no statistic of the union's parent maps to)
        res["flipped"] = {"untracked": _path_lost(case)[0], "merged": False, "conflict_levels": []}
    res["truth"] = [_canon(_U().true_terms(rule.comb_class, n)) for n in range(case["N"] + 1)]
    if case["form"] == 3:
        res["qshape"] = _quot_shape(case, res["truth"])
    res["nparams"] = len(rule.comb_class.extra_parameters) + sum(len(c.extra_parameters) for c in rule.children)
    return res


def _path_lost(case):
    """
    Follow every statistic of the first class of a path through the steps' dictionaries, by the MEANING of the
    dictionaries (independent of EquivalencePathRule.constructor): a forward step parent -> child renames a
    statistic through the child's dictionary (absent = the statistic is identically 0 on the class: nothing is
    lost); a reverse step child -> parent needs a parent statistic mapped onto it: if there is none the statistic
    is LOST (no rule can recover it from the parent's terms), if there are several the library declines
    (NotImplementedError).  -> (positions of the first class's statistics that are lost, some reverse step
    has a non-injective dictionary, some reverse step has an untracked child statistic)
    """
    steps = case["steps"]

    def step_io(st):
        kind, names, kids = st["node"]
        kid, d = kids[st["idx"] if kind == "sum" else 0]
        return list(names), list(kid[1]), [list(e) for e in d]

    pn, kn, _ = step_io(steps[0])
    first = kn if steps[0]["rev"] else pn
    cur = {i: x for i, x in enumerate(first)}   # position in the first class -> current name (None: identically 0)
    lost, noninj, untracked = set(), False, False
    for st in steps:
        pn, kn, d = step_io(st)
        if st["rev"]:
            vals = [b for _, b in d]
            noninj = noninj or len(set(vals)) < len(vals)
            untracked = untracked or any(x not in vals for x in kn)
            for i, x in list(cur.items()):
                if x is None or i in lost:
                    continue
                srcs = [a for a, b in d if b == x]
                if not srcs:
                    lost.add(i)
                else:
                    cur[i] = srcs[0]
        else:
            dd = dict((a, b) for a, b in d)
            for i, x in list(cur.items()):
                if x is not None and i not in lost:
                    cur[i] = dd.get(x)
    return sorted(lost), noninj, untracked


def _quot_shape(case, truth):
    """
    Shape of the polynomial division a reverse product rule performs, computed from the TRUE terms
    and the dictionaries only (not from the implementation): number of parent parameters, number
    of monomials of the divisor c (the siblings at their minimum sizes, statistics added through
    their dictionaries) and the largest number of monomials of a quotient (a level of the flipped
    child).  Only used to describe the stream (classify / extra_checks).
    """
    base, _ = _build(case)
    U = _U()
    names = list(base.comb_class.extra_parameters)
    idx = case["idx"]
    c = {tuple(0 for _ in names): 1}
    for i, (child, d) in enumerate(zip(base.children, base.constructor.extra_parameters)):
        if i == idx:
            continue
        knames = list(child.extra_parameters)
        new = {}
        for par, cnt in U.true_terms(child, child.minimum_size_of_object()).items():
            val = dict(zip(knames, par))
            add = tuple(val[d[q]] if q in d else 0 for q in names)
            for k0, v0 in c.items():
                k1 = tuple(x + y for x, y in zip(k0, add))
                new[k1] = new.get(k1, 0) + v0 * cnt
        c = new
    d = base.constructor.extra_parameters[idx]
    vals = list(d.values())
    return {"npar": len(names), "divisor_terms": len([1 for v in c.values() if v]),
            "quotient_terms": max([len(lv) for lv in truth] or [0]),
            "merged": len(set(vals)) < len(vals)}


def _merge_conflict_levels(parent, d, N):
    """The sizes n <= N at which the TRUE enumeration of the rule's parent has a term whose statistics that the
    flipped child's dictionary d merges onto ONE child statistic take DIFFERENT values: exactly the terms on which the
    recorded behaviour "reverse-wrt-child-with-merged-statistics-asserts" is defined.  On a consistent merge (the
    merged statistics agree on every parent term) the list is empty and an AssertionError is NOT that finding."""
    groups = {}
    for pos, pv in enumerate(parent.extra_parameters):
        if pv in d:
            groups.setdefault(d[pv], []).append(pos)
    groups = [g for g in groups.values() if len(g) > 1]
    if not groups:
        return []
    out = []
    for n in range(N + 1):
        for par, v in _U().true_terms(parent, n).items():
            if v and any(len({par[i] for i in g}) > 1 for g in groups):
                out.append(n)
                break
    return out


# ------------------------------------------------------------------ oracle
TAG_UNTRACKED = "[complement: statistic(s) of the flipped child that no parent statistic maps to are reported as 0]"
TAG_MERGED = "[complement: AssertionError in DisjointUnion.param_map, several parent statistics are mapped onto one statistic of the flipped child]"
TAG_QUOT_UNTRACKED = "[quotient: AssertionError in Quotient.param_map, a statistic of the flipped child that no parent statistic maps to]"


def _zeroed(level, positions):
    """a table with the given coordinates forced to 0 (and re-aggregated)"""
    acc = {}
    for par, v in level:
        key = tuple(0 if i in positions else x for i, x in enumerate(par))
        acc[key] = acc.get(key, 0) + v
    return sorted([list(k_), v] for k_, v in acc.items() if v != 0)


def oracle(case, res):
    """
    The PROPERTY: rule.get_terms(n) equals the brute-force terms of the rule's own class for
    every n <= N and raises nothing.  Judged on EVERY case, the 'edge' cases of all forms
    included.  A failure is additionally DESCRIBED (tag at the end of the message) when it is
    exactly one of the recorded behaviours (Complement forms 2/5, the Quotient form 3 and a path
    with a reverse step, form 6); finding_match keys on the tag plus the shape of the case.
    Two refusals are not failures ("where the library builds one"): form 8, and a path with a
    reverse step over a non-injective dictionary (NotImplementedError before the first term).
    """
    if "exception" in res:
        return "implementation crashed: " + res["exception"]
    levels, err = res["out"]
    truth = res["truth"]
    if case["form"] == 8:
        # "the reverse of that where the library builds one": for the reverse of a product the library builds no
        # equivalence form (EquivalenceRule.constructor has no Quotient branch, also after 25e10f1); anything
        # else than that refusal before the first term is judged a failure
        if levels == [] and err == ERR["NotImplementedError"]:
            return None
        return "equivalence rule of the reverse of a product: expected NotImplementedError at level 0, got %r" % (res["out"],)
    if case["form"] == 6 and levels == [] and err == ERR["NotImplementedError"] and _path_lost(case)[1]:
        # a reverse step whose dictionary maps several parent statistics onto one child statistic: the library
        # declines to build the path constructor (NotImplementedError in EquivalencePathRule.constructor)
        return None
    fl = res.get("flipped") or {"untracked": [], "merged": False}
    zeroed = [_zeroed(t, fl["untracked"]) for t in truth]
    bad = next((n for n, lv in enumerate(levels) if lv != truth[n]), None)
    as_zeroed = bool(fl["untracked"]) and all(lv == zeroed[n] for n, lv in enumerate(levels))
    if err != []:
        why = "get_terms raised " + res.get("raised", str(err))
        # the recorded behaviour, and nothing wider: the assertion is raised at the FIRST size at which the true
        # parent has a term whose merged statistics differ (on consistent merges Complement must not assert)
        conflicts = fl.get("conflict_levels", [])
        if (err == ERR["AssertionError"] and fl["merged"] and (bad is None or as_zeroed)
                and res.get("raised_in") == ["disjoint.py:get_terms", "disjoint.py:param_map"]
                and conflicts and conflicts[0] == len(levels)):
            why += " " + TAG_MERGED
        if (case["form"] == 3 and err == ERR["AssertionError"] and fl["untracked"] and bad is None
                and res.get("raised_in") == ["cartesian.py:get_terms", "cartesian.py:param_map"]):
            why += " " + TAG_QUOT_UNTRACKED
        return why
    if bad is not None:
        why = "size %d: rule.get_terms gives %r but the class has %r" % (bad, levels[bad][:6], truth[bad][:6])
        if as_zeroed:
            why += " " + TAG_UNTRACKED
        return why
    return None


def _flipped_shape(case):
    """(names of the flipped child's statistics, its dictionary) read off the case itself"""
    spec, idx = case["spec"], case["idx"]
    want = "prod" if case["form"] == 3 else "sum"
    if spec["u"] == "syn":
        if spec["node"][0] != want:
            return None
        kid, d = spec["node"][2][idx]
        return list(kid[1]), [list(e) for e in d]
    if spec.get("strategy") != ("split" if case["form"] == 3 else "expansion"):
        return None
    pl = spec["plans"][idx]
    return [st[0] for st in pl["stats"]], [list(e) for e in pl["dict"]]


def finding_match(case, why):
    """
    "complement-untracked-child-statistic": reverse of a DisjointUnion (form 2, or its equivalence
        form 5) w.r.t. a child carrying a statistic that no parent statistic maps to, nothing is
        raised, and every computed level is the truth with exactly those statistics set to 0.
    "reverse-wrt-child-with-merged-statistics-asserts": reverse of a DisjointUnion (form 2) w.r.t. a
        child onto which several parent statistics are mapped; AssertionError raised by
        DisjointUnion.param_map called from Complement.get_terms.
    Anything else (other wrong counts, other exceptions, other forms) matches nothing.
    """
    if not isinstance(why, str) or case.get("form") not in (2, 3, 5, 6):
        return None
    if case["form"] == 6:
        # the path form of the same defect: a REVERSE step starting from a class that carries a statistic no
        # statistic of the union's parent maps to; nothing raised; every level = the truth with exactly the
        # statistics lost along the reverse steps set to 0 (the oracle only tags that shape)
        lost, _, untracked_step = _path_lost(case)
        if why.endswith(TAG_UNTRACKED) and lost and untracked_step and "raised" not in why:
            return "complement-untracked-child-statistic"
        return None
    shape = _flipped_shape(case)
    if shape is None:
        return None
    names, d = shape
    vals = [b for _, b in d]
    untracked = [x for x in names if x not in vals]
    merged = len(set(vals)) < len(vals)
    if case["form"] == 3:
        # Quotient: AssertionError of Quotient.param_map on the first non-empty level of the flipped child
        if why.endswith(TAG_QUOT_UNTRACKED) and untracked and "raised AssertionError" in why:
            return "complement-untracked-child-statistic"
        return None
    if why.endswith(TAG_UNTRACKED) and untracked and "raised" not in why:
        return "complement-untracked-child-statistic"
    if why.endswith(TAG_MERGED) and merged and case["form"] == 2 and "raised AssertionError" in why:
        return "reverse-wrt-child-with-merged-statistics-asserts"
    return None


def nontrivial(case, res):
    out = res.get("out")
    if not isinstance(out, list) or case.get("edge"):
        return False
    levels = out[0]
    if res.get("nparams", 0) < 1 or len(levels) < 3:
        return False
    return any(len(lv) >= 2 or any(v >= 2 for _, v in lv) for lv in levels)


def key(case):
    return json.dumps(case, sort_keys=True)


def classify(case, res):
    tags = ["form%d" % case["form"], "u:" + (case["spec"]["u"] if case["form"] != 6 else "syn")]
    if "one-factor" in case.get("tags", []):
        tags.append("one-factor:form%d" % case["form"])
    if case.get("edge"):
        tags.append("edge")
    for t in case.get("tags", []):
        tags.append(t)
    out = res.get("out")
    if isinstance(out, list) and out[1] != []:
        tags.append("raised:%s" % out[1])
    q = res.get("qshape")
    if q and not case.get("edge") and isinstance(out, list) and out[1] == []:
        if q["npar"] >= 1:
            tags.append("q:params")  # the sympy.div branch
        if q["npar"] >= 2 and q["quotient_terms"] >= 2:
            tags.append("q:multivariate")
        if q["npar"] >= 1 and q["divisor_terms"] >= 2:
            tags.append("q:divisor-multiterm")
        if q["npar"] >= 1 and q["divisor_terms"] >= 2 and q["quotient_terms"] >= 3:
            tags.append("q:long-division")  # several steps, with a divisor that is not a monomial
        if q["npar"] >= 1 and q["merged"]:
            tags.append("q:merged-on-flipped")
    return tags


# ------------------------------------------------------------------ generator: words
def _rand_word(rng, alph, lo, hi):
    return "".join(rng.choice(alph) for _ in range(rng.randint(lo, hi)))


def _rand_stats(rng, alph, prefix_name="k"):
    stats, tags = [], set()
    n = rng.choice([1, 1, 2, 2, 3])
    for j in range(n):
        r = rng.random()
        if stats and r < 0.2:
            _, kind, arg, off = rng.choice(stats)  # the same statistic under a second name
            tags.add("dup-stat")
        elif r < 0.6:
            kind, arg, off = "letter", rng.choice(alph + "z"), 0
        else:
            kind, arg, off = "factor", _rand_word(rng, alph, 2, 2), 0
        if rng.random() < 0.15:
            off = rng.randint(1, 2)
        stats.append(["%s%d" % (prefix_name, j), kind, arg, off])
    return stats, tags


def _objs(U, shape, parent, bound):
    p, jp = shape
    c = U.StatWords(p, parent.patterns, parent.alphabet, jp)
    return [w for m in range(bound + 1) for w in c.objects_of_size(m)]


def _gen_words_union(rng):
    U = _U()
    alph = "ab" if rng.random() < 0.8 else "abc"
    bound = 7 if alph == "ab" else 5
    prefix = _rand_word(rng, alph, 0, 3)
    r = rng.random()
    tags = set()
    if r < 0.25:
        pats = [prefix + x for x in alph]  # only the atom child is non-empty: an equivalence
    else:
        pats = [_rand_word(rng, alph, 1, 3) for _ in range(rng.randint(0, 2))]
    stats, t = _rand_stats(rng, alph)
    tags |= t
    parent = U.StatWords(prefix, pats, list(alph), False, stats)
    if parent.is_empty():
        return None
    shapes = U.expansion_children(parent)
    nonempty = [i for i, (p, jp) in enumerate(shapes) if not U.StatWords(p, pats, list(alph), jp).is_empty()]
    equiv = len(nonempty) == 1
    if equiv:
        form = rng.choice([0, 2, 4, 4, 5, 5])
    else:
        form = rng.choice([0, 2, 2])
    idx = rng.choice(nonempty) if form in (2, 5) else 0
    if form == 5:
        idx = nonempty[0]
    edge = form in (2, 5) and rng.random() < 0.15
    plans = []
    for i, shape in enumerate(shapes):
        objs = _objs(U, shape, parent, bound)
        flipped = form in (2, 5) and i == idx and not edge
        strict = flipped or form == 5  # Complement.can_be_equivalent wants injective dictionaries everywhere
        cstats, d, kept = [], [], []
        for (pv, kind, arg, off) in stats:
            vals = [U.stat_value((pv, kind, arg, off), w) for w in objs]
            if all(v == 0 for v in vals) and rng.random() < 0.6:
                tags.add("drop")
                continue
            same = [cv for (cv, cvals, _) in kept if cvals == vals]
            if flipped and form == 2:
                # on the flipped child only statistics that coincide on the whole parent may be merged
                same = [cv for (cv, _, trip) in kept if trip == (kind, arg, off)]
            elif strict:
                same = []
            if same and rng.random() < 0.6:
                d.append([pv, rng.choice(same)])
                tags.add("merge-flipped" if flipped else "merge")
                continue
            cv = pv if rng.random() < 0.4 else "c%d_%s" % (i, pv)
            cstats.append([cv, kind, arg, off])
            kept.append((cv, vals, (kind, arg, off)))
            d.append([pv, cv])
        if not flipped and rng.random() < 0.2:
            cstats.append(["x%d" % i, "letter", rng.choice(alph), 0])
            tags.add("extra")
        rng.shuffle(cstats)
        rng.shuffle(d)
        plans.append({"stats": cstats, "dict": d})
    spec = {"u": "words", "prefix": prefix, "patterns": pats, "alphabet": alph, "stats": stats,
            "strategy": "expansion", "plans": plans}
    case = {"form": form, "idx": idx, "N": rng.randint(3, bound), "spec": spec, "tags": sorted(tags)}
    if edge:
        case["edge"] = 1
    return case


def _gen_words_product(rng):
    U = _U()
    alph = "ab" if rng.random() < 0.8 else "abc"
    bound = 7 if alph == "ab" else 5
    prefix = _rand_word(rng, alph, 1, 4)
    pats = [_rand_word(rng, alph, 1, 3) for _ in range(rng.randint(0, 2))]
    base = U.StatWords(prefix, pats, list(alph), False, [])
    if base.is_empty():
        return None
    safe = U.safe_cut(base)
    if safe < 1:
        return None
    cuts = sorted(rng.randint(0, safe) for _ in range(rng.choice([1, 1, 2])))
    one_factor = rng.random() < 0.2
    if one_factor:
        cuts = []  # no cut: the ONE-factor product "the class itself, its statistics relabelled" (25e10f1)
    shapes = U.split_children(base, cuts)
    kids = [U.StatWords(p, pats, list(alph), jp) for p, jp in shapes]
    if any(k.is_empty() for k in kids):
        return None
    # the reverse rule reads the parent up to N + len(prefix): validate the plans that far
    words = [w for m in range(bound + len(prefix) + 1) for w in base.objects_of_size(m)]
    pieces = [U.split_pieces(w, shapes) for w in words]
    if not words:
        return None
    raw, tags = _rand_stats(rng, alph)
    stats, plans = [], [{"stats": [], "dict": []} for _ in shapes]
    shared = {}  # (child, kind, arg) -> name of a child statistic with offset 0 (for merges)
    for (pv, kind, arg, off) in raw:
        keep = []
        for i in range(len(shapes)):
            vals = [U.stat_value(("", kind, arg, 0), pc[i]) for pc in pieces]
            if all(v == 0 for v in vals) and rng.random() < 0.6:
                continue
            keep.append(i)
        delta = {U.stat_value(("", kind, arg, off), w) - sum(U.stat_value(("", kind, arg, 0), pc[i]) for i in keep)
                 for w, pc in zip(words, pieces)}
        if len(delta) != 1:
            continue  # the statistic is not additive over this cut (a factor across the cut with a free letter)
        c0 = delta.pop()
        if c0 != 0 and not keep:
            keep = [0]
        absorb = rng.choice(keep) if c0 != 0 else None
        if len(keep) < len(shapes):
            tags.add("drop")
        stats.append([pv, kind, arg, off])
        for i in keep:
            o = c0 if i == absorb else 0
            if o == 0 and (i, kind, arg) in shared and rng.random() < 0.6:
                plans[i]["dict"].append([pv, shared[(i, kind, arg)]])
                tags.add("merge")
                continue
            cv = pv if rng.random() < 0.4 else "c%d_%s" % (i, pv)
            plans[i]["stats"].append([cv, kind, arg, o])
            plans[i]["dict"].append([pv, cv])
            if o == 0:
                shared[(i, kind, arg)] = cv
    form = rng.choice([1, 3, 3, 7, 7]) if one_factor else rng.choice([1, 3, 3])
    idx = rng.randrange(len(shapes)) if form == 3 else 0
    edge = False
    if one_factor:
        tags.add("one-factor")
    if form == 3:
        d = plans[idx]["dict"]
        if len({b for _, b in d}) != len(d):
            # several parent statistics mapped onto one statistic of the flipped child: Quotient.param_map
            # is only applied to images of child tuples, on which they coincide (C09_quotient_parent_map_round_trip):
            # judged by the oracle like every other case
            tags.add("merge-flipped")
    for i, pl in enumerate(plans):
        if not (form == 3 and i == idx) and rng.random() < 0.2:
            pl["stats"].append(["x%d" % i, "letter", rng.choice(alph), 0])
            tags.add("extra")
        rng.shuffle(pl["stats"])
        rng.shuffle(pl["dict"])
    spec = {"u": "words", "prefix": prefix, "patterns": pats, "alphabet": alph, "stats": stats,
            "strategy": "split", "cuts": cuts, "plans": plans}
    case = {"form": form, "idx": idx, "N": rng.randint(3, bound), "spec": spec, "tags": sorted(tags)}
    if edge:
        case["edge"] = 1
    return case


# ------------------------------------------------------------------ generator: synthetic
def _rand_leaf(rng, tag, kind=None, names=None):
    """kind: 'atom' | 'empty' | 'any'"""
    if kind is None:
        r = rng.random()
        kind = "atom" if r < 0.25 else "empty" if r < 0.33 else "any"
    if names is None:
        names = ["%s%d" % (tag, j) for j in range(rng.choice([0, 1, 1, 2]))]
    m = rng.randint(0, 2)
    if kind == "empty":
        return ["leaf", names, []]
    if kind == "atom":
        return ["leaf", names, [[m, [rng.randint(0, 2) for _ in names], 1]]]
    entries = {}
    for s in range(m, m + rng.randint(1, 4)):
        if s > m and rng.random() < 0.2:
            continue
        for _ in range(rng.randint(1, 3)):
            par = tuple(rng.randint(0, 2) for _ in names)
            entries[(s, par)] = rng.randint(1, 3)
    return ["leaf", names, [[s, list(p), c] for (s, p), c in sorted(entries.items())]]


def _rand_dict(rng, pnames, knames, bijective=False, injective=False):
    d = []
    if bijective:
        src = list(pnames)
        rng.shuffle(src)
        if len(src) < len(knames):
            return None
        for pv, cv in zip(src, knames):
            d.append([pv, cv])
    else:
        avail = list(knames)
        for pv in pnames:
            if avail and rng.random() < 0.7:
                cv = rng.choice(avail)
                if injective:
                    avail.remove(cv)
                d.append([pv, cv])
    rng.shuffle(d)
    return d


def _is_empty_leaf(leaf):
    return not leaf[2]


def _gen_syn(rng):
    form = rng.choice([0, 1, 1, 2, 2, 3, 3, 3, 4, 5, 7])
    if form == 7 and rng.random() < 0.15:
        form = 8
    k = rng.choice([1, 2, 2, 3]) if form in (0, 2, 4, 5) else rng.choice([2, 2, 3])
    if form in (1, 3) and rng.random() < 0.15:
        k = 1  # a product with ONE factor; its reverse is a Quotient without sibling (25e10f1)
    if form in (7, 8):
        k = 1  # the equivalence forms of a product exist for one factor only
    tags = set()
    if k == 1 and form in (1, 3, 7, 8):
        tags.add("one-factor")
    edge = form in (2, 3, 5) and rng.random() < 0.15
    if form in (7, 8):
        leaves = [_rand_leaf(rng, "s0_", "any")]
        idx = 0
    elif form in (4, 5):
        live = rng.randrange(k)
        leaves = [_rand_leaf(rng, "s%d_" % i, "any" if i == live else "empty") for i in range(k)]
        idx = live
    elif form == 3:
        leaves = [_rand_leaf(rng, "s%d_" % i, rng.choice(["atom", "any", "any"])) for i in range(k)]
        idx = rng.randrange(k)
    else:
        leaves = [_rand_leaf(rng, "s%d_" % i) for i in range(k)]
        if form == 1:
            leaves = [lf if not _is_empty_leaf(lf) or rng.random() < 0.3 else _rand_leaf(rng, "s%d_" % i, "any")
                      for i, lf in enumerate(leaves)]
        idx = rng.randrange(k) if form == 2 else 0
    # parent names: enough for the flipped child's statistics
    npar = rng.choice([0, 1, 2, 2, 3])
    if form in (2, 3, 5) and not edge:
        npar = max(npar, len(leaves[idx][1]))
    pnames = ["p%d" % j for j in range(npar)]
    kids = []
    for i, lf in enumerate(leaves):
        flipped = form in (2, 3, 5) and i == idx and not edge
        d = _rand_dict(rng, pnames, lf[1], bijective=flipped, injective=(form == 5 and not edge))
        kids.append([lf, d])
        vals = [b for _, b in d]
        if len(set(vals)) < len(vals):
            tags.add("merge")
        if set(lf[1]) - set(vals):
            tags.add("extra")
        if len(d) < len(pnames):
            tags.add("drop")
    if form in (2, 3) and pnames and rng.random() < 0.3:
        # a second name for an existing parent statistic, mapped like it by every child:
        # the flipped child's dictionary is then not injective, yet consistent
        src = rng.choice(pnames)
        pnames = pnames + [src + "dup"]
        for kd in kids:
            for a, b in list(kd[1]):
                if a == src:
                    kd[1].insert(rng.randrange(len(kd[1]) + 1), [src + "dup", b])
                    if kd is kids[idx]:
                        tags.add("merge-flipped")
    node = ["sum" if form in (0, 2, 4, 5) else "prod", pnames, kids]
    case = {"form": form, "idx": idx, "N": rng.randint(3, 8), "spec": {"u": "syn", "node": node}, "tags": sorted(tags)}
    if edge:
        case["edge"] = 1
    return case


def _gen_quot(rng):
    """
    reverse product rules whose division is a real multivariate polynomial division: 1-3 parent
    statistics, siblings that are not atoms with several (statistic tuples) at their minimum size
    (a divisor with several monomials), a flipped child with several tuples per size (a quotient with
    several monomials), dictionaries that rename / drop / merge; sometimes several parent statistics
    merged onto one statistic of the flipped child
    """
    k = rng.choice([2, 2, 3])
    idx = rng.randrange(k)
    npar = rng.choice([1, 2, 2, 3])
    pnames = ["p%d" % j for j in range(npar)]
    kids = []
    tags = set()
    for i in range(k):
        flipped = i == idx
        nn = rng.randint(1, npar) if flipped else rng.choice([0, 1, 1, 2])
        names = ["s%d_%d" % (i, j) for j in range(nn)]
        m = rng.randint(0, 2)
        entries = {}
        sizes = range(m, m + rng.randint(2, 4)) if flipped else range(m, m + rng.randint(1, 2))
        for s_ in sizes:
            for _ in range(rng.randint(2, 4) if (flipped or s_ == m) else rng.randint(1, 2)):
                entries[(s_, tuple(rng.randint(0, 3) for _ in names))] = rng.randint(1, 3)
        leaf = ["leaf", names, [[s_, list(p_), c_] for (s_, p_), c_ in sorted(entries.items())]]
        if flipped:
            # every statistic of the flipped child is the image of >= 1 parent statistic
            src = list(pnames)
            rng.shuffle(src)
            d = [[pv, cv] for pv, cv in zip(src, names)]
            for pv in src[len(names):]:
                if rng.random() < 0.5:
                    d.append([pv, rng.choice(names)])  # merged onto an already tracked statistic
                    tags.add("merge-flipped")
        else:
            d = _rand_dict(rng, pnames, names)
            vals = [b for _, b in d]
            if len(set(vals)) < len(vals):
                tags.add("merge")
            if set(names) - set(vals):
                tags.add("extra")
        if len(d) < len(pnames):
            tags.add("drop")
        rng.shuffle(d)
        kids.append([leaf, d])
    node = ["prod", pnames, kids]
    return {"form": 3, "idx": idx, "N": rng.randint(3, 6), "spec": {"u": "syn", "node": node},
            "tags": sorted(tags | {"quot"})}


def _gen_path(rng):
    """forward steps down to a leaf, then reverse steps up: X0 > X1 > ... > Xb < ... < Xm"""
    base = _rand_leaf(rng, "b", "any")
    down, up = rng.randint(0, 3), rng.randint(0, 2)
    if down + up == 0:
        down = 1
    edge = rng.random() < 0.1
    counter = [0]
    prods = [0]

    def wrap(node, bij):
        counter[0] += 1
        knames = node[1]
        npar = rng.choice([0, 1, 2, 3])
        if bij:
            npar = max(npar, len(knames))
        pnames = ["q%d_%d" % (counter[0], j) for j in range(npar)]
        d = _rand_dict(rng, pnames, knames, bijective=bij, injective=False)
        kids = [[node, d]]
        pos = 0
        if rng.random() < 0.3:
            # a RAW one-factor product rule (reverse step: its ReverseRule, a Quotient without sibling): 25e10f1
            prods[0] += 1
            return ["prod", pnames, kids], 0
        for _ in range(rng.randint(0, 2)):
            e = _rand_leaf(rng, "e%d_" % counter[0], "empty")
            ed = _rand_dict(rng, pnames, e[1], injective=bij)
            if rng.random() < 0.5:
                kids.insert(0, [e, ed])
                pos += 1
            else:
                kids.append([e, ed])
        return ["sum", pnames, kids], pos

    steps_down, node = [], base
    for _ in range(down):
        node, pos = wrap(node, False)
        steps_down.append({"node": node, "rev": 0, "idx": pos})
    steps_down.reverse()
    steps_up, node = [], base
    for _ in range(up):
        node, pos = wrap(node, not edge)
        steps_up.append({"node": node, "rev": 1, "idx": pos})
    tags = ["path:down%d-up%d" % (down, up)]
    if any(st["node"][0] == "prod" for st in steps_down):
        tags.append("one-factor:path-fwd")
    if any(st["node"][0] == "prod" for st in steps_up):
        tags.append("one-factor:path-rev")
    case = {"form": 6, "idx": 0, "N": rng.randint(3, 8), "steps": steps_down + steps_up, "tags": tags}
    if edge and up:
        case["edge"] = 1
    return case


def _valid(case):
    try:
        _build(case)
        encode(case)
        return True
    except (ValueError, AssertionError, NotImplementedError, KeyError):
        return False


def gen(rng, tier):
    while True:
        r = rng.random()
        if r < 0.25:
            c = _gen_words_union(rng)
        elif r < 0.45:
            c = _gen_words_product(rng)
        elif r < 0.82:
            c = _gen_syn(rng)
        elif r < 0.9:
            c = _gen_quot(rng)
        else:
            c = _gen_path(rng)
        if c is None or not _valid(c):
            continue
        yield c


# ------------------------------------------------------------------ shrinking
def _drop_parent_name(node, name):
    kind, names, kids = node
    return [kind, [x for x in names if x != name], [[k, [e for e in d if e[0] != name]] for k, d in kids]]


def shrink(case):
    if case["N"] > 1:
        yield dict(case, N=case["N"] - 1)
    if case["form"] == 6:
        steps = case["steps"]
        if len(steps) > 1:
            yield dict(case, steps=steps[1:])
            yield dict(case, steps=steps[:-1])
        return
    spec = case["spec"]
    form, idx = case["form"], case["idx"]
    if spec["u"] == "syn":
        kind, names, kids = spec["node"]
        for name in names:
            yield dict(case, spec=dict(spec, node=_drop_parent_name(spec["node"], name)))
        if len(kids) > 1 and form not in (7, 8):
            for i in range(len(kids)):
                if form in (2, 3, 5) and i == idx:
                    continue
                ni = idx - 1 if (form in (2, 3, 5) and i < idx) else idx
                yield dict(case, idx=ni, spec=dict(spec, node=[kind, names, kids[:i] + kids[i + 1:]]))
        for i, (lf, d) in enumerate(kids):
            for j in range(len(lf[2])):
                if len(lf[2]) > 1:
                    nl = [lf[0], lf[1], lf[2][:j] + lf[2][j + 1:]]
                    yield dict(case, spec=dict(spec, node=[kind, names, kids[:i] + [[nl, d]] + kids[i + 1:]]))
            for j, e in enumerate(d):
                yield dict(case, spec=dict(spec, node=[kind, names, kids[:i] + [[lf, d[:j] + d[j + 1:]]] + kids[i + 1:]]))
    else:
        for j, st in enumerate(spec["stats"]):
            plans = [dict(pl, dict=[e for e in pl["dict"] if e[0] != st[0]]) for pl in spec["plans"]]
            yield dict(case, spec=dict(spec, stats=spec["stats"][:j] + spec["stats"][j + 1:], plans=plans))
        for i, pl in enumerate(spec["plans"]):
            used = {b for _, b in pl["dict"]}
            for j, st in enumerate(pl["stats"]):
                if st[0] not in used:
                    npl = dict(pl, stats=pl["stats"][:j] + pl["stats"][j + 1:])
                    yield dict(case, spec=dict(spec, plans=spec["plans"][:i] + [npl] + spec["plans"][i + 1:]))
        if spec["patterns"] and spec["strategy"] == "expansion" and form in (0, 2):
            yield dict(case, spec=dict(spec, patterns=spec["patterns"][1:]))


def _quot_covered(case):
    """form 3: every statistic of the flipped child is the image of a parent statistic (else Quotient.param_map
    asserts on the UNCHANGED code too: such a case is generated only with the 'edge' mark)"""
    spec, idx = case["spec"], case["idx"]
    if spec["u"] == "syn":
        kid, d = spec["node"][2][idx]
        names = list(kid[1])
    else:
        pl = spec["plans"][idx]
        names, d = [st[0] for st in pl["stats"]], pl["dict"]
    vals = {b for _, b in d}
    return all(x in vals for x in names)


def _shrink_valid(case):
    for c in _shrink_raw(case):
        if c.get("form") == 3 and not c.get("edge") and not _quot_covered(c):
            continue  # do not shrink a failing quotient case into the unsupported (edge) configuration
        if _valid(c):
            yield c


_shrink_raw = shrink
shrink = _shrink_valid


# ------------------------------------------------------------------ extra checks
def extra_checks(ctx):
    tags = {}
    for c, (res, _, _) in zip(ctx.cases, ctx.impl_res):
        for t in classify(c, res):
            tags[t] = tags.get(t, 0) + 1
    need = ["form%d" % f for f in range(9)] + ["u:words", "u:syn", "merge", "merge-flipped", "drop", "extra", "edge",
                                               # fix 25e10f1: one-factor products in every form that accepts them
                                               "one-factor:form1", "one-factor:form3", "one-factor:form7",
                                               "one-factor:path-fwd", "one-factor:path-rev",
                                               "q:params", "q:multivariate", "q:divisor-multiterm", "q:long-division",
                                               "q:merged-on-flipped"]
    missing = [t for t in need if not tags.get(t)] if len(ctx.cases) >= 400 else []
    from harness import gen_selftest

    return [("generator reaches every rule form, both universes, drop/merge/extra statistics, multivariate divisions", not missing,
             "never generated: %s" % missing if missing else "ok"),
            gen_selftest.rejects(_BAD_SNIPPETS)] + gen_selftest.checks(GEN_TARGETS, ctx.seed, ID)


_PM_SIG = "    @staticmethod\n    def param_map(child_pos_to_parent_pos, num_parent_params, param):\n"
# source texts outside the translator's subset: each must be REJECTED (fail closed)
_BAD_SNIPPETS = [
    ("constructor_param_map", "class Constructor:\n" + _PM_SIG +
     "        new_params = [0 for _ in range(num_parent_params)]\n        pos = 0\n"
     "        while pos < len(param):\n            pos += 1\n        return tuple(new_params)\n", "while loop"),
    ("constructor_param_map", "class Constructor:\n" + _PM_SIG +
     "        new_params = [0 for _ in range(num_parent_params)]\n"
     "        for pos, value in enumerate(param):\n            if value == 0:\n                continue\n"
     "            new_params[pos] += value\n        return tuple(new_params)\n", "continue inside a loop"),
    ("constructor_param_map", "class Constructor:\n" + _PM_SIG +
     "        for pos, value in enumerate(param):\n            new_params = [value]\n        return tuple(new_params)\n",
     "variable first bound inside a loop and used after it"),
    ("constructor_param_map", "class Constructor:\n" + _PM_SIG +
     "        new_params = [0 for _ in range(num_parent_params)]\n"
     "        for pos, value in enumerate(param):\n            new_params[pos] //= value\n        return tuple(new_params)\n",
     "unsupported augmented operator"),
    ("constructor_param_map", "class Constructor:\n" + _PM_SIG +
     "        new_params = [0 for _ in range(num_parent_params)]\n"
     "        for pos, value in enumerate(param):\n            assert value >= 0\n            new_params[pos] += value\n"
     "        return tuple(new_params)\n", "assertion appears in a target declared without assertions"),
    ("union_param_map", "class DisjointUnion:\n" + _PM_SIG +
     "        new_params = [None for _ in range(num_parent_params)]\n"
     "        for pos, value in enumerate(param):\n            new_params[pos] = value\n"
     "        return tuple(0 if p is None else p for p in new_params)\n", "assertion disappeared"),
    ("union_param_map", "class DisjointUnion:\n" + _PM_SIG +
     "        new_params: List[Optional[int]] = [None for _ in range(num_parent_params)]\n"
     "        for pos, value in enumerate(param):\n            assert new_params[pos] + 0 == value\n"
     "        return tuple(0 if p is None else p for p in new_params)\n", "Optional used as int without a None test"),
    ("quotient_param_map", "class Quotient:\n    @staticmethod\n"
     "    def param_map(child_pos_to_parent_pos, num_parent_params, param, extra=None):\n        return param\n",
     "changed signature"),
    ("quotient_param_map", "class Quotient:\n    def param_map(child_pos_to_parent_pos, num_parent_params, param):\n"
     "        return param\n", "decorator removed"),
    ("path_dict_compose", "class EquivalencePathRule:\n    @property\n    def constructor(self):\n        if self._constructor is None:\n"
     "            extra_parameters = {k: k for k in self.comb_class.extra_parameters}\n            for rule in self.rules:\n"
     "                rules_parameters = rule.constructor.extra_parameters[0]\n"
     "                extra_parameters = {p: rules_parameters.get(c, c) for p, c in extra_parameters.items()}\n",
     "dict.get with a non-None default"),
    ("path_dict_compose", "class EquivalencePathRule:\n    @property\n    def constructor(self):\n        if self._constructor is None:\n"
     "            extra_parameters = {k: k for k in self.comb_class.extra_parameters}\n            for rule in self.rules:\n"
     "                rules_parameters = rule.constructor.extra_parameters[0]\n                for p, c in list(extra_parameters.items()):\n"
     "                    extra_parameters[p] = rules_parameters[c]\n", "the composition became an in-place loop"),
    ("path_dict_invert", "class EquivalencePathRule:\n    @property\n    def constructor(self):\n        if self._constructor is None:\n"
     "            for rule in self.rules:\n                rules_parameters = rule.constructor.extra_parameters[0]\n"
     "                if rule.flipped:\n                    rules_parameters = dict(map(reversed, rules_parameters.items()))\n",
     "unsupported call"),
    ("path_dict_duplicates", "class EquivalencePathRule:\n    @property\n    def constructor(self):\n        if self._constructor is None:\n"
     "            for rule in self.rules:\n                rules_parameters = rule.constructor.extra_parameters[0]\n"
     "                if isinstance(rule.constructor, Complement):\n                    rules_parameters = {b: a for a, b in rules_parameters.items()}\n",
     "the duplicate-parameter guard is gone"),
]


# translator tie (DESIGN.md 10.9): what the regenerated definitions add to the level
LEVEL_NOTE += (
    " Translator tie: the three param_map functions (Constructor, DisjointUnion, Quotient) and the four dictionary expressions of EquivalencePathRule.constructor are RE-TRANSLATED from the source on every run; the model's sum_param_map / du_param_map / q_param_map are proved equal to them for ALL arguments and path_dict_step to the regenerated composition for dictionaries with distinct keys (C09_param_map_is_source, C09_union_param_map_is_source, C09_quotient_param_map_is_source, C09_path_dictionary_is_source, C09_path_initial_is_source; Count/GenBridgeParamMap.v, Count/GenBridgePathDict.v); each regenerated definition is evaluated against the source on random arguments every run (harness/gen_selftest.py)."
)
