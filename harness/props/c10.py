"""C10 — declared shifts bound what a rule actually reads when counting."""
import itertools
import json
import os
import types

from harness import core

ID = "C10"
TITLE = "declared shifts bound what a rule reads when counting"
COQ_PROPS = "Props/C10.v"
COQ_RUN = ("Count.ReadsRun", "run_c10")
GEN_TARGETS = ["reverse_shifts", "product_shifts", "union_shifts", "quotient_parent_shift", "compositions"]
N = {"quick": 20000, "thorough": 300000}
RULE = (
    "three streams. (rule, 40%) REAL Rule/ReverseRule objects of /repo — unions and products over the word "
    "classes of example.py (ExpansionStrategy, RemoveFrontOfPrefix, a prefix-splitting product with 2-4 children "
    "incl. size-0 atoms) and over synthetic classes with known counting sequences (1-4 children, atoms and "
    "non-atoms in any position, minimum sizes 0-3), each also reversed w.r.t. every child (Complement, Quotient; "
    "incl. the reverse of a ONE-factor product, a Quotient without sibling, fix 25e10f1); "
    "plus (about 25% of the rule stream) the DERIVED forms built through to_equivalence_rule / to_reverse_rule(0) / "
    "EquivalencePathRule of /repo: EquivalenceRule and EquivalenceRule(ReverseRule) of unions with 0-3 EMPTY siblings "
    "around the one non-empty child in any position (synthetic classes: atom or non-atom, minimum size 0-4; word "
    "classes all of whose one-letter extensions contain a pattern), equivalence paths of 1-5 steps walking up and down "
    "a tower of such unions, i.e. mixing forward steps and reverse steps (EquivalenceRule of a ReverseRule), over both "
    "universes, and the same three forms on a ONE-factor CartesianProductStrategy rule or with product steps in the "
    "path; paths also of RAW one-child rules (the strategy's own Rule on a one-child union/product and its "
    "to_reverse_rule(0), a plain ReverseRule with constructor Complement/Quotient: what specification_extrator.py "
    "puts in a path), mixed with equivalence-rule steps. Since fix 25e10f1 /repo counts through all of these (their "
    "recorded reads ARE compared with the model and NotImplementedError is a violation) except where a REVERSE step "
    "over a product is wrapped in an EquivalenceRule (EquivalenceRule(ReverseRule(one-factor product))): there "
    "/repo's constructor still raises NotImplementedError (recorded, not a violation) and only shifts() is "
    "compared. The model is run on form 4/5/6, the kind of strategy the rule inherits and the descriptor of the one "
    "class the rule hands to strategy.shifts (taken from the construction, not from rule.children); "
    "sub-term providers are wrapped and the sizes requested during get_terms(n), n = 0..N (N <= 12), recorded; "
    "compared with the model's read sets and with rule.shifts(). (comp, 30%) utils.compositions on k in -1..4, "
    "n in -1..10, bounded/unbounded parts, incl. max < min, negative minima, k <= 0. (shifts, 30%) the translated "
    "ReverseRule.shifts / CartesianProductStrategy.shifts / DisjointUnionStrategy.shifts / Quotient.__init__ run "
    "on stub arguments incl. negative and out-of-range idx (translator self-test). "
    "Non-trivial: rule case with a level that reads >= 3 distinct (provider,size) pairs (for a Quotient: also an "
    "own-term or sibling read, or, without sibling, >= 3 levels that read the original parent; for a derived form: "
    ">= 3 levels computed, each with a read, or the one declared shift of a reverse product equivalence); comp case "
    "with k >= 2 and >= 2 compositions; shifts case with >= 2 children."
)
TECHNIQUE = (
    "Coq proof over definitions REGENERATED from the source on every run (Python-ast -> Gallina translator, "
    "fail closed) + extracted-model/implementation correspondence on recorded reads of real rule objects"
)
LEVEL_TEXT = (
    "Theorems C10_* (coq/theories/Props/C10.v), for all child descriptors, sizes and in-range indices: "
    "utils.compositions yields exactly the bounded compositions, once each; a product rule reads child i only at "
    "sizes <= n - product_shifts_i; union/complement rules read at exactly n and declare shifts 0; the reverse of a "
    "product w.r.t. child idx reads nothing below that child's minimum size, the original parent exactly at "
    "n - shift_0, sibling j at sizes <= n - shift_j and its own terms only below n, with the shifts computed by "
    "ReverseRule.shifts from CartesianProductStrategy.shifts. The derived forms (equivalence rule of a union, of "
    "its reverse, equivalence path) read their one child exactly at n, never their own terms, and declare exactly "
    "one shift, 0 — for EVERY descriptor of the class handed to strategy.shifts(class, (child,)) and for BOTH "
    "DisjointUnionStrategy.shifts and CartesianProductStrategy.shifts (this universal quantification is how the "
    "'(class, children) pair the strategy never produced' subtlety is covered); that shift equals the original union "
    "rule's shift for that child, the reverse rule's shift for the original parent, and the sum of the shifts of a "
    "path's steps; for a product the original rule declares the sum of the other children's minimum sizes instead "
    "(equal for a one-child product). For a product with ONE factor (any descriptor): the rule, its equivalence form, "
    "a path over it and its reverse all declare exactly [0] (C10_one_factor_product_shifts); the rule reads exactly "
    "its child at n when a composition exists and nothing otherwise, the equivalence form / path exactly the child at "
    "n (C10_one_factor_product_reads); the reverse (Quotient without sibling) reads nothing below the child's minimum "
    "size and then exactly the original parent at n, no own earlier term and no sibling, the _a and _c composition "
    "lists being empty (C10_quotient_no_sibling_reads); the general theorems need only 0 <= idx < number of children "
    "and so cover one factor (C10_one_factor_reads_respect_declared_shifts is their instance). "
    "C10_all_forms_reads_respect_declared_shifts states the property for all seven "
    "forms at once. The property's second sentence is C10_enough_for_productivity (Spec/ReadsAvailable.v): for every "
    "descriptor list with the decidable shape deps_shape and every key set handed to the fixed-point analysis whose keys "
    "come from it, every class C03's `pumps` accepts has ALL its terms available along the ACTUAL requests (avail: "
    "well-founded order over reads_of, defined without any shift) - no class ever depends on a term that is not yet "
    "available; applied to the seven-class example (union, product, Complement, Quotient with negative shifts, verified "
    "classes), with a near miss (a self-loop at shift 0 is not available). compositions, the three shifts functions and "
    "Quotient's parent-shift arithmetic are re-translated from /repo on every run (Gen/*.v); the hand-written "
    "transcription of which provider get_terms calls (Count/ReadsModel.v) is tied by recording the calls of real "
    "Rule/ReverseRule/EquivalenceRule/EquivalencePathRule objects."
)
LEVEL_NOTE = (
    "Trusted: Coq kernel, the translator harness/translate.py (validated each run against the functions it "
    "translates), extraction + OCaml driver, the correspondence harness. Modelled not verified: the call structure "
    "of DisjointUnion/Complement/CartesianProduct/Quotient.get_terms (ReadsModel.v) and CartesianProduct.min_sizes/"
    "max_sizes; that EquivalenceRule / EquivalencePathRule count through a one-child DisjointUnion / Complement and "
    "hand exactly their one child to strategy.shifts (derived_reads / derived_shifts of ReadsModel.v; since fix "
    "25e10f1 this includes ONE-factor product steps, forward and raw reverse, whose reads are compared like the "
    "union ones; only for EquivalenceRule(ReverseRule(one-factor product)), alone or as a path step, get_terms "
    "still raises NotImplementedError in /repo, so there the modelled reads are only an upper bound and only "
    "shifts() is compared). The bridge to the forest's productivity analysis (DESIGN C10 item 5) is "
    "C10_enough_for_productivity; its hypothesis deps_shape is decided per case by C01's run (deps_shapeb), not by this check; "
    "that the evaluation returns the TRUE counts is C01_spec_correct_constructors. Parameters "
    "(extra_parameters) do not influence which sizes are read and are not modelled (for the term model of C09 this is "
    "C01's stepF_reads; for the code it is read off compositions/params_value_pairs_combinations, not observed)."
)
TRUSTED = [
    "translator harness/translate.py (Python ast -> Gallina, fail closed); its output Gen/*.v is compared with the "
    "Python functions on every shifts/comp case of each run",
    "modelled, not verified: which sub-term provider get_terms calls (Count/ReadsModel.v: reads_union, "
    "reads_complement, reads_product, reads_quotient, product_min_sizes/max_sizes) — hand transcription of "
    "strategies/constructor/disjoint.py and cartesian.py, tied by the recorded reads of real rules",
    "modelled, not verified: the derived forms (Count/ReadsModel.v: derived_reads, derived_shifts) — hand "
    "transcription of EquivalenceRule.__init__/constructor, EquivalencePathRule.__init__/constructor and the inherited "
    "AbstractRule.shifts of strategies/rule.py, tied by the recorded reads and shifts() of real derived rules; a path "
    "is described by its first strategy and last class only (the model does not check that the steps chain)",
    "py_get returns a default where Python raises IndexError; py_assert truncates where Python raises "
    "AssertionError; both are outside the theorems' preconditions and the harness checks index ranges itself",
]
ASSUMPTIONS = [
    "idx of a reverse rule is in range 0 <= idx < number of children (ReverseRule is only built by to_reverse_rule(i))",
    "minimum sizes are non-negative for the completeness half of C10_compositions_spec",
    "classes honour the minimum_size_of_object / is_atom contract (needed for get_terms not to raise, not for the read bounds)",
]

_RULES = {}


def _U():
    from harness.universes import c10_rules

    return c10_rules


def _built(case):
    k = json.dumps(case["spec"], sort_keys=True)
    if k not in _RULES:
        if len(_RULES) > 5000:
            _RULES.clear()
        if case["spec"].get("derived"):
            info = _U().derived_plan(case["spec"])  # from the spec alone: no rule code of /repo runs here
            _RULES[k] = {"form": info["form"], "strat": info["strat"], "readable": info["readable"],
                         "d": _U().descriptors([info["handed"]])[0]}
        else:
            classes, _ = _U().build_rule(case["spec"])
            _RULES[k] = _U().descriptors(classes)
    return _RULES[k]


# ------------------------------------------------------------------ generator
def _gen_comp(rng):
    edge = rng.random() < 0.2
    k = rng.choice([-1, 0, 1, 2, 2, 3, 3, 4]) if edge else rng.choice([1, 2, 2, 3, 3, 4])
    ln = max(k, 0) if not (edge and k <= 0) else rng.randint(0, 2)
    mins = [rng.randint(-2, 3) if edge else rng.randint(0, 3) for _ in range(ln)]
    maxs = []
    for m in mins:
        r = rng.random()
        if r < 0.55:
            maxs.append(None)
        elif r < 0.75:
            maxs.append(m)
        elif r < 0.95 or not edge:
            maxs.append(m + rng.randint(0, 4))
        else:
            maxs.append(m - rng.randint(1, 2))
    lo = sum(mins)
    n = rng.randint(-1, 10) if rng.random() < 0.4 else lo + rng.randint(-1, 7)
    return {"kind": "comp", "n": n, "k": k, "mins": mins, "maxs": maxs}


def _gen_children(rng, lo=0):
    return [[rng.randint(0, 5), int(rng.random() < 0.4)] for _ in range(rng.randint(lo, 5))]


def _gen_idx(rng, ln):
    r = rng.random()
    if ln and r < 0.75:
        return rng.randrange(ln)
    if ln and r < 0.87:
        return -rng.randint(1, ln)
    return rng.choice([ln, ln + 2, -ln - 1, -ln - 3])


def _gen_shifts(rng):
    which = rng.randrange(4)
    if which == 0:
        s = [rng.randint(-5, 8) for _ in range(rng.randint(0, 5))]
        return {"kind": "shifts", "which": 0, "shifts": s, "idx": _gen_idx(rng, len(s))}
    if which in (1, 2):
        return {"kind": "shifts", "which": which, "children": _gen_children(rng)}
    c = _gen_children(rng)
    return {"kind": "shifts", "which": 3, "children": c, "idx": _gen_idx(rng, len(c))}


def _rand_word(rng, alph, lo, hi):
    return "".join(rng.choice(alph) for _ in range(rng.randint(lo, hi)))


def _gen_leaf(rng):
    atom = int(rng.random() < 0.4)
    return [rng.randint(0, 4), atom, 0 if atom else rng.randint(1, 2)]


def _gen_words_equiv(rng):
    """a word class all of whose one-letter extensions contain a pattern (so only `the word prefix` is non-empty)"""
    alph = "ab" if rng.random() < 0.75 else "abc"
    prefix = _rand_word(rng, alph, 0, 3)
    pats = set()
    for x in alph:
        w = prefix + x
        pats.add(w[rng.randrange(len(w)):] if rng.random() < 0.5 else w)
    return {"universe": "words", "prefix": prefix, "patterns": sorted(pats), "alphabet": alph, "strategy": "expansion"}


def _gen_walk(rng, height, nmoves):
    """start and moves (0 down, 1 up) of a walk staying inside 0..height"""
    start = rng.randint(0, height)
    j, moves = start, []
    for _ in range(nmoves):
        opts = ([0] if j > 0 else []) + ([1] if j < height else [])
        mv = rng.choice(opts)
        moves.append(mv)
        j += 1 if mv else -1
    return start, moves


def _gen_derived(rng):
    """equivalence rules, their reverses and equivalence paths (forms 4 / 5 / 6 of the model)"""
    for _ in range(30):
        r = rng.random()
        if r < 0.4:
            # paths
            if rng.random() < 0.25:
                spec = dict(_gen_words_equiv(rng), derived="path")
                spec["start"], spec["moves"] = _gen_walk(rng, 1, rng.randint(1, 4))
            else:
                mode = rng.random()
                product = mode < 0.5  # some one-factor product wrappers
                raw = 0.15 <= mode < 0.7  # some RAW one-child steps (0.15..0.5: raw products and unions mixed)
                tower, rawl = [], []
                for _ in range(rng.randint(1, 4)):
                    if product and rng.random() < 0.6:
                        tower.append([0, 0, 1])
                    elif raw and rng.random() < 0.5:
                        tower.append([0, 0, 0])
                    else:
                        ne = rng.randint(0, 2)
                        tower.append([ne, rng.randint(0, ne), 0])
                    rawl.append(int(raw and rng.random() < 0.8))
                spec = {"universe": "series", "children": [_gen_leaf(rng)], "derived": "path", "tower": tower}
                if any(rawl):
                    spec["raw"] = rawl
                spec["start"], spec["moves"] = _gen_walk(rng, len(tower), rng.randint(1, 5))
        else:
            derived = "equiv" if rng.random() < 0.5 else "equiv_rev"
            form = 0 if derived == "equiv" else 2
            if r < 0.55:
                # ONE-factor product: the forward equivalence counts since fix 25e10f1 (reads compared); the
                # equivalence of its reverse still raises NotImplementedError in /repo (shifts only)
                spec = {"universe": "series", "children": [_gen_leaf(rng)], "form": form + 1, "idx": 0, "derived": derived}
            elif r < 0.8:
                ne = rng.choice([0, 1, 1, 2, 3])
                kids = [[0, -1, 0] for _ in range(ne)]
                kids.insert(rng.randint(0, ne), _gen_leaf(rng))
                spec = {"universe": "series", "children": kids, "form": form, "idx": 0, "derived": derived}
            else:
                spec = dict(_gen_words_equiv(rng), form=form, idx=0, derived=derived)
        try:
            info = _U().derived_plan(spec)
        except ValueError:
            continue
        return {"kind": "rule", "spec": spec, "N": rng.randint(2, 8) if info["readable"] else 2}
    return _gen_comp(rng)


def _gen_rule(rng):
    if rng.random() < 0.25:
        return _gen_derived(rng)
    form = rng.randrange(4)
    if rng.random() < 0.5:
        k = rng.choice([1, 2, 2, 3, 3, 4])  # form 3 with k = 1: a Quotient without sibling (fix 25e10f1)
        kids = []
        for _ in range(k):
            atom = int(rng.random() < 0.4)
            kids.append([rng.randint(0, 3), atom, 0 if atom else rng.randint(1, 2)])
        spec = {"universe": "series", "children": kids, "form": form, "idx": rng.randrange(k) if form >= 2 else 0}
        return {"kind": "rule", "spec": spec, "N": rng.randint(3, 12 if k <= 3 else 9)}
    for _ in range(50):
        alph = "ab" if rng.random() < 0.75 else "abc"
        prefix = _rand_word(rng, alph, 0, 4)
        if form in (0, 2):
            pats = [_rand_word(rng, alph, 1, 3) for _ in range(rng.randint(0, 2))]
            spec = {"universe": "words", "prefix": prefix, "patterns": pats, "alphabet": alph, "strategy": "expansion"}
        elif rng.random() < 0.5:
            pats = [_rand_word(rng, alph, 1, 3) for _ in range(rng.randint(0, 2))]
            spec = {"universe": "words", "prefix": prefix, "patterns": pats, "alphabet": alph, "strategy": "remove_front"}
        else:
            cuts = sorted(rng.randint(0, len(prefix)) for _ in range(rng.randint(1, 3)))
            spec = {"universe": "words", "prefix": prefix, "patterns": [], "alphabet": alph, "strategy": "split", "cuts": cuts}
        spec["form"], spec["idx"] = form, 0
        try:
            kids, fwd = _U().build_rule(dict(spec, form=form % 2))
        except ValueError:
            continue
        if form in (1, 3) and fwd.comb_class.is_empty():
            continue  # an empty factor has no object of its declared minimum size: Quotient divides by zero
        if form >= 2:
            spec["idx"] = rng.randrange(len(kids))
        return {"kind": "rule", "spec": spec, "N": rng.randint(3, 9 if alph == "ab" else 5)}
    return _gen_comp(rng)


def gen(rng, tier):
    while True:
        r = rng.random()
        if r < 0.4:
            yield _gen_rule(rng)
        elif r < 0.7:
            yield _gen_comp(rng)
        else:
            yield _gen_shifts(rng)


# ------------------------------------------------------------------ encoding
def _opt(x):
    return [] if x is None else x


def encode(case):
    k = case["kind"]
    if k == "comp":
        return [0, case["n"], case["k"], case["mins"], [_opt(m) for m in case["maxs"]]]
    if k == "shifts":
        w = case["which"]
        if w == 0:
            return [1, 0, case["shifts"], case["idx"]]
        if w in (1, 2):
            return [1, w, case["children"]]
        return [1, 3, case["children"], case["idx"]]
    if case["spec"].get("derived"):
        b = _built(case)
        # shifts only (N = -1) where get_terms cannot run in /repo: EquivalenceRule(ReverseRule(one-factor product))
        # alone or as a step of a path; everywhere else the model's reads for n = 0..N are compared
        return [3, b["form"], b["strat"], b["d"], case["N"] if b["readable"] else -1]
    return [2, case["spec"]["form"], _built(case), case["spec"]["idx"], case["N"]]


# ------------------------------------------------------------------ implementation
class _StubClass:
    extra_parameters = ()

    def __init__(self, m, atom):
        self.m, self.atom = m, bool(atom)

    def minimum_size_of_object(self):
        return self.m

    def is_atom(self):
        return self.atom

    def get_minimum_value(self, parameter):  # never called without parameters
        raise KeyError(parameter)


def impl(case):
    k = case["kind"]
    if k == "comp":
        from comb_spec_searcher.utils import compositions

        out = [list(t) for t in compositions(case["n"], case["k"], tuple(case["mins"]), tuple(case["maxs"]))]
        return {"out": out}
    if k == "shifts":
        w = case["which"]
        try:
            if w == 0:
                from comb_spec_searcher.strategies.rule import ReverseRule

                shifts = tuple(case["shifts"])
                stub = types.SimpleNamespace(original_rule=types.SimpleNamespace(shifts=lambda: shifts), idx=case["idx"])
                return {"out": list(ReverseRule.shifts(stub))}
            kids = tuple(_StubClass(m, a) for m, a in case["children"])
            if w == 1:
                from comb_spec_searcher.strategies.strategy import CartesianProductStrategy

                return {"out": list(CartesianProductStrategy.shifts(None, None, kids))}
            if w == 2:
                from comb_spec_searcher.strategies.strategy import DisjointUnionStrategy

                return {"out": list(DisjointUnionStrategy.shifts(None, None, kids))}
            from comb_spec_searcher.strategies.constructor import Quotient

            q = Quotient(_StubClass(0, False), kids, case["idx"], None)
            # pylint: disable=protected-access
            return {"out": [list(q._min_sizes), [_opt(x) for x in q._max_sizes], q._parent_shift]}
        except IndexError:
            return {"out": -2}
    U = _U()
    if case["spec"].get("derived"):
        info = U.build_derived(case["spec"])
        rule = info["rule"]
        shifts = list(rule.shifts())
        levels, exc = U.record_reads(rule, case["N"])
        levels = [[list(r) for r in lv] for lv in levels]
        # where the constructor of /repo raises NotImplementedError (equivalence rule of the REVERSE of a product) only
        # the declared shifts are compared with the model; whatever was read is still judged by the oracle.
        # Wherever the plan says `readable` a NotImplementedError is reported as `raised`, i.e. a violation.
        res = {"out": [shifts] + (levels if info["readable"] else []), "levels": levels,
               "nchildren": len(rule.children), "readable": info["readable"], "nsteps": info["nsteps"],
               "reverse_steps": info["reverse_steps"], "siblings": info["siblings"], "strat": info["strat"],
               "raw_steps": info["raw_steps"], "product_steps": info["product_steps"],
               "raw_reverse_product_steps": info["raw_reverse_product_steps"], "fk": _forest_key_shifts(rule)}
        if exc and not info["readable"] and exc.startswith("NotImplementedError at level 0"):
            res["not_implemented"] = True
        elif exc:
            res["raised"] = exc
        return res
    _, rule = U.build_rule(case["spec"])
    shifts = list(rule.shifts())
    levels, exc = U.record_reads(rule, case["N"])
    res = {"out": [shifts] + [[list(r) for r in lv] for lv in levels], "nchildren": len(rule.children),
           "fk": _forest_key_shifts(rule)}
    if exc:
        res["raised"] = exc
    return res


def _forest_key_shifts(rule):
    """the shifts the productivity analysis RECEIVES for this rule: rule.forest_key(...).shifts (the fixed-point
    analysis of C03/C11 never calls shifts() itself).  None when the key cannot be built for this universe's classes."""
    labels = {}

    def get_label(c):
        return labels.setdefault(c, len(labels))

    try:
        k = rule.forest_key(get_label, lambda c: False)
        return [list(k.shifts), len(k.children)]
    except Exception:  # pylint: disable=broad-except
        return None


# ------------------------------------------------------------------ oracle
def _all_comps(n, k, mins, maxs):
    ranges = []
    for m, M in zip(mins, maxs):
        ranges.append(range(m, (n if M is None else min(M, n)) + 1))
    return [list(t) for t in itertools.product(*ranges) if sum(t) == n]


def oracle(case, res):
    if "exception" in res:
        return "implementation raised " + res["exception"]
    out = res["out"]
    k = case["kind"]
    if k == "comp":
        n, kk, mins, maxs = case["n"], case["k"], case["mins"], case["maxs"]
        seen = set()
        for t in out:
            if tuple(t) in seen:
                return "composition %r yielded twice" % (t,)
            seen.add(tuple(t))
            if len(t) != kk or sum(t) != n:
                return "%r is not a composition of %d into %d parts" % (t, n, kk)
            for x, m, M in zip(t, mins, maxs):
                if x < m or (M is not None and x > M):
                    return "part %d of %r is outside [%r, %r]" % (x, t, m, M)
        if kk >= 1 and len(mins) == kk and all(m >= 0 for m in mins):
            want = _all_comps(n, kk, mins, maxs)
            missing = [t for t in want if tuple(t) not in seen]
            if missing:
                return "composition %r of %d is not yielded" % (missing[0], n)
        return None
    if k == "shifts":
        w = case["which"]
        if w == 0:
            s, idx = case["shifts"], case["idx"]
            if 0 <= idx < len(s):
                want = [-s[idx]] + [x - s[idx] for j, x in enumerate(s) if j != idx]
                if out != want:
                    return "reverse shifts %r, expected %r" % (out, want)
            return None
        mins = [m for m, _ in case["children"]]
        if w == 1:
            want = [sum(mins) - m for m in mins]
            return None if out == want else "product shifts %r, expected %r" % (out, want)
        if w == 2:
            return None if out == [0] * len(mins) else "union shifts %r are not all zero" % (out,)
        idx = case["idx"]
        if 0 <= idx < len(mins):
            if out == -2:
                return "Quotient raised IndexError for a valid idx"
            want = sum(mins) - mins[idx]
            if out[2] != want:
                return "Quotient parent shift %r, expected %r" % (out[2], want)
            if out[0] != mins or out[1] != [m if a else [] for m, a in case["children"]]:
                return "Quotient min/max sizes %r" % (out[:2],)
        return None
    # rule: the recorded reads against the shifts the rule declares
    shifts, levels = out[0], res.get("levels", out[1:])
    if len(shifts) != res["nchildren"]:
        return "rule declares %d shifts for %d children" % (len(shifts), res["nchildren"])
    fk = res.get("fk")
    if fk is not None and (fk[0] != shifts or fk[1] != res["nchildren"]):
        return ("the forest key handed to the productivity analysis carries shifts %r for %d children, the rule declares "
                "%r for %d (what the analysis accepts is then not what the reads are bounded by)" % (fk[0], fk[1], shifts, res["nchildren"]))
    for n, lv in enumerate(levels):
        for p, m in lv:
            if p == -1:
                if m >= n:
                    return "computing its terms of size %d the rule asks for its own terms of size %d" % (n, m)
            elif not 0 <= p < len(shifts):
                return "read of unknown provider %d" % p
            elif m > n - shifts[p]:
                return "computing size %d the rule reads child %d at size %d > %d - shift %d (shifts %r)" % (
                    n, p, m, n, shifts[p], shifts)
    if res.get("raised"):
        return "get_terms raised " + res["raised"]
    return None


def nontrivial(case, res):
    out = res.get("out")
    k = case["kind"]
    if k == "comp":
        return case["k"] >= 2 and isinstance(out, list) and len(out) >= 2
    if k == "shifts":
        return len(case.get("children", case.get("shifts", []))) >= 2 and out != -2
    if not isinstance(out, list):
        return False
    if case["spec"].get("derived"):
        if not res.get("readable"):
            return len(out[0]) == 1  # shifts only
        return not res.get("raised") and len(out) >= 4 and all(out[1:])
    big = any(len(lv) >= 3 for lv in out[1:])
    if case["spec"]["form"] == 3:
        if len(out[0]) == 1:  # Quotient without sibling: one read per level, of the original parent
            return not res.get("raised") and sum(1 for lv in out[1:] if lv) >= 3
        return big and any(p == -1 or p >= 1 for lv in out[1:] for p, _ in lv)
    return big


def key(case):
    return json.dumps(case, sort_keys=True)


def classify(case, res):
    k = case["kind"]
    tags = [k]
    if k == "rule":
        s = case["spec"]
        if s.get("derived"):
            d = "rule:derived:" + s["derived"]
            tags += [d, d + ":" + s["universe"]]
            if "strat" in res:
                tags.append(d + (":product-strategy" if res["strat"] else ":union-strategy"))
                if s["derived"] == "path":
                    tags.append("rule:derived:path:steps=%d" % res["nsteps"])
                    if res["reverse_steps"]:
                        tags.append("rule:derived:path:reverse-step")
                        tags.append("rule:derived:path:reverse-step:" + s["universe"])
                        if res["reverse_steps"] < res["nsteps"]:
                            tags.append("rule:derived:path:mixed-directions")
                    if res.get("raw_steps"):
                        tags.append("rule:derived:path:raw-step")
                        if res["raw_steps"] < res["nsteps"]:
                            tags.append("rule:derived:path:raw-and-equivalence-steps")
                    if res.get("raw_reverse_product_steps"):
                        tags.append("rule:derived:path:raw-reverse-product-step")
                    if res.get("product_steps"):
                        tags.append("rule:derived:path:product-step")
                elif res["siblings"]:
                    tags.append(d + ":empty-siblings")
                tags.append("rule:derived:readable" if res["readable"] else "rule:derived:shifts-only")
                if res["readable"] and (res["strat"] or res.get("product_steps")):
                    tags.append("rule:derived:product-readable")
                if res.get("not_implemented"):
                    tags.append("rule:derived:NotImplementedError")
        else:
            tags.append("rule:%s:form%d" % (s["universe"], s["form"]))
            if s["universe"] == "series" and len(s["children"]) == 1 and s["form"] in (1, 3):
                tags.append("rule:one-factor-product:form%d" % s["form"])
        out = res.get("out")
        if isinstance(out, list):
            tags.append("rule:k=%d" % len(out[0]))
            if any(p == -1 for lv in out[1:] for p, _ in lv):
                tags.append("rule:own-terms-read")
            if any(s_ < 0 for s_ in out[0]):
                tags.append("rule:negative-shift")
    elif k == "comp":
        out = res.get("out")
        tags.append("comp:k=%d" % case["k"])
        if isinstance(out, list):
            tags.append("comp:empty" if not out else "comp:nonempty")
    else:
        tags.append("shifts:which%d" % case["which"])
        if res.get("out") == -2:
            tags.append("shifts:IndexError")
    return tags


# ------------------------------------------------------------------ shrinking
def shrink(case):
    k = case["kind"]
    if k == "comp":
        if case["n"] > 0:
            yield dict(case, n=case["n"] - 1)
        if case["k"] > 1 and len(case["mins"]) == case["k"]:
            for i in range(case["k"]):
                yield dict(case, k=case["k"] - 1, mins=case["mins"][:i] + case["mins"][i + 1:],
                           maxs=case["maxs"][:i] + case["maxs"][i + 1:])
        for i, m in enumerate(case["maxs"]):
            if m is not None:
                yield dict(case, maxs=case["maxs"][:i] + [None] + case["maxs"][i + 1:])
        for i, m in enumerate(case["mins"]):
            if m > 0:
                yield dict(case, mins=case["mins"][:i] + [m - 1] + case["mins"][i + 1:])
    elif k == "shifts":
        seq = "shifts" if case["which"] == 0 else "children"
        xs = case[seq]
        for i in range(len(xs)):
            c = dict(case)
            c[seq] = xs[:i] + xs[i + 1:]
            if "idx" in c and c["idx"] >= len(c[seq]) and c["idx"] > 0:
                c["idx"] -= 1
            yield c
    else:
        if case["N"] > 1:
            yield dict(case, N=case["N"] - 1)
        s = case["spec"]
        if s.get("derived"):
            cands = []
            if s["universe"] == "series":
                kids = s["children"]
                for i, (m, a, g) in enumerate(kids):
                    if a < 0:
                        cands.append(dict(s, children=kids[:i] + kids[i + 1:]))
                    else:
                        if m > 0:
                            cands.append(dict(s, children=kids[:i] + [[m - 1, a, g]] + kids[i + 1:]))
                        if g > 1:
                            cands.append(dict(s, children=kids[:i] + [[m, a, 1]] + kids[i + 1:]))
                if "tower" in s:
                    for i, w in enumerate(s["tower"]):
                        if w[0] > 0:
                            cands.append(dict(s, tower=s["tower"][:i] + [[0, 0, w[2]]] + s["tower"][i + 1:]))
            elif s["prefix"]:
                p = s["prefix"]
                cands.append(dict(s, prefix=p[1:], patterns=sorted({p[1:] + x for x in s["alphabet"]})))
            if s["derived"] == "path" and "moves" in s and len(s["moves"]) > 1:
                mv = s["moves"]
                cands.append(dict(s, moves=mv[:-1]))
                cands.append(dict(s, moves=mv[1:], start=s["start"] + (1 if mv[0] else -1)))
            for c in cands:
                try:
                    info = _U().derived_plan(c)
                except ValueError:
                    continue
                yield dict(case, spec=c, N=case["N"] if info["readable"] else 2)
            return
        if s["universe"] == "series":
            kids = s["children"]
            if len(kids) > 1:
                for i in range(len(kids)):
                    if s["form"] >= 2 and i == s["idx"]:
                        continue
                    idx = s["idx"] - 1 if (s["form"] >= 2 and i < s["idx"]) else s["idx"]
                    yield dict(case, spec=dict(s, children=kids[:i] + kids[i + 1:], idx=idx))
            for i, (m, a, g) in enumerate(kids):
                if m > 0:
                    yield dict(case, spec=dict(s, children=kids[:i] + [[m - 1, a, g]] + kids[i + 1:]))
                if g > 1:
                    yield dict(case, spec=dict(s, children=kids[:i] + [[m, a, 1]] + kids[i + 1:]))
        else:
            cands = []
            if s["patterns"]:
                cands.append(dict(s, patterns=s["patterns"][1:]))
            if s["prefix"]:
                cands.append(dict(s, prefix=s["prefix"][1:]))
                cands.append(dict(s, prefix=s["prefix"][:-1]))
            for c in cands:
                try:
                    kids_, fwd = _U().build_rule(dict(c, form=c["form"] % 2))
                except ValueError:
                    continue
                if c["form"] >= 2 and c["idx"] >= len(kids_):
                    continue
                if c["form"] in (1, 3) and fwd.comb_class.is_empty():
                    continue
                yield dict(case, spec=c)


# ------------------------------------------------------------------ extra checks
_BAD_SNIPPETS = [
    ("compositions", "def compositions(n: int, k: int, min_sizes: Tuple[int, ...], max_sizes: Tuple[Optional[int], ...]) -> Iterator[Tuple[int, ...]]:\n"
                     "    while k > 0:\n        yield (n,)\n        k -= 1\n", "while loop"),
    ("compositions", "def compositions(n: int, k: int, min_sizes: Tuple[int, ...], max_sizes: Tuple[Optional[int], ...]) -> Iterator[Tuple[int, ...]]:\n"
                     "    if k == 1:\n        yield (max_sizes[0] + n,)\n", "Optional used as int without a None test"),
    ("reverse_shifts", "class ReverseRule:\n    def shifts(self):\n        return tuple(sorted(self.original_rule.shifts()))\n", "unknown call"),
    ("reverse_shifts", "class ReverseRule:\n    def shifts(self, extra):\n        return self.original_rule.shifts()\n", "changed signature"),
    ("product_shifts", "class CartesianProductStrategy:\n    def shifts(self, comb_class, children=None):\n"
                       "        return tuple(c.minimum_size_of_object() for c in children)\n", "missing glue statement"),
    ("union_shifts", "class DisjointUnionStrategy:\n    def shifts(self, comb_class, children=None):\n"
                     "        if children is None:\n            children = self.decomposition_function(comb_class)\n"
                     "            if children is None:\n                raise StrategyDoesNotApply('Strategy does not apply')\n"
                     "        return tuple(0 if 0 <= c.minimum_size_of_object() < 3 else 1 for c in children)\n", "chained comparison"),
    ("quotient_parent_shift", "class Quotient:\n    def __init__(self, parent, children, idx, extra_parameters=None):\n"
                              "        self.idx = idx + 1\n        self._min_sizes = tuple(c.minimum_size_of_object() for c in children)\n"
                              "        self._max_sizes = self._min_sizes\n        self._parent_shift = 0\n", "self.idx no longer idx"),
]


def extra_checks(ctx):
    from harness import translate

    checks = []
    # 1. the translator fails closed on constructs outside its subset
    wrong = []
    for target, source, what in _BAD_SNIPPETS:
        try:
            translate.translate_target(target, source)
            wrong.append(what)
        except translate.Unsupported:
            pass
    checks.append(("translator rejects unsupported source (%d snippets)" % len(_BAD_SNIPPETS), not wrong,
                   "accepted: %s" % wrong if wrong else "all rejected"))
    # 2. the generated files on disk are the translation of the current source
    stale = []
    for t in GEN_TARGETS:
        path = os.path.join(translate.GEN_DIR, translate.TARGETS[t]["out"] + ".v")
        try:
            with open(path) as f:
                if f.read() != translate.translate_target(t):
                    stale.append(t)
        except (OSError, translate.Unsupported) as ex:
            stale.append("%s (%s)" % (t, ex))
    checks.append(("Gen/*.v equal the translation of the current source", not stale, "stale: %s" % stale if stale else "ok"))
    # 3. non-vacuity of the stream: quotients that read their own terms, negative shifts, bounded compositions
    tags = {}
    for c, (res, _, _) in zip(ctx.cases, ctx.impl_res):
        for t in classify(c, res):
            tags[t] = tags.get(t, 0) + 1
    need = ["rule:own-terms-read", "comp:nonempty", "shifts:IndexError"] + [
        "rule:%s:form%d" % (u, f) for u in ("series", "words") for f in range(4)] + [
        "rule:derived:" + d for d in ("equiv", "equiv_rev", "path")] + [
        "rule:derived:%s:%s" % (d, u) for d in ("equiv", "equiv_rev", "path") for u in ("series", "words")] + [
        "rule:derived:%s:%s-strategy" % (d, k) for d in ("equiv", "equiv_rev", "path") for k in ("union", "product")] + [
        "rule:derived:equiv:empty-siblings", "rule:derived:equiv_rev:empty-siblings",
        "rule:derived:path:reverse-step:series", "rule:derived:path:reverse-step:words",
        "rule:derived:path:mixed-directions", "rule:derived:shifts-only", "rule:derived:product-readable",
        "rule:derived:path:raw-step", "rule:derived:path:raw-reverse-product-step",
        "rule:derived:path:raw-and-equivalence-steps", "rule:derived:path:product-step",
        "rule:one-factor-product:form1", "rule:one-factor-product:form3"]
    missing = [t for t in need if not tags.get(t)] if len(ctx.cases) >= 400 else []
    checks.append(("generator reaches every rule form (plain, reversed, equivalence, reverse-of-equivalence, paths "
                   "with reverse steps, product equivalences read and shifts-only, one-factor products and their "
                   "reverse, paths of raw one-child rules), own-term reads, negative shifts", not missing,
                   "never generated: %s" % missing if missing else "ok"))
    # 4. the shifts the productivity analysis receives (forest_key) were really compared with shifts()
    nrule = sum(1 for c in ctx.cases if c["kind"] == "rule")
    nfk = sum(1 for c, (res, _, _) in zip(ctx.cases, ctx.impl_res) if c["kind"] == "rule" and res.get("fk") is not None)
    checks.append(("forest_key(...).shifts == rule.shifts() judged on rule cases: %d of %d" % (nfk, nrule),
                   nrule == 0 or nfk >= nrule // 2,
                   "the key handed to the fixed-point analysis (C03/C11) is built by forest_key, which is what "
                   "C10_enough_for_productivity's key hypothesis is about; a rule case without a key = forest_key raised"))
    return checks
