"""C07 — object generation yields exactly the objects of the class, each once."""
import itertools
import json
import random

ID = "C07"
TITLE = "object generation yields exactly the objects of the class, each once"
COQ_PROPS = "Props/C07.v"
COQ_RUN = ("Count.ParseTreesRun", "run_c07d")   # = run_c07p (run_c07 + the parse-tree queries 5/6/7, C07_run_extends)
#                                                 + ONE appended field [rank_ok, closed_ok, depth, leaves_ok]: the decidable
#                                                 hypotheses of the end-to-end theorems decided on the case
GEN_TARGETS = ["compositions"]
N = {"quick": 2000, "thorough": 24000}
RULE = (
    "two streams. (spec, 60%) REAL specifications returned by auto_search: words_ext (28 start classes x 18 packs "
    "incl. symmetries, inferral, factories, verification strategies with packs, iterative x 4 rule databases incl. "
    "RuleDBForest with reverse rules x expand_verified x smallest; in 13% of these the pack is one of the 11 "
    "one-factor-product packs of harness/universes/words_onefactor.py - a relabelling / re-description of the class "
    "declared as a CartesianProductStrategy with ONE child, which the searcher uses as an equivalence step of "
    "EquivalencePathRules forwards and in reverse (fix 25e10f1); a returned specification one of whose rules has no "
    "constructor (AssertionError) is reported, not skipped) and word classes WITH STATISTICS (number of "
    "occurrences of chosen letters as extra parameters; union/product/symmetry strategies that keep, rename or drop "
    "parameters; 10 start classes x symmetry x 2 rule databases). (rule, 40%) single REAL rule objects whose children "
    "answer by brute force: ExpansionStrategy / RemoveFrontOfPrefix / their statistics versions on random classes, "
    "products with 2-5 children incl. size-0 atoms (SplitSafe), products of 2-3 NON-atom factors (a*b*c*), "
    "EquivalenceRule, ReverseRule, EquivalenceRule(ReverseRule) and EquivalencePathRule chains of 1-5 such forms mixing "
    "two non-commuting symmetries, inferral, expansion equivalences and their reverses. "
    "Per case, in a random order on shared caches (so the sizes asked of one rule's cache are NOT monotone, and a "
    "verified class that is both a factor of a product and a summand of a union is reached first through either - "
    "corpus cases verified_cache_* pin two such orders): get_objects(n) of the root for every n <= N (N <= 8 on 2 letters, "
    "<= 6 on 3) and of other classes, the (parameters, sub_objs) pairs enumerated by get_sub_objects + "
    "itertools.product for every rule and level, get_terms(n) of every rule (the model computes it with the "
    "transcribed get_terms from the numbers of objects in the children's dictionaries), get_terms(n) of every rule - "
    "verification rules and brute-force children included - through the model's TERMS caches (Count/ObjectsTermsModel.v; "
    "sizes in random order on shared terms caches), forward_map then "
    "backward_map on the objects of every rule's parent (<= 120 sampled objects of size <= 7 per rule); in the spec "
    "stream additionally OBJECTS <-> PARSE TREES (queries 5/6): for every object of the root up to the size bound (60 "
    "sampled above that) and 6 objects of every other class, the parse tree the model computes through its forward maps "
    "(derived forms included) is compared with the tree of the real object through Rule.forward_map (format of c12.py "
    "Desc.tree), unparse(parse o) of the model with the real backward maps composed bottom-up, and (query 7) the SIZE "
    "AND PARAMETER TUPLE the model computes on the parse tree (leaf data of the descriptors + the rules' parameter maps "
    "along the tree) with the size and key under which the real rule files the object (get_objects), the oracle "
    "comparing both with len(o) and cls.get_parameters(o); a leaf is any verification rule of a one-object class "
    "(AtomStrategy: descriptor [3, m, o]; StatAtom, an atom WITH parameters: [3, m, o, params]), so the specifications "
    "with statistics have parse trees (before: all their queries answered 'no tree'); only a verification rule with "
    "several objects has no leaf (both sides answer 'no tree'; 0 of 5706 queries on 200 cases of seed 0). "
    "In the rule stream the unary steps of chains include ONE-FACTOR CartesianProduct rules "
    "(words_onefactor.OneFactor swap / min, forwards and as ReverseRule: steps of1, of1min, rof1), bare or inside an "
    "EquivalencePathRule. "
    "Model and implementation are compared as sorted lists. "
    "auto_search runs under a scripted clock and a PRNG seeded from the case (the specification it returns otherwise "
    "depends on wall-clock time). "
    "Non-trivial: the root has >= 4 objects of some size and the case contains a product or a path of >= 2 forms "
    "or a parameter; distinct = distinct (configuration, N)."
)
TECHNIQUE = (
    "Coq proof (per-constructor bijection theorems over the REGENERATED utils.compositions; induction on a "
    "productivity certificate through the level-by-level object caches) + extracted-model/implementation "
    "correspondence on real specifications and rule objects"
)
LEVEL_TEXT = (
    "Theorems C07_* (coq/theories/Props/C07.v), for every object type, class semantics, parameter maps and sizes: "
    "the (parameters, tuple) pairs enumerated by DisjointUnion.get_sub_objects / CartesianProduct.get_sub_objects "
    "followed by itertools.product are, without repetition, exactly the splits of the children's objects "
    "(C07_union_sub_objects, C07_product_sub_objects - the latter over utils.compositions re-translated from /repo on "
    "every run; both under the hypothesis that the children's dictionaries are `good`, the product also under bounds_ok); one level built by Rule._ensure_level_objects under the bijection contract of the strategy's maps "
    "holds every object of that size once under its parameters (C07_union_level, C07_product_level); for a closed, "
    "one-rule-per-class specification with a productivity certificate, get_objects through the level-by-level caches "
    "terminates from every consistent cache state, keeps the caches consistent and "
    "generate_objects_of_size returns a duplicate-free permutation of the class's objects for every size and "
    "parameter tuple (C07_generate_exact, C07_generate_perm; the certificate is a free function in these theorems - "
    "C07_rank_decided / C07_closed_decided / C07_generate_exact_decided: the extracted run DECIDES on the descriptors of "
    "every compared case that a certificate exists for all sizes (sufficient criterion rankb: minima >= 0 and the "
    "same-size class graph - union children, product children whose siblings' minima add up to 0 - is acyclic) and that "
    "the specification is closed, prints the verdict as an appended field which the harness recomputes independently, "
    "and extra_checks counts the cases on which the theorem's decidable hypotheses hold: every non-skipped case of "
    "seeds 0-2); EquivalenceRule, ReverseRule of an equivalence, "
    "EquivalenceRule(ReverseRule) and EquivalencePathRule round-trip with parts in the right classes "
    "(C07_roundtrip_*: one-way `link`s, for an original rule whose constructor is a DisjointUnion satisfying "
    "union_contract and whose other children are empty; the path theorem assumes a chain of links); "
    "DERIVED FORMS SATISFY THE FULL CONTRACT (both directions, size law, parameter law), so that the node "
    "RUnion [child] [map] derived_backward_map standing for them meets the hypothesis of C07_generate_exact and can be a "
    "node of parse trees: C07_equivalence_contract (EquivalenceRule), C07_reverse_equivalence_contract (+ _flag: with the "
    "flag computed from truthful is_empty answers) and C07_reverse_single_contract (the reversed parameter map must undo "
    "the child's map on the tuples that occur), C07_path_contract (EquivalencePathRule of steps each with the full "
    "contract; parameter map = composition); "
    "OBJECTS ARE PARSE TREES (Count/ParseTrees*.v, shared with C08 and C12): for a closed one-rule-per-class productive "
    "specification whose rules honour the contracts with their forward maps given (node_ok; verified classes are atoms or "
    "empty), for every class, size and parameter tuple, unparse (backward maps bottom-up, each yielding exactly one "
    "object) is a bijection from the well-formed parse trees of the class with that size and parameters onto its objects "
    "with them, parse (forward maps top-down) computes the inverse with enough fuel, and both commute with the rules' maps "
    "at every node (C07_objects_are_parse_trees, C07_parse_unparse, C07_parse_sound, C07_node_commutes_union/_product, "
    "C07_node_ok_rule_ok); SIZE AND PARAMETERS ON THE TREE, EXECUTED: tszd / tprd (Count/ParseTreesStats.v, what query 7 "
    "runs: leaf sizes and leaf parameter tuples from tables, the rules' parameter maps at inner nodes) are tsz / tpr of "
    "the bijection theorem when the tables are truthful (C07_tree_stats_are_tsz_tpr), and for every object o of a class "
    "c whose parse answers t, tszd t = size o and tprd t = par c o (C07_parse_stats; converse C07_unparse_stats); the "
    "run's tables are truthful when every descriptor [3, m, o, params] carries the size and parameters of o "
    "(C07_leaf_data_run; checked by the oracle per leaf); C07_leaves_decided: the 4th verdict field leaves_ok = 1 gives "
    "that every verified class of the decoded specification holds exactly the one object of its descriptor under the "
    "declared size and parameters, or nothing; "
    "ONE-FACTOR PRODUCTS (fix 25e10f1): product_contract c [k] [m] implies (and is implied by) union_contract c [k] [m] "
    "(C07_one_factor_product_is_union_step, _maps for any list of one map, C07_union_step_is_one_factor_product), so a "
    "one-factor product rule is a step of cchain / C07_path_contract (C07_one_factor_product_path_step), its ReverseRule "
    "satisfies the full contract (C07_one_factor_product_reverse_contract, from C07_reverse_single_contract) and it "
    "round-trips (C07_one_factor_product_roundtrip, from C07_roundtrip_plain_single); "
    "C07_run_extends: the extracted run_c07p answers inputs without the new queries (5, 6, 7) as run_c07; "
    "ReverseRule: the flag len(original_rule.non_empty_children()) == 1 computed from truthful "
    "is_empty answers is true exactly when child idx is the only non-empty child (C07_reverse_flag), with the flag "
    "false both maps raise (C07_reverse_refuses), and with the other children empty the reverse rule is a bijection "
    "in BOTH directions between child idx and the original parent, sizes kept (C07_reverse_bijection; "
    "C07_roundtrip_reverse, which passes the flag as `true` and needs no emptiness hypothesis, is true as stated but "
    "is only the direction child -> parent -> child: the applied example C07_reverse_needs_others_empty shows a union "
    "with three non-empty children where its conclusion holds, the computed flag is false and the other direction "
    "fails); get_terms of both constructors fed with the numbers of objects of the children returns the "
    "lengths of the lists built by _ensure_level_objects (C07_count_eq_length_*_step), fed with ANY Counters that count "
    "the children's objects it returns a Counter that counts the parent's (C07_union_terms_level, "
    "C07_product_terms_level), and END TO END, without assuming that the counts are right: for a closed "
    "one-rule-per-class productive specification under the bijection contracts, from any consistent terms caches and "
    "any consistent objects caches, the number count_objects_of_size(n, **params) returns (Rule._ensure_level / "
    "VerificationRule._ensure_level / get_terms through the terms caches, transcribed in Count/ObjectsTermsModel.v) "
    "equals the length of the list generate_objects_of_size(n, **params) returns, and is the length of every "
    "duplicate-free enumeration of the class at that size and parameters (C07_count_eq_length, C07_count_exact; a "
    "verification strategy's get_terms is assumed to be a Counter counting what its get_objects lists); "
    "VerificationRule._ensure_level_objects: whatever the order of requests, a request for size n appends exactly "
    "strategy.get_objects(class, k) for k = len(cache)..n to that class's cache and touches no other, so level k holds "
    "strategy.get_objects(class, k) and get_objects(n) answers it (C07_verified_cache_append, _levels, "
    "C07_verified_get_objects; no hypothesis on the specification). "
    "The hand-written model (Count/ObjectsModel.v) is tied to rule.py / disjoint.py / cartesian.py by "
    "running both on descriptors of real specifications and rule objects."
)
LEVEL_NOTE = (
    "Trusted: Coq kernel, translator (compositions), extraction + OCaml driver, the correspondence harness. "
    "Modelled not verified: get_sub_objects of both constructors, _ensure_level_objects, the derived rules' maps, "
    "param_map, get_terms of the two constructors, Rule._ensure_level / VerificationRule._ensure_level / get_terms / "
    "count_objects_of_size (Count/ObjectsTermsModel.v, run against the code by the queries of kind 4: get_terms(n) of "
    "every rule through shared terms caches, sizes in random order; the model takes a verification strategy's get_terms "
    "to be the numbers of objects its get_objects lists; the oracle compares count_objects_of_size with "
    "len(generated) for the ROOT of spec-stream cases only (60% of the cases); other classes and the rule stream only "
    "have get_terms compared with brute-force counts for sizes <= min(N, P)). "
    "Parse trees: parse / unparse / the derived maps made total are modelled (Count/ParseTrees.v, ParseTreesForms.v) and "
    "tied by queries 5/6/7; tszd / tprd (query 7) are executed, tsz / tpr themselves occur only in statements and are "
    "related to them by C07_tree_stats_are_tsz_tpr under leaf_data (the descriptor's size and parameters of a one-object "
    "verification rule are the object's own: data from the strategy's get_objects, checked by the oracle against "
    "len(o) / cls.get_parameters(o)); that a class verified as an atom has NO other object is the class's is_atom() "
    "answer (contract; a lie shows as a kind-0/4 mismatch up to the size bound); on the implementation side query 7 "
    "reads the key under which Rule.get_objects files the object, so a wrong parameter map inside a union or path is "
    "seen by the ORACLE (model and implementation take the library's parameter maps as data and agree); "
    "verification rules with several objects have no leaf (no tree: both sides answer -1), "
    "Complement/Quotient nodes are outside. The contracts node_ok are hypotheses on user code (checked per case by the "
    "kind-2 round trips on sampled objects, not proved); for derived forms they are now THEOREMS from the original rule's "
    "contract + others_empty (the reverse direction also needs the reversed parameter map to undo the child's map). "
    "C07_count_eq_length_partial (which ASSUMES the count is right) is kept beside the assumption-free "
    "C07_count_eq_length. C07_count_eq_length treats a Counter as a dictionary (distinct keys: keys_ok) and needs the "
    "verification strategies' contract get_terms[p] = len(get_objects[p]) (C07_count_eq_length_needs_verified_counts "
    "shows the count changes without it). C07_reverse_flag assumes truthful is_empty answers. "
    "Productivity enters as a rank certificate over the actual reads, not derived from the forest analysis (C03/C11); "
    "its EXISTENCE is decided per case by the model (Count/ParseTreesDeciders.v rankb, sound by rankb_sound, not "
    "complete: a maximum size that forbids a same-size read is ignored) and by the harness (depth-first search), the "
    "two verdicts compared on every case; on a real specification whose generation terminated a verdict 0 is an oracle "
    "failure, on the rule stream it is only counted. The bijection contracts remain undecided hypotheses. "
    "Complement/Quotient rules (non-equivalence reverse rules) do not implement get_sub_objects; specifications "
    "containing them are outside the property and are skipped (counted in the evidence)."
)
TRUSTED = [
    "translator harness/translate.py for utils.compositions (Gen/Compositions.v); Count/CompositionsSpec.v proves its spec",
    "modelled, not verified: DisjointUnion.get_sub_objects, CartesianProduct.get_sub_objects/_new_param, "
    "Rule._ensure_level_objects/get_objects/generate_objects_of_size, VerificationRule._ensure_level_objects, "
    "Rule._ensure_level/VerificationRule._ensure_level/get_terms/count_objects_of_size (Count/ObjectsTermsModel.v), "
    "EquivalenceRule/ReverseRule/EquivalencePathRule forward_map/backward_map, Constructor.param_map, "
    "DisjointUnion.param_map (Count/ObjectsModel.v) - tied by this correspondence (hand copies param_map_sum / "
    "param_map_first; the regenerated Gen/ConstructorParamMap.v, Gen/UnionParamMap.v and CartesianProduct min_sizes / "
    "max_sizes of other properties are not used here: min/max sizes enter as data, contract bounds_ok); "
    "Count/ParseTrees.v parse / unparse, Count/ParseTreesForms.v tot_fwd / tot_bwd, Count/ParseTreesRun.v - tied by the "
    "queries of kinds 5 and 6",
    "the strategies' own forward_map/backward_map and non-atom verification strategies' get_objects are user code: "
    "tabulated by the harness from the real objects and handed to the model (Section variables in the theorems)",
    "exceptions raised by user maps are not modelled (the model's derived maps return None where rule.py raises)",
]
ASSUMPTIONS = [
    "strategies honour the bijection contract (backward(forward o) = [o], parts in the children, sizes add, "
    "parameters follow extra_parameters; union children disjoint) - checked per case on <= 120 sampled objects per rule "
    "up to size 7, the parameter law only through the kind-1 pairs vs cls.get_parameters; for EquivalenceRule / "
    "EquivalencePathRule / ReverseRule nodes the contract of the DERIVED maps follows from the original rule's "
    "(C07_equivalence_contract, C07_reverse_equivalence_contract, C07_path_contract) given others_empty",
    "C07_objects_are_parse_trees: forward maps given as functions; every verification rule is an atom (one object) or "
    "empty - decided per case (leaves_ok, C07_leaves_decided; extra_checks: every stat and ext spec case of seeds 0-2) "
    "up to the class's own is_atom(); sizes are >= 0",
    "C07_parse_stats: leaf_data - the size m and the parameters of a descriptor [3, m, o, params] are those of o "
    "(checked per case for every such leaf: m == len(o), params == cls.get_parameters(o), o in the class)",
    "C07_one_factor_product_*: the rule has exactly one child and one parameter map (true of every CartesianProduct "
    "constructor: one map per child)",
    "CartesianProduct: min/max sizes are true bounds, minima >= 0, at least one child (bounds_ok)",
    "specification closed, one rule per class, productive (rank certificate over the reads of every level) - closedness "
    "and the existence of a certificate are decided on every compared case by run_c07d and recomputed by the harness "
    "(C07_closed_decided, C07_rank_decided; extra_checks `covered_by_theorem`: all non-skipped cases on seeds 0-2)",
    "sizes n >= 0 (get_objects(-1) indexes the cache from the end in Python; outside the property)",
    "C07_count_eq_length: a verification strategy's get_terms(class, n) is a Counter with get_terms[p] == "
    "len(get_objects(class, n)[p]) for every p (checked per case: get_terms of every rule against brute force)",
    "C07_reverse_flag / C07_reverse_bijection: comb_class.is_empty() is truthful",
]

_WORLDS = {}


def _U():
    from harness.universes import words_objs

    return words_objs


def _X():
    from harness.universes import words_ext

    return words_ext


# ------------------------------------------------------------------ worlds
class _ScriptedClock:
    """auto_search decides how long to expand and how long to minimise by wall-clock time, so the
    specification it returns depends on the machine load.  During a search time.time() is replaced by a
    counter, which makes the returned specification a function of the case (model side and implementation side
    build their worlds in different processes)."""

    def __enter__(self):
        import time

        self._time, self._real, self._t = time, time.time, 0.0

        def fake():
            self._t += 0.0005
            return self._t

        time.time = fake
        return self

    def __exit__(self, *a):
        self._time.time = self._real


class World:
    """rules by label (0 = root), their classes and children labels"""

    def __init__(self):
        self.rules, self.classes, self.kids = [], [], []
        self.spec = None
        self.unsupported = None   # a specification containing a rule without get_sub_objects
        self.mapsonly = False     # a single rule without get_sub_objects: only its maps are exercised
        self.broken = None        # a rule of a RETURNED specification whose constructor cannot be built


def _mk_class(d):
    from example import AvoidingWithPrefix

    if "stats" in d:
        return _U().StatWords(d["prefix"], d["patterns"], list(d["alphabet"]), bool(d.get("jp")), tuple(d["stats"]))
    return AvoidingWithPrefix(d["prefix"], d["patterns"], list(d["alphabet"]), bool(d.get("jp")))


def _swap_map(alph, last=False):
    a, b = (alph[-2], alph[-1]) if last else (alph[0], alph[1])
    return {a: b, b: a}


def _image(c, mp):
    pw = lambda w: "".join(mp.get(x, x) for x in w)
    if hasattr(c, "stats"):
        return _U().StatWords(pw(c.prefix), [pw(p) for p in c.patterns], c.alphabet, c.just_prefix,
                              tuple(sorted(mp.get(x, x) for x in c.stats)))
    return type(c)(pw(c.prefix), [pw(p) for p in c.patterns], c.alphabet, c.just_prefix)


def _step(cur, name):
    """one unary rule form starting at class `cur`; returns the rule (parent cur) or None"""
    from example import AvoidingWithPrefix, ExpansionStrategy

    U, X = _U(), _X()
    stat = hasattr(cur, "stats")
    sym = U.StatSwap() if stat else X.SwapLetters()
    try:
        if name == "swap":
            return sym(cur) if len(cur.alphabet) >= 2 else None
        if name == "rswap":
            if len(cur.alphabet) < 2:
                return None
            par = _image(cur, _swap_map(cur.alphabet))
            r = sym(par)
            return r.to_reverse_rule(0) if r.children[0] == cur else None
        if stat:
            return None
        if name in ("of1", "of1min", "rof1"):
            # a ONE-FACTOR CartesianProduct rule (harness/universes/words_onefactor.py: the relabelling declared as a
            # product with a single child) - an equivalence step since fix 25e10f1 - forwards and reversed
            from harness.universes.words_onefactor import OneFactor

            if name == "of1min":
                r = OneFactor("min")(cur)
                r.children
                return r
            if len(cur.alphabet) < 2:
                return None
            if name == "of1":
                return OneFactor("swap")(cur)
            par = _image(cur, _swap_map(cur.alphabet))
            r = OneFactor("swap")(par)
            return r.to_reverse_rule(0) if r.children[0] == cur else None
        if name == "swap2":
            return U.SwapLastTwo()(cur) if len(cur.alphabet) >= 3 else None
        if name == "rswap2":
            if len(cur.alphabet) < 3:
                return None
            par = _image(cur, _swap_map(cur.alphabet, True))
            r = U.SwapLastTwo()(par)
            return r.to_reverse_rule(0) if r.children[0] == cur else None
        if name == "min":
            r = X.MinimizePatterns()(cur)
            r.children
            return r
        if name == "rmin":
            if not cur.patterns:
                return None
            extra = cur.patterns[0] + cur.alphabet[0]
            par = AvoidingWithPrefix(cur.prefix, list(cur.patterns) + [extra], cur.alphabet, cur.just_prefix)
            r = X.MinimizePatterns()(par)
            return r.to_reverse_rule(0) if r.children[0] == cur else None
        if name in ("exp_eq", "exp_eq2"):
            r = (ExpansionStrategy() if name == "exp_eq" else U.ExpansionAtomLast())(cur)
            return r.to_equivalence_rule() if r.is_equivalence() else None
        if name in ("rexp", "rexp2"):
            if not cur.just_prefix:
                return None
            par = AvoidingWithPrefix(cur.prefix, cur.patterns, cur.alphabet)
            if name == "rexp2":   # the atom child of ExpansionAtomLast is stored swapped
                par = _image(par, _swap_map(cur.alphabet))
            r = (ExpansionStrategy() if name == "rexp" else U.ExpansionAtomLast())(par)
            if not r.is_equivalence() or r.non_empty_children()[0] != cur:
                return None
            return r.to_equivalence_rule().to_reverse_rule(0)
    except Exception:  # pylint: disable=broad-except
        return None
    return None


def _build_rule(case):
    from comb_spec_searcher.strategies.rule import EquivalencePathRule
    from example import ExpansionStrategy, RemoveFrontOfPrefix

    U = _U()
    what = case["what"]
    if what == "sorted":
        return U.SortedSplit()(U.sorted_class(case["alphabet"]))
    cls = _mk_class(case["cls"])
    if cls.is_empty():
        return None   # strategies are only ever applied to non-empty classes
    if what == "expansion":
        if "stats" in case["cls"]:
            return U.StatExpansion()(cls)
        return (U.ExpansionAtomLast() if case.get("atom_last") else ExpansionStrategy())(cls)
    if what == "remove_front":
        return (U.StatRemoveFront() if "stats" in case["cls"] else RemoveFrontOfPrefix())(cls)
    if what == "split":
        return U.SplitSafe(case["maxcut"], bool(case["eps"]))(cls)
    if what == "chain":
        forms, cur = [], cls
        for name in case["steps"]:
            r = _step(cur, name)
            if r is None or r.comb_class != cur or len(r.children) != 1:
                continue
            forms.append(r)
            cur = r.children[0]
        if not forms:
            return None
        if case.get("wrap") == "single" and len(forms) == 1:
            return forms[0]
        return EquivalencePathRule(forms)
    raise ValueError(what)


def build(case):
    key = json.dumps({k: v for k, v in case.items() if k not in ("N", "M", "P", "qseed")}, sort_keys=True)
    if key in _WORLDS:
        return _WORLDS[key]
    if len(_WORLDS) > 300:
        _WORLDS.clear()
    w = _build(case)
    _WORLDS[key] = w
    return w


class _EncShim:
    """stands for the words_objs module inside _rule_desc / _form / _dict when the objects are not words"""

    def __init__(self, enc):
        self.enc = enc

    def enc_tuple(self, t):
        return [-1 if x is None else self.enc(x) for x in t]


def descriptors(w, n, enc=None):
    """[_rule_desc(w, lab, n) for every label]; `enc` replaces words_objs.enc for the objects of other universes
    (c12.py: grammar objects, interned).  Used by c08.py / c12.py to build the C07 descriptors of THEIR specification."""
    global _U  # pylint: disable=global-statement
    if enc is None:
        return [_rule_desc(w, lab, n) for lab in range(len(w.rules))]
    saved, shim = _U, _EncShim(enc)
    _U = lambda: shim  # noqa: E731
    try:
        return [_rule_desc(w, lab, n) for lab in range(len(w.rules))]
    finally:
        _U = saved


def world_of_spec(spec, order=None, w=None, mutate=True):
    """the World (rules, classes, children labels) of a specification.  Labels: breadth first from the root (label 0),
    or the positions in `order` (a list of all the classes met) when given - c08.py / c12.py pass THEIR labelling, so
    that _rule_desc builds the C07 descriptors of the same specification under the same labels (`describes` /
    `idescribes` are then decided on the two descriptor lists)."""
    w = w or World()
    w.spec = spec
    if order is None:
        todo, order = [spec.root], [spec.root]
        seen = {spec.root: 0}
        while todo:
            c = todo.pop(0)
            for ch in spec.get_rule(c).children:
                if ch not in seen:
                    seen[ch] = len(order)
                    order.append(ch)
                    todo.append(ch)
    seen = {c: i for i, c in enumerate(order)}
    for c in order:
        if mutate or c in spec.rules_dict:
            r = spec.get_rule(c)
        else:
            # get_rule would STORE an EmptyStrategy rule for an empty class without one: other plugins must not have
            # their specification changed by describing it
            from comb_spec_searcher.strategies.strategy import EmptyStrategy

            r = EmptyStrategy()(c)
        w.rules.append(r)
        w.classes.append(c)
        w.kids.append([seen[ch] for ch in r.children])
    return w


def _build(case):
    from comb_spec_searcher import CombinatorialSpecificationSearcher
    from comb_spec_searcher.exception import SpecificationNotFound, StrategyDoesNotApply
    from comb_spec_searcher.rule_db import RuleDBForest
    from comb_spec_searcher.strategies.constructor import CartesianProduct, DisjointUnion
    from comb_spec_searcher.strategies.rule import VerificationRule

    w = World()
    if case["kind"] == "spec":
        cfg = case["cfg"]
        random.seed(cfg.get("tree_seed", 0))   # the proof tree is chosen with the global PRNG
        try:
            with _ScriptedClock():
                if cfg["universe"] == "stat":
                    db = RuleDBForest(reverse=True) if cfg["ruledb"] == "forest" else None
                    s = CombinatorialSpecificationSearcher(_U().stat_start(cfg["start"]), _U().stat_pack(cfg["sym"]),
                                                           ruledb=db)
                    spec = s.auto_search()
                else:
                    spec = _X().searcher(cfg).auto_search(smallest=bool(cfg.get("smallest")))
        except (SpecificationNotFound, AssertionError):
            return None
        world_of_spec(spec, w=w)
    else:
        try:
            r = _build_rule(case)
            if r is None:
                return None
            kids = r.children
        except (StrategyDoesNotApply, AssertionError, ValueError):
            return None
        r.subobjects = tuple(ch.get_objects for ch in kids)
        r.subterms = tuple(ch.get_terms for ch in kids)
        w.rules, w.classes, w.kids = [r], [r.comb_class], [list(range(1, len(kids) + 1))]
        for ch in kids:
            w.rules.append(None)       # children answer by brute force
            w.classes.append(ch)
            w.kids.append([])
    nogen = False
    for r in w.rules:
        if r is not None and not isinstance(r, VerificationRule):
            try:
                if not isinstance(r.constructor, (DisjointUnion, CartesianProduct)):
                    nogen = True
            except NotImplementedError:
                nogen = True
            except AssertionError as e:
                nogen = True
                if case["kind"] == "spec":
                    # not a rule form outside the property (those raise NotImplementedError by design): the searcher
                    # returned a specification with a rule nothing can be counted or generated from
                    w.broken = "rule of class %s of the returned specification (%s: %s) has no constructor: %s" % (
                        r.comb_class, type(r).__name__, r.formal_step, repr(e)[:80])
    w.unsupported = nogen and case["kind"] == "spec"
    w.mapsonly = nogen and case["kind"] != "spec"
    return w


def _limits(w, case):
    big = max(len(c.alphabet) for c in w.classes) >= 3
    n = min(case["N"], 6 if big else 8)
    m = min(case["M"], n, 5 if big else 7)
    return n, m


def _objs(cls, n):
    return list(cls.objects_of_size(n))


# ------------------------------------------------------------------ descriptors for the model
def _pmaps(cons):
    from comb_spec_searcher.strategies.constructor import DisjointUnion

    out = []
    for p in cons._children_param_maps:  # functools.partial(param_map, child_pos_to_parent_pos, num_parent_params)
        c2p, num = p.args
        out.append([1 if p.func is DisjointUnion.param_map else 0, [list(x) for x in c2p], num])
    return out


def _form(r, n):
    from comb_spec_searcher.strategies.constructor import CartesianProduct
    from comb_spec_searcher.strategies.rule import EquivalencePathRule, EquivalenceRule, ReverseRule

    U = _U()
    if isinstance(r, EquivalencePathRule):
        return [3, [_form(x, n) for x in r.rules]]
    if isinstance(r, EquivalenceRule):
        return [1, r.child_idx, len(r.actual_children), _form(r.original_rule, n)]
    if isinstance(r, ReverseRule):
        one = int(len(r.original_rule.non_empty_children()) == 1)
        return [2, r.idx, len(r.original_rule.children), one, _form(r.original_rule, n)]
    # the strategy's own maps, tabulated on the objects / tuples of children's objects up to size n
    fwd, bwd = [], []
    strat, cls, kids = r.strategy, r.comb_class, r.children
    for m in range(n + 1):
        for o in _objs(cls, m):
            try:
                fwd.append([U.enc(o), U.enc_tuple(strat.forward_map(cls, o, kids))])
            except Exception:  # pylint: disable=broad-except
                pass
    if isinstance(r.constructor, CartesianProduct):
        per_kid = [[o for m in range(n + 1) for o in _objs(ch, m)] for ch in kids]
        tuples = [t for t in itertools.product(*per_kid) if sum(len(x) for x in t) <= n]
    else:
        tuples = [
            tuple(o if j == i else None for j in range(len(kids)))
            for i, ch in enumerate(kids) for m in range(n + 1) for o in _objs(ch, m)
        ]
    # plus the actual forward images (example.py's ExpansionStrategy returns len(children)+1 entries)
    seen = set(tuples)
    for m in range(n + 1):
        for o in _objs(cls, m):
            try:
                t = tuple(strat.forward_map(cls, o, kids))
            except Exception:  # pylint: disable=broad-except
                continue
            if t not in seen:
                seen.add(t)
                tuples.append(t)
    for t in tuples:
        try:
            bwd.append([U.enc_tuple(t), [U.enc(x) for x in strat.backward_map(cls, t, kids)]])
        except Exception:  # pylint: disable=broad-except
            pass
    return [0, fwd, bwd]


def _dict(d):
    U = _U()
    return [[list(p), [U.enc(o) for o in l]] for p, l in d.items()]


def _one_object_leaf(r, cls):
    """(m, o, params) when r is a verification rule - not AtomStrategy, not EmptyStrategy - of a class that declares
    itself an atom (is_atom(): exactly one object) and whose strategy lists exactly that one object at the class's
    minimum size: the leaf `[3, m, o, params]` of the descriptors (StatAtom of the statistics universes: an atom WITH
    parameters, which the library's AtomStrategy refuses).  The size m and the key params are the STRATEGY's own
    (get_objects); the oracle compares them with len(o) and cls.get_parameters(o).  None otherwise (table [2, ..])."""
    from comb_spec_searcher.strategies.rule import VerificationRule
    from comb_spec_searcher.strategies.strategy import AtomStrategy, EmptyStrategy

    if not isinstance(r, VerificationRule) or isinstance(r.strategy, (AtomStrategy, EmptyStrategy)):
        return None
    try:
        if not cls.is_atom():
            return None
        m = cls.minimum_size_of_object()
        items = [(p, l) for p, l in r.strategy.get_objects(cls, m).items() if l]
    except Exception:  # pylint: disable=broad-except
        return None
    if len(items) != 1 or len(items[0][1]) != 1:
        return None
    return m, items[0][1][0], [int(x) for x in items[0][0]]


def _rule_desc(w, lab, n):
    from comb_spec_searcher.strategies.constructor import CartesianProduct
    from comb_spec_searcher.strategies.rule import VerificationRule
    from comb_spec_searcher.strategies.strategy import AtomStrategy, EmptyStrategy

    r, cls = w.rules[lab], w.classes[lab]
    if r is None:
        return [2, [_dict(cls.get_objects(m)) for m in range(n + 1)]]
    if isinstance(r, VerificationRule):
        if isinstance(r.strategy, AtomStrategy):
            m = cls.minimum_size_of_object()
            return [3, m, _U().enc(next(cls.objects_of_size(m)))]
        if isinstance(r.strategy, EmptyStrategy):
            return [4]
        leaf = _one_object_leaf(r, cls)
        if leaf is not None:
            return [3, leaf[0], _U().enc(leaf[1]), leaf[2]]
        return [2, [_dict(r.strategy.get_objects(cls, m)) for m in range(n + 1)]]
    if w.mapsonly:
        return [0, w.kids[lab], [], _form(r, n)]
    cons = r.constructor
    if isinstance(cons, CartesianProduct):
        return [1, w.kids[lab], list(cons.min_sizes), [-1 if x is None else x for x in cons.max_sizes],
                _pmaps(cons), _form(r, n)]
    return [0, w.kids[lab], _pmaps(cons), _form(r, n)]


def _queries(w, case):
    from comb_spec_searcher.strategies.rule import VerificationRule

    U = _U()
    n, m = _limits(w, case)
    rnd = random.Random(case["qseed"])
    qs = []
    if not w.mapsonly:
        qs = [[0, 0, x] for x in range(n + 1)]
        qs += [[0, 0, rnd.randint(0, n)] for _ in range(2)]
    for lab in range(1, len(w.rules)):
        qs.append([0, lab, rnd.randint(0, n)])
    for lab, r in enumerate(w.rules):
        if r is None or isinstance(r, VerificationRule):
            continue
        for x in range(min(n, case["P"]) + 1):
            if not w.mapsonly:
                qs.append([1, lab, x])
                qs.append([3, lab, x])
        objs = [o for x in range(m + 1) for o in _objs(w.classes[lab], x)]
        if len(objs) > 120:
            objs = rnd.sample(objs, 120)
        qs += [[2, lab, U.enc(o)] for o in objs]
    rnd.shuffle(qs)
    if not w.mapsonly:
        # get_terms(n) through the TERMS caches (kind 4), of every rule incl. verification rules and the
        # brute-force children, sizes in a random (non-monotone) order; drawn from a separate generator and
        # inserted afterwards, so that the relative order of the other queries does not depend on them
        rnd4 = random.Random(case["qseed"] ^ 0x5A5A5)
        q4 = [[4, lab, rnd4.randint(0, n)] for lab in range(len(w.rules)) for _ in range(2)]
        q4 += [[4, 0, x] for x in range(min(n, case["P"]) + 1)]
        for q in q4:
            qs.insert(rnd4.randint(0, len(qs)), q)
    if w.spec is not None and not w.mapsonly:
        # objects <-> parse trees (kinds 5, 6): parse / unparse(parse) of objects of the root (every object up to
        # the size bound, sampled above 60) and of a few objects of every other class with a non-verification
        # rule; own generator, appended last: the other queries keep their order
        rnd5 = random.Random(case["qseed"] ^ 0x0C07)
        for lab, r in enumerate(w.rules):
            if r is None or (lab and isinstance(r, VerificationRule)):
                continue
            objs = [o for x in range((n if lab == 0 else m) + 1) for o in _objs(w.classes[lab], x)]
            cap = 60 if lab == 0 else 6
            if len(objs) > cap:
                objs = rnd5.sample(objs, cap)
            for o in objs:
                qs.append([5, lab, U.enc(o)])
                qs.append([6, lab, U.enc(o)])
                qs.append([7, lab, U.enc(o)])
    return qs


def encode(case):
    w = build(case)
    if w is None or w.unsupported:
        return [[], []]
    n, _ = _limits(w, case)
    return [[_rule_desc(w, lab, n) for lab in range(len(w.rules))], _queries(w, case)]


# ------------------------------------------------------------------ implementation
def _canon_dict(d):
    U = _U()
    return sorted([list(p), sorted(U.enc(o) for o in l)] for p, l in d.items() if l)


def _fresh(w):
    """forget every cached level, so that each run exercises the cache loop"""
    for r in w.rules:
        if r is not None:
            r.objects_cache = []
            r.terms_cache.data = []


# ------------------------------------------------------------------ decidable hypotheses of the theorems
def _shape(w, lab):
    """kind, children labels, minimum and maximum sizes of one rule: the part of _rule_desc the deciders read (same
    branches, same attributes of the same world; the forms are not tabulated)"""
    from comb_spec_searcher.strategies.constructor import CartesianProduct
    from comb_spec_searcher.strategies.rule import VerificationRule

    from comb_spec_searcher.strategies.strategy import AtomStrategy, EmptyStrategy

    r = w.rules[lab]
    if r is None:
        return [2]
    if isinstance(r, VerificationRule):
        if isinstance(r.strategy, AtomStrategy) or _one_object_leaf(r, w.classes[lab]) is not None:
            return [3]
        return [4] if isinstance(r.strategy, EmptyStrategy) else [2]
    if w.mapsonly:
        return [0, w.kids[lab]]
    cons = r.constructor
    if isinstance(cons, CartesianProduct):
        return [1, w.kids[lab], list(cons.min_sizes), [-1 if x is None else x for x in cons.max_sizes]]
    return [0, w.kids[lab]]


def rank_verdict(shapes):
    """[rank_ok, closed_ok, depth, leaves_ok] - an independent computation of what Count/ParseTreesDeciders.v rankb / closedb
    decide (Count/ParseTreesRun.v rank_verdict prints): the same-size class graph (children of a union; children of
    a product whose siblings' minimum sizes add up to 0) is acyclic and every product has as many minima / maxima as
    children, minima >= 0; every child label is a listed class; depth = the longest path in that graph (a child
    outside the list counts as a sink), 0 without certificate.  Here by depth-first search, in Coq by L+1 rounds of
    relaxation followed by a check: the core compares the two verdicts on every case."""
    L = len(shapes)
    succ, shape_ok, closed = [], True, True
    for d in shapes:
        if d[0] == 0:
            ks = list(d[1])
        elif d[0] == 1:
            kids, mins, maxs = d[1], d[2], d[3]
            if len(mins) != len(kids) or len(maxs) != len(kids) or any(m < 0 for m in mins):
                shape_ok = False
            ks = [k for k, mn in zip(kids, mins) if sum(mins) - mn < 1]
        else:
            ks = []
        if d[0] in (0, 1) and any(k >= L for k in d[1]):
            closed = False
        succ.append(ks)
    state, depth = [0] * L, [0] * L

    def visit(c):   # returns False on a cycle
        if state[c] == 1:
            return False
        if state[c] == 2:
            return True
        state[c] = 1
        best = -1
        for k in succ[c]:
            if k < L:
                if not visit(k):
                    return False
                best = max(best, depth[k])
            else:
                best = max(best, 0)
        depth[c] = best + 1
        state[c] = 2
        return True

    acyclic = all(visit(c) for c in range(L))
    ok = shape_ok and acyclic
    # 4th field (Count/ParseTreesStats.v leavesb): no verification rule is given by a table (shape [2]) - every
    # verified class is one object (shape [3]) or empty (shape [4]); callers that only know "a leaf" pass [2] and read
    # the first two fields
    leaves = all(d[0] != 2 for d in shapes)
    return [int(ok), int(closed), max(depth, default=0) if ok else 0, int(leaves)]


def _verdict(w):
    if w is None or w.unsupported:
        return rank_verdict([])     # encode sends no descriptors
    return rank_verdict([_shape(w, lab) for lab in range(len(w.rules))])


def impl(case):
    res = _impl(case)
    if case["kind"] == "spec":
        res["universe"] = case["cfg"]["universe"]
    # the appended field of run_c07d, recomputed here from the same world: compared by the core on every case
    res["verdict"] = _verdict(build(case))
    res["out"] = list(res["out"]) + [res["verdict"]]
    return res


def _impl(case):
    U = _U()
    w = build(case)
    if w is None:
        return {"out": [], "skip": "no specification / rule does not apply"}
    if w.broken:
        return {"out": [], "broken": w.broken}
    if w.unsupported:
        return {"out": [], "skip": "a rule without get_sub_objects (Complement/Quotient)"}
    _fresh(w)
    out, extra = [], {"gen": {}, "count": {}, "pt": [0, 0]}
    for q in _queries(w, case):
        kind, lab, x = q
        r, cls = w.rules[lab], w.classes[lab]
        try:
            if kind == 0:
                if r is None:
                    out.append(_canon_dict(cls.get_objects(x)))
                elif lab == 0 and w.spec is not None:
                    keys = set(w.spec.get_objects(x).keys()) | {tuple(cls.get_parameters(o)) for o in _objs(cls, x)}
                    ans = []
                    for p in sorted(keys):
                        kw = dict(zip(cls.extra_parameters, p))
                        l = [U.enc(o) for o in w.spec.generate_objects_of_size(x, **kw)]
                        extra["gen"]["%d|%s" % (x, list(p))] = l
                        extra["count"]["%d|%s" % (x, list(p))] = w.spec.count_objects_of_size(x, **kw)
                        if l:
                            ans.append([list(p), sorted(l)])
                    out.append(ans)
                else:
                    d = r.get_objects(x)
                    for p, l in d.items():
                        kw = dict(zip(cls.extra_parameters, p))
                        g = [U.enc(o) for o in r.generate_objects_of_size(x, **kw)]
                        if sorted(g) != sorted(U.enc(o) for o in l):
                            extra.setdefault("bad", []).append("generate_objects_of_size differs from get_objects")
                    out.append(_canon_dict(d))
            elif kind == 3:
                out.append(sorted([list(p), v] for p, v in r.get_terms(x).items() if v))
            elif kind == 4:
                t = cls.get_terms(x) if r is None else r.get_terms(x)
                out.append(sorted([list(p), v] for p, v in t.items() if v))
            elif kind in (5, 6, 7):
                t, ok = _real_tree(w, lab, U.dec(x))
                if kind == 7:
                    extra["pt"][0] += 1
                    extra["pt"][1] += int(ok)
                if not ok:
                    out.append([-1])      # a leaf that is not a one-object class: no parse tree in the model
                elif kind == 5:
                    out.append(t)
                elif kind == 7:
                    # the size and the parameter tuple under which the REAL rule files this object
                    # (Rule.get_objects through _ensure_level_objects: the key computed by the constructor's
                    # parameter maps from the children's keys); [-2]: not generated at its own size
                    o = U.dec(x)
                    d = cls.get_objects(len(o)) if r is None else r.get_objects(len(o))
                    keys = [list(p) for p, l in d.items() if any(U.enc(y) == x for y in l)]
                    out.append([len(o), keys[0]] if len(keys) == 1 else [-2, keys])
                else:
                    back = _real_unparse(w, t)
                    out.append([-1] if back is None else [U.enc(back)])
            elif kind == 1:
                ps = []
                for param, subobjects in r.constructor.get_sub_objects(r.subobjects, x):
                    for t in itertools.product(*subobjects):
                        ps.append([list(param), U.enc_tuple(t)])
                out.append(sorted(ps))
            else:
                o = U.dec(x)
                try:
                    t = r.forward_map(o)
                except (AssertionError, NotImplementedError, StopIteration, IndexError, TypeError):
                    out.append([-1, -1])
                    continue
                try:
                    back = [U.enc(y) for y in r.backward_map(t)]
                except (AssertionError, NotImplementedError, IndexError, TypeError):
                    back = -1
                out.append([U.enc_tuple(t), back])
        except RecursionError:
            out.append([-9])
    return dict(extra, out=out)


# ------------------------------------------------------------------ parse trees of real objects
def _is_atom_rule(r, cls=None):
    """a leaf of parse trees: AtomStrategy, or any verification rule of a one-object class (_one_object_leaf)"""
    from comb_spec_searcher.strategies.rule import VerificationRule
    from comb_spec_searcher.strategies.strategy import AtomStrategy

    if isinstance(r, VerificationRule) and isinstance(r.strategy, AtomStrategy):
        return True
    return cls is not None and _one_object_leaf(r, cls) is not None


def _real_tree(w, lab, obj):
    """the parse tree of a real object through Rule.forward_map, in the format of harness/props/c12.py Desc.tree:
    [0, label] for a childless rule, [1, label, [[] | [tree] per child]]; second component: every leaf is an atom"""
    r = w.rules[lab]
    if r is None or not r.children:
        return [0, lab], (r is not None and _is_atom_rule(r, w.classes[lab]))
    parts = r.forward_map(obj)
    kids, ok = [], True
    for klab, p in zip(w.kids[lab], parts):
        if p is None:
            kids.append([])
        else:
            t, o = _real_tree(w, klab, p)
            ok = ok and o
            kids.append([t])
    return [1, lab, kids], ok


def _real_unparse(w, t):
    """backward maps composed bottom-up (what Rule.random_sample_object_of_size and ParseTreeMap.map_rec do);
    None when some backward map does not yield exactly one object"""
    lab = t[1]
    cls, r = w.classes[lab], w.rules[lab]
    if t[0] == 0:
        return next(cls.objects_of_size(cls.minimum_size_of_object()))
    parts = []
    for k in t[2]:
        if not k:
            parts.append(None)
        else:
            y = _real_unparse(w, k[0])
            if y is None:
                return None
            parts.append(y)
    objs = list(r.backward_map(tuple(parts)))
    return objs[0] if len(objs) == 1 else None


def _leaf_sizes(w, t):
    if t[0] == 0:
        return w.classes[t[1]].minimum_size_of_object()
    return sum(_leaf_sizes(w, k[0]) for k in t[2] if k)


# ------------------------------------------------------------------ oracle (brute force over words)
def _trim(t, k):
    """example.py's ExpansionStrategy.forward_map returns one trailing None too many; harmless for the
    property (the round trip and the parts are what matters), so trailing Nones beyond the children are dropped"""
    t = list(t)
    while len(t) > k and t[-1] == -1:
        t.pop()
    return t


def _tree_shape(w, t):
    from comb_spec_searcher.strategies.constructor import CartesianProduct

    if t[0] == 0:
        return None
    r = w.rules[t[1]]
    if len(t[2]) != len(w.kids[t[1]]):
        return "node of rule %d has %d parts for %d children" % (t[1], len(t[2]), len(w.kids[t[1]]))
    some = sum(1 for k in t[2] if k)
    if isinstance(r.constructor, CartesianProduct):
        if some != len(t[2]):
            return "product node of rule %d misses a part" % t[1]
    elif some != 1:
        return "union node of rule %d has %d parts" % (t[1], some)
    for klab, k in zip(w.kids[t[1]], t[2]):
        if k:
            if k[0][1] != klab:
                return "part labelled %d under child %d" % (k[0][1], klab)
            bad = _tree_shape(w, k[0])
            if bad:
                return bad
    return None


def oracle(case, res):
    from comb_spec_searcher.strategies.constructor import CartesianProduct
    from comb_spec_searcher.strategies.rule import VerificationRule

    U = _U()
    if "exception" in res:
        return "implementation raised " + res["exception"]
    if res.get("broken"):
        return res["broken"]
    if res.get("skip"):
        return None
    if res.get("bad"):
        return res["bad"][0]
    w = build(case)
    root = w.classes[0]
    # specification level: generated lists vs brute force, count == len
    for k, l in res["gen"].items():
        n, p = k.split("|")
        n, p = int(n), tuple(json.loads(p))
        truth = U.brute(root, n).get(p, [])
        if sorted(l) != truth:
            return "generate_objects_of_size(%d, %r) of the root = %r, brute force %r" % (n, p, sorted(l), truth)
        if any(len(U.dec(x)) != n for x in l):
            return "generated object of the wrong size for n=%d" % n
        if res["count"][k] != len(l):
            return "count_objects_of_size(%d, %r) = %d but %d objects generated" % (n, p, res["count"][k], len(l))
    for q, a in zip(_queries(w, case), res["out"]):
        kind, lab, x = q
        r, cls = w.rules[lab], w.classes[lab]
        if kind == 0:
            truth = sorted([list(p), l] for p, l in U.brute(cls, x).items())
            if a != truth:
                return "get_objects(%d) of class %d (%s) = %r, brute force %r" % (x, lab, cls, a, truth)
        elif kind in (3, 4):
            truth = sorted([list(p), len(l)] for p, l in U.brute(cls, x).items())
            if a != truth:
                return "get_terms(%d) of rule %d = %r, numbers of objects %r" % (x, lab, a, truth)
        elif kind == 5:
            # the parse tree of an object has the object's size (sum of the atoms at its leaves), its nodes carry
            # the children the rule has, and a union node has exactly one part
            if a != [-1]:
                o = U.dec(x)
                if _leaf_sizes(w, a) != len(o):
                    return "parse tree of %r in class %d has size %d" % (str(o), lab, _leaf_sizes(w, a))
                bad = _tree_shape(w, a)
                if bad:
                    return "parse tree of %r in class %d: %s" % (str(o), lab, bad)
        elif kind == 6:
            # unparse(parse o) = o (unless a leaf is not an atom: outside the parse-tree model)
            if a != [x] and not (a == [-1] and not _real_tree(w, lab, U.dec(x))[1]):
                return "unparse(parse(%r)) in class %d = %r" % (str(U.dec(x)), lab, a)
        elif kind == 7:
            # C07_parse_stats: size and parameter tuple computed on the parse tree (leaf data + the rules' parameter
            # maps along the tree; on the implementation side the key under which the rule files the object) are the
            # object's own size and cls.get_parameters(o) - the class's own code, independent of the library
            o = U.dec(x)
            if a == [-1]:
                if _real_tree(w, lab, o)[1]:
                    return "no size/parameters for the parse tree of %r in class %d" % (str(o), lab)
            else:
                truth = [len(o), [int(v) for v in cls.get_parameters(o)]]
                if a != truth:
                    return "parse tree of %r in class %d (%s) has size/parameters %r, the object has %r" % (
                        str(o), lab, cls, a, truth)
        elif kind == 1:
            # the pairs must be the splits of the parent's objects of size x
            truth = []
            for o in _objs(cls, x):
                truth.append([list(cls.get_parameters(o)), _trim(U.enc_tuple(r.forward_map(o)), len(r.children))])
            if a != sorted(truth):
                return "sub-object tuples of rule %d at size %d = %r, splits of the parent's objects %r" % (
                    lab, x, a, sorted(truth))
        else:
            o = U.dec(x)
            if a[0] == -1 or a[1] == -1:
                return "forward/backward map raised on object %r of rule %d" % (str(o), lab)
            if a[1] != [x]:
                return "rule %d (%s): backward(forward(%r)) = %r" % (lab, type(r).__name__, str(o), [str(U.dec(y)) for y in a[1]])
            kids = r.children
            a = [_trim(a[0], len(kids)), a[1]]
            if len(a[0]) != len(kids):
                return "forward_map of rule %d returns %d parts for %d children" % (lab, len(a[0]), len(kids))
            parts = [None if y == -1 else U.dec(y) for y in a[0]]
            for part, ch in zip(parts, kids):
                if part is not None and not U.member(ch, part):
                    return "rule %d: part %r of %r is not in the child %s" % (lab, str(part), str(o), ch)
            some = sum(1 for y in parts if y is not None)
            if w.mapsonly:
                if some != 1:
                    return "rule %d: %d parts are not None" % (lab, some)
            elif isinstance(r.constructor, CartesianProduct):
                if some != len(kids):
                    return "product rule %d: a part is None" % lab
                if sum(len(y) for y in parts) != len(o):
                    return "product rule %d: sizes of the parts do not add up" % lab
            elif some != 1:
                return "union rule %d: %d parts are not None" % (lab, some)
    # the decidable hypotheses of the end-to-end theorems must hold on every REAL specification whose generation
    # terminated (a returned specification is productive and closed): a failing verdict there is a failure
    v = res.get("verdict")
    if case["kind"] == "spec" and v is not None and [-9] not in res["out"] and not (v[0] and v[1]):
        return "specification whose generation terminated, but no %s (verdict %r)" % (
            "rank certificate found by rankb" if not v[0] else "closedness", v)
    # leaf data of the descriptors [3, m, o, params] (hypothesis leaf_data of C07_parse_stats / C07_leaf_data_run):
    # the size and the key the verification STRATEGY files its one object under are the object's own
    for lab, r in enumerate(w.rules):
        leaf = _one_object_leaf(r, w.classes[lab]) if r is not None else None
        if leaf is not None:
            m, o, p = leaf
            if m != len(o) or p != [int(v) for v in w.classes[lab].get_parameters(o)] or not U.member(w.classes[lab], o):
                return "verification rule of class %d (%s) files its object %r under size %d, parameters %r" % (
                    lab, w.classes[lab], str(o), m, p)
    # contract evidence for the theorems' hypotheses (bounds_ok)
    n, _ = _limits(w, case)
    for lab, r in enumerate(w.rules):
        if r is None or w.mapsonly or isinstance(r, VerificationRule) or not isinstance(r.constructor, CartesianProduct):
            continue
        for ch, lo, hi in zip(r.children, r.constructor.min_sizes, r.constructor.max_sizes):
            for m in range(n + 1):
                if _objs(ch, m) and (m < lo or (hi is not None and m > hi)):
                    return "min/max sizes of rule %d are not bounds of child %s" % (lab, ch)
    return None


# ------------------------------------------------------------------ generator
_PREFIXES = ["", "a", "b", "ab", "ba", "aab", "abab", "bba", "abc", "cab", "acb", "bca"]
_PATS2 = [[], ["ab"], ["aa"], ["aa", "bb"], ["aba"], ["abb", "ba"], ["b"], ["ab", "aab"], ["bab", "aa"]]
_PATS3 = [[], ["abc"], ["aa"], ["abc", "ca"], ["cb", "ac"], ["b"], ["ab", "bc", "ca"]]


def _rand_cls(rng, stats=False, alph=None):
    alph = alph or ("ab" if rng.random() < 0.7 else "abc")
    pats = list(rng.choice(_PATS2 if alph == "ab" else _PATS3))
    prefix = rng.choice([p for p in _PREFIXES if all(x in alph for x in p)])
    d = {"prefix": prefix, "patterns": pats, "alphabet": alph}
    if stats:
        d["stats"] = sorted(rng.sample(alph, rng.randint(1, 2)))
    return d


_STEPS = ["swap", "rswap", "swap2", "rswap2", "min", "rmin", "exp_eq", "rexp", "exp_eq2", "rexp2",
          "of1", "rof1", "of1min"]


def _gen_rule(rng):
    r = rng.random()
    base = {"kind": "rule", "N": rng.randint(2, 8), "M": rng.randint(3, 7), "P": rng.randint(3, 8),
            "qseed": rng.randrange(1 << 30)}
    if r < 0.12:
        return dict(base, what="sorted", alphabet=rng.choice(["ab", "abc", "abc"]))
    if r < 0.27:
        d = _rand_cls(rng, stats=rng.random() < 0.5)
        return dict(base, what="expansion", cls=d, atom_last=int(rng.random() < 0.3))
    if r < 0.42:
        d = _rand_cls(rng, stats=rng.random() < 0.5)
        d["prefix"] = d["prefix"] or rng.choice(["ab", "ba", "aab"])
        return dict(base, what="remove_front", cls=d)
    if r < 0.57:
        d = _rand_cls(rng)
        d["prefix"] = rng.choice([p for p in _PREFIXES if len(p) >= 2 and all(x in d["alphabet"] for x in p)])
        if rng.random() < 0.5:
            d["patterns"] = []
        return dict(base, what="split", cls=d, maxcut=rng.randint(1, 4), eps=int(rng.random() < 0.4))
    # chains of unary forms -> EquivalencePathRule (or the single form itself)
    stats = rng.random() < 0.25
    d = _rand_cls(rng, stats=stats, alph="abc" if (not stats and rng.random() < 0.6) else None)
    x = rng.random()
    if x < 0.25:
        # a class whose expansion is an equivalence: every one-letter extension is forbidden
        d["patterns"] = [d["prefix"] + y for y in d["alphabet"]]
        d.pop("stats", None)
    steps = [rng.choice(_STEPS) for _ in range(rng.randint(1, 6))]
    if x >= 0.25 and d["alphabet"] == "abc" and rng.random() < 0.5:
        # two symmetries that do not commute, and their reverses: the order of composition matters
        steps = [rng.choice(["swap", "swap2", "rswap", "rswap2"]) for _ in range(rng.randint(2, 5))]
    if x < 0.25:
        # to the atom and back through the reverse of an equivalence, then on
        steps = [rng.choice(["exp_eq", "exp_eq2"]), rng.choice(["rexp", "rexp2"])] + steps[: rng.randint(0, 3)]
        if rng.random() < 0.3:
            steps = steps[:1]
    return dict(base, what="chain", cls=d, steps=steps, wrap=rng.choice(["path", "path", "single"]))


def _gen_spec(rng):
    X, U = _X(), _U()
    base = {"kind": "spec", "N": rng.randint(2, 8), "M": rng.randint(2, 6), "P": rng.randint(2, 6),
            "qseed": rng.randrange(1 << 30)}
    if rng.random() < 0.3:
        cfg = {"universe": "stat", "start": rng.randrange(len(U.STAT_STARTS)), "sym": int(rng.random() < 0.5),
               "ruledb": rng.choice(["base", "forest"]), "tree_seed": rng.randrange(1 << 30)}
    else:
        from harness.universes import words_onefactor

        cfg = words_onefactor.maybe_onefactor(rng, X.random_cfg(rng))   # 13%: packs with one-factor products
        cfg["universe"] = "ext"
    return dict(base, cfg=cfg)


def gen(rng, tier):
    while True:
        if rng.random() < 0.6:
            yield _gen_spec(rng)
            continue
        for _ in range(12):   # prefer rules that apply (cheap to test: no search involved)
            case = _gen_rule(rng)
            try:
                if _build_rule(case) is not None:
                    break
            except Exception:  # pylint: disable=broad-except
                pass
        yield case


# ------------------------------------------------------------------ bookkeeping
def nontrivial(case, res):
    from comb_spec_searcher.strategies.constructor import CartesianProduct
    from comb_spec_searcher.strategies.rule import EquivalencePathRule, VerificationRule

    if res.get("skip") or res.get("broken") or "out" not in res:
        return False
    w = build(case)
    n, _ = _limits(w, case)
    if max(len(_objs(w.classes[0], m)) for m in range(n + 1)) < 4:
        return False
    for r, c in zip(w.rules, w.classes):
        if c.extra_parameters:
            return True
        if r is None or isinstance(r, VerificationRule) or w.mapsonly:
            continue
        if isinstance(r, EquivalencePathRule) and len(r.rules) >= 2:
            return True
        if isinstance(r.constructor, CartesianProduct):
            return True
    return False


def key(case):
    c = {k: v for k, v in case.items() if k not in ("qseed", "M", "P")}
    if "cfg" in c:
        c["cfg"] = {k: v for k, v in c["cfg"].items() if k != "tree_seed"}
    return json.dumps(c, sort_keys=True)


MIN_STAT_TREES = 0.95   # stat universe: cases whose every leaf is a one-object class AND queries 5/6/7 answered; measured 1.00
_DECIDED = "C07_generate_exact_decided"   # = C07_generate_exact with rank certificate and closed decided by the run
MIN_COVERED = 0.98                        # measured 1.00 (every non-skipped case) on seeds 0, 1, 2, quick tier


def _coverage_tags(res):
    """which decidable hypotheses of the end-to-end theorems hold on this case (the verdict the extracted run prints,
    equal to the harness's own or the case is a mismatch)"""
    v = res.get("verdict")
    if v is None:
        return []
    missing = [h for h, b in (("rank certificate", v[0]), ("closed", v[1])) if not b]
    if missing:
        return ["thm:%s:not_covered(%s)" % (_DECIDED, " + ".join(missing))]
    return ["thm:%s:covered" % _DECIDED, "rank depth %s" % ("0-2" if v[2] <= 2 else "3-5" if v[2] <= 5 else ">=6")]


def extra_checks(ctx):
    """how many of the compared cases satisfy the decidable hypotheses (rank certificate, closed) of
    C07_generate_exact / _perm / C07_count_* / C07_objects_are_parse_trees; fails when the generator drifts away"""
    n = k = 0
    for res, _why, _nt in ctx.impl_res:
        v = res.get("verdict")
        if v is None or res.get("skip") or "exception" in res:
            continue
        n += 1
        k += bool(v[0] and v[1])
    frac = k / n if n else 1.0
    # parse trees (C07_objects_are_parse_trees / C07_parse_stats): decidable hypotheses = rank + closed + leaves
    # (no verification rule given by a table), per universe of the spec stream; and the parse-tree queries answered
    pt = {}
    for res, _why, _nt in ctx.impl_res:
        v, u = res.get("verdict"), res.get("universe")
        if v is None or u is None or res.get("skip") or "exception" in res or res.get("broken"):
            continue
        e = pt.setdefault(u, [0, 0, 0, 0])
        e[0] += 1
        e[1] += bool(v[0] and v[1] and len(v) > 3 and v[3])
        e[2] += res.get("pt", [0, 0])[0]
        e[3] += res.get("pt", [0, 0])[1]
    st = pt.get("stat", [0, 0, 0, 0])
    ex = pt.get("ext", [0, 0, 0, 0])
    stat_ok = st[0] == 0 or (st[1] / st[0] >= MIN_STAT_TREES and st[2] > 0 and st[3] / st[2] >= MIN_STAT_TREES)
    return [
        ("covered_by_theorem C07_objects_are_parse_trees/C07_parse_stats (specifications WITH parameters, stat universe): "
         "%d of %d cases, %d of %d parse-tree queries answered; ext universe: %d of %d cases, %d of %d queries" % (
             st[1], st[0], st[3], st[2], ex[1], ex[0], ex[3], ex[2]), stat_ok,
         "spec-stream cases on which the run and the harness decide rank + closed + leaves_ok (every verification rule "
         "is a one-object class [3, m, o, params] or empty: the decidable part of node_ok, C07_leaves_decided) and "
         "queries of kind 7 (size and parameter tuple of parse o, C07_parse_stats) that have a tree on both sides; "
         "before the descriptor [3, m, o, params] the stat figures were 0 of n (every stat leaf a table, every query "
         "[-1]); minimum fraction %.2f for both stat figures; ext cases without coverage are those with a verification "
         "rule of several objects" % MIN_STAT_TREES),
        ("covered_by_theorem %s: %d of %d" % (_DECIDED, k, n), n == 0 or frac >= MIN_COVERED,
         "cases of the retained batch (skipped ones excluded) on which the extracted run AND the harness decide that a "
         "rank certificate exists for all sizes (rankb, C07_rank_decided) and that the specification is closed "
         "(closedb, C07_closed_decided); the bijection contracts are not decidable from the descriptors and remain "
         "hypotheses (evidence: the kind-2 round trips and the oracle); minimum fraction %.2f" % MIN_COVERED),
    ]


def classify(case, res):
    from comb_spec_searcher.strategies.rule import EquivalencePathRule, EquivalenceRule, ReverseRule

    tags = [case["kind"]]
    if res.get("skip"):
        return tags + ["skipped: " + res["skip"]]
    if "out" not in res or "exception" in res:
        return tags + ["exception"]
    if res.get("broken"):
        return tags + ["returned specification has a rule without constructor"]
    w = build(case)
    tags += _coverage_tags(res)
    if case["kind"] == "spec":
        tags.append("universe=" + case["cfg"]["universe"])
        tags.append("ruledb=" + str(case["cfg"]["ruledb"]))
    else:
        tags.append("what=" + case["what"])
    if any(c.extra_parameters for c in w.classes):
        tags.append("with parameters")
    for r in w.rules:
        if isinstance(r, EquivalencePathRule):
            tags.append("path len %d" % min(len(r.rules), 3))
            for x in r.rules:
                if isinstance(x, ReverseRule):
                    tags.append("path has ReverseRule")
                if isinstance(x, EquivalenceRule):
                    tags.append("path has EquivalenceRule(%s)" % type(x.original_rule).__name__)
        elif isinstance(r, (EquivalenceRule, ReverseRule)):
            tags.append("bare " + type(r).__name__)
    if case["kind"] == "rule" and case.get("what") == "chain" and any(x in case["steps"] for x in ("of1", "rof1", "of1min")):
        tags.append("rule stream: chain with a one-factor-product step")
    if res.get("pt") and res["pt"][0]:
        tags.append("parse-tree queries: %s" % ("all answered" if res["pt"][0] == res["pt"][1] else "some without tree"))
    if w.spec is not None:
        # product rules with a single factor (fix 25e10f1) as steps of equivalence paths, forwards / in reverse
        from harness.universes import words_onefactor

        cen = words_onefactor.onefactor_census(w.spec)
        for k, name in (("path_fwd", "one-factor-product in a path"), ("path_rev", "one-factor-product-reverse in a path"),
                        ("lone_fwd", "one-factor-product lone"), ("lone_rev", "one-factor-product-reverse lone")):
            if cen[k]:
                tags.append(name)
    return sorted(set(tags))


def shrink(case):
    for f in ("N", "M", "P"):
        if case[f] > 0:
            yield dict(case, **{f: case[f] - 1})
        if case[f] > 2:
            yield dict(case, **{f: 2})
    if case["kind"] == "rule" and case.get("what") == "chain":
        st = case["steps"]
        for i in range(len(st)):
            yield dict(case, steps=st[:i] + st[i + 1:])
    if case["kind"] == "spec":
        cfg = case["cfg"]
        if cfg.get("expand_verified"):
            yield dict(case, cfg=dict(cfg, expand_verified=False))
        if cfg.get("smallest"):
            yield dict(case, cfg=dict(cfg, smallest=False))
        if cfg["universe"] == "ext" and cfg["pack"] != "base":
            yield dict(case, cfg=dict(cfg, pack="base"))
        if cfg.get("ruledb") not in ("base",):
            yield dict(case, cfg=dict(cfg, ruledb="base"))
