"""C14 — default and memory-saving rule databases are observationally identical."""
import copy
import json
import os
import random
import re

ID = "C14"
TITLE = "RuleDB and RuleDBForgetStrategy: same answers after every insertion; the strategy handed back reproduces the rule"
COQ_PROPS = "Props/C14.v"
COQ_RUN = ("RuleDB.Run", "run_c14")
GEN_TARGETS = []
N = {"quick": 4000, "thorough": 20000}
CASE_CPU_SECONDS = 300

ERRCODE = {"KeyError": 1, "IndexError": 2, "TypeError": 3, "ValueError": 4, "StrategyDoesNotApply": 8}
MAX_WORD_PACKETS = 30
MAX_WORD_ADDS = 70
MAX_TABLE_ADDS = 160
KNOWN_FOREIGN = "forget-foreign-parent-outside-key"
# The finding forget-foreign-parent-outside-key is FIXED in /repo by 59cdf67 (RecomputingDict.__getitem__ replays the pack
# on the classes of the key first and on every other label afterwards): the model follows that code, FALLBACK_ALL_LABELS =
# True.  For a tree WITHOUT the fix (replay on the classes of the key only) run with VERIF_C14_FALLBACK=0 and list the
# finding as `open` again; only then does the mask below ever fire.
FALLBACK_ALL_LABELS = os.environ.get("VERIF_C14_FALLBACK", "1") == "1"


# minimum share of the table-universe searches on which the extracted decider must say that the hypotheses of
# C14_search_stored_rules_handed_back hold (set from the measured value, see extra_checks)
MIN_COVERED = 0.7
# the measured value quoted in the strings below (quick tier, seeds 0-2)
F14 = "about 81%"
F14W = "55-59%"
MIN_COVERED_WORDS = 0.4


# ----------------------------------------------------------------- generator
def gen(rng, tier):
    from harness.props import c04
    from harness.universes import words_c14 as WC

    packs = WC.pack_names()
    while True:
        x = rng.random()
        stride = 1 if (tier == "thorough" or rng.random() < 0.35) else rng.choice([2, 3, 5])
        if x < 0.7:
            u = c04.gen_universe(rng)
            if rng.random() < 0.12:
                u["pack"]["iterative"] = 1
            if rng.random() < 0.3:
                _foreign_via_child(u, rng)
            yield {"kind": "table", "u": u, "ev": rng.randint(0, 1), "comp": 1 if rng.random() < 0.3 else 0,
                   "drv": 0 if rng.random() < 0.75 else 1, "stride": stride,
                   "live": rng.choice([0, 0, 1, 3]), "qseed": rng.randrange(1 << 30),
                   "shuffle": rng.randrange(1, 1 << 30) if rng.random() < 0.35 else 0}
        else:
            # word universes; packs with a non-atom verification strategy are drawn more often
            name = rng.choice(packs) if rng.random() < 0.5 else rng.choice(list(WC.EXTRA_PACKS))
            yield {"kind": "words", "start": WC.random_start(rng), "pack": name,
                   "ev": 1 if rng.random() < 0.3 else 0, "stride": stride,
                   "beyond": rng.choice([0, 0, 2, 5, 9]), "qseed": rng.randrange(1 << 30),
                   "shuffle": rng.randrange(1, 1 << 30) if rng.random() < 0.25 else 0}


def _foreign_via_child(u, rng):
    """Let a factory, applied to a CHILD c of a rule S(p) of one of its hidden strategies, yield that rule as a ready
    rule: a rule with a foreign parent that RecomputingDict can recompute (c is a class of the key), and only through
    rule.comb_class - not through the class it is replaying."""
    facts = [i for i, st in enumerate(u["strats"]) if st["kind"] == "F"]
    rng.shuffle(facts)
    for f in facts:
        hidden = sorted({it["sid"] for l in u["strats"][f]["apply"].values() for it in l})
        cands = [(h, int(p), c) for h in hidden for p, e in u["strats"][h]["apply"].items()
                 for c in e["children"] if c != int(p)]
        if not cands:
            continue
        for _ in range(rng.randint(1, 2)):
            h, p, c = rng.choice(cands)
            u["strats"][f]["apply"].setdefault(str(c), []).append({"sid": h, "on": p, "lazy": rng.randint(0, 1)})
        return


# ----------------------------------------------------------------- adapters
class TableAdapter:
    """classes and strategies of a table universe carry their ids"""

    def __init__(self, case):
        from harness.universes import table as T

        self.T = T
        u = copy.deepcopy(case["u"])
        u.pop("uid", None)
        u["uid"] = "c14-%d-%d" % (os.getpid(), len(T.UNIVERSES))
        self.uid = T.register(u)
        self.u = u
        self.case = case

    def close(self):
        self.T.UNIVERSES.pop(self.uid, None)

    def start(self):
        return self.T.start_class(self.uid, bool(self.case["comp"]))

    def pack(self):
        return self.T.make_pack(self.uid)

    def cls(self, c):
        return c.n

    def sid(self, strat):
        return getattr(strat, "sid", -1)

    def truly_empty(self, c):
        return bool(self.u["empty"][c.n])


class WordAdapter:
    def __init__(self, case):
        from harness.universes import words_c14 as WC

        self.WC = WC
        self.case = case
        self._pack = WC.make_pack(case["pack"])
        self.tab = WC.Tabulator(self._pack)

    def close(self):
        pass

    def start(self):
        return self.WC.start_class(self.case["start"])

    def pack(self):
        return self.WC.make_pack(self.case["pack"])

    def cls(self, c):
        return self.tab.cls(c)

    def sid(self, strat):
        return self.tab.sid(strat)

    def truly_empty(self, c):
        return bool(c.is_empty())


def adapter_for(case):
    return TableAdapter(case) if case["kind"] == "table" else WordAdapter(case)


# ----------------------------------------------------------------- one real search with observations
EQLOG = [None]
# calls the REST of the program (the searcher's own has_specification(): connect_cycles, set_verified) makes on the
# equivalence database between two adds: the environment's move for the model's is_verified (RuleDB/Run.v envA/envB)
ENVLOG = [None]


def _eq_class():
    from comb_spec_searcher.equiv_db import EquivalenceDB

    class LogEq(EquivalenceDB):
        """EquivalenceDB that logs the calls coming from outside (not the ones it makes on itself)"""

        _depth = 0

        def _outer(self, rec, fn, *a):
            if self._depth == 0:
                if EQLOG[0] is not None:
                    EQLOG[0].append(rec)
                elif ENVLOG[0] is not None:
                    ENVLOG[0].append(rec)
            self._depth += 1
            try:
                return fn(*a)
            finally:
                self._depth -= 1

        def set_verified(self, label):
            return self._outer([5, label], super().set_verified, label)

        def add_two_way_edge(self, a, b):
            return self._outer([6, 1, a, b], super().add_two_way_edge, a, b)

        def add_one_way_edge(self, a, b):
            return self._outer([6, 0, a, b], super().add_one_way_edge, a, b)

        def connect_cycles(self):
            return self._outer([7], super().connect_cycles)

    return LogEq


def _flat(key):
    return [key[0]] + list(key[1])


def _snapshot(cdb):
    return (len(cdb.comb_class_list), list(cdb.empty_list))


def _restore(cdb, snap):
    n0, em0 = snap
    if len(cdb.comb_class_list) > n0:
        for k in [k for k, l in cdb.label_dict.items() if l >= n0]:
            del cdb.label_dict[k]
        del cdb.comb_class_list[n0:]
    cdb.empty_list[:] = em0


def _reapply(strat, key, cdb, eqv=False):
    """strategy(parent class) is filed under the same key again (what RuleDBBase.add would compute now);
    for the equivalence store the rule must be two-way as well"""
    from comb_spec_searcher.exception import StrategyDoesNotApply

    parent = cdb.get_class(key[0])
    try:
        rule = strat(parent)
        children = rule.children
    except StrategyDoesNotApply:
        return 0
    if not all(c in cdb for c in children):
        return 0
    start = cdb.get_label(rule.comb_class)
    kept = [c for c in children if not (rule.possibly_empty and cdb.is_empty(c))]
    ends = tuple(sorted(cdb.get_label(c) for c in kept))
    if eqv and not rule.is_two_way():
        return 0
    return int((start, ends) == (key[0], tuple(key[1])))


def _lookup(store, key, cdb, ad, eqv=False):
    """[code, strategy id, reproduces, labels allocated by the lookup, cache entries filled by the lookup]"""
    snap = _snapshot(cdb)
    try:
        try:
            strat = store[key]
        except KeyError:
            return [1, -2, 0, 0, 0]
        except RuntimeError as ex:
            if "Could not recompute" not in str(ex):
                raise
            return [2, -2, 0, len(cdb.comb_class_list) - snap[0],
                    sum(1 for a, b in zip(snap[1], cdb.empty_list) if a is None and b is not None)]
        alloc = len(cdb.comb_class_list) - snap[0]
        fills = sum(1 for a, b in zip(snap[1], cdb.empty_list) if a is None and b is not None)
        return [0, ad.sid(strat), _reapply(strat, key, cdb, eqv), alloc, fills]
    finally:
        _restore(cdb, snap)


def _queries(rng, keys, nlab):
    """(start, ends) pairs: the stored keys as they are, with permuted children, and non-stored pairs"""
    qs = []
    pool = list(keys)
    rng.shuffle(pool)
    for k in pool[:6]:
        qs.append([k[0], list(k[1:])])
        e = list(k[1:])
        rng.shuffle(e)
        qs.append([k[0], e])
        e = list(k[1:])
        e.reverse()
        qs.append([k[0], e])
    for k in pool[:3]:
        qs.append([rng.randrange(nlab + 1), list(k[1:])])             # same children, another parent
        if len(k) > 1:
            qs.append([k[0], list(k[1:-1])])                          # one child less
            qs.append([k[1], [k[0]] + list(k[2:])])                   # parent and first child exchanged
        qs.append([k[0], list(k[1:]) + [rng.randrange(nlab + 1)]])    # one child more
    for _ in range(4):
        qs.append([rng.randrange(nlab + 2), [rng.randrange(nlab + 2) for _ in range(rng.choice([0, 1, 1, 2, 3]))]])
    return qs


def _run_one(case, which, ad, queries_in=None):
    """Search the universe with RuleDB (which = 0) or RuleDBForgetStrategy (1); after every ruledb.add
    record what the property talks about.  queries_in: the contains queries of the other run."""
    import logging

    import logzero

    logzero.loglevel(logging.ERROR)
    from comb_spec_searcher import CombinatorialSpecificationSearcher
    from comb_spec_searcher.class_db import ClassDB
    from comb_spec_searcher.class_queue import DefaultQueue
    from comb_spec_searcher.exception import NoMoreClassesToExpandError, StrategyDoesNotApply
    from comb_spec_searcher.rule_db import RuleDB, RuleDBForgetStrategy
    from comb_spec_searcher.strategies.rule import VerificationRule
    from comb_spec_searcher.strategies.strategy import EmptyStrategy

    ruledb = RuleDBForgetStrategy() if which else RuleDB()
    ruledb.equivdb = _eq_class()()
    pack = ad.pack()
    start = ad.start()
    cdb = ClassDB(type(start))
    packets = []         # every work packet the real queue handed out: [label, [sid ...], inferral]

    class RecQueue(DefaultQueue):
        """DefaultQueue, recording what __next__ returns (do_level goes through next(self) as well)"""

        def __next__(self):
            pk = super().__next__()
            packets.append([pk[0], [ad.sid(s_) for s_ in pk[1]], int(bool(pk[2]))])
            return pk

    queue = RecQueue(pack)
    stops = []
    in_add = [0]
    o_stop = queue.set_stop_yielding

    def set_stop_yielding(label):
        if in_add[0]:
            stops.append(label)
        return o_stop(label)

    queue.set_stop_yielding = set_stop_yielding
    steps = []
    logged = []          # (start, ends, rule object) of every recorded call
    flags = {"reset": 0, "force_full": None}
    qrng = random.Random(case["qseed"])
    stride = max(1, int(case.get("stride", 1)))
    orig_add = ruledb.add
    state = {"died": None, "nadds": 0}
    cap = MAX_TABLE_ADDS if case["kind"] == "table" else 10 ** 9

    def observe(step, full):
        keys_r = sorted(_flat(k) for k in ruledb.rule_to_strategy)
        keys_e = sorted(_flat(k) for k in ruledb.eqv_rule_to_strategy)
        step["keys_r"], step["keys_e"] = keys_r, keys_e
        step["iter"] = sorted(_flat(k) for k in ruledb)
        step["len"] = [len(ruledb.rule_to_strategy), len(ruledb.eqv_rule_to_strategy)]
        nlab = len(cdb.comb_class_list)
        step["empties_after"] = [-1 if e is None else int(bool(e)) for e in cdb.empty_list]
        saved = copy.deepcopy(ruledb.equivdb)
        EQLOG[0] = None
        env_saved, ENVLOG[0] = ENVLOG[0], None      # observations are rolled back: not the environment's calls
        try:
            ver_now = [int(bool(ruledb.is_verified(l))) for l in range(nlab)]
            if "verified" in step:
                # the last step observed AGAIN after the search went on (live has_specification() calls since the add):
                # "verified" stays what it was right after the insertion (compared with the model), the later answers
                # are compared between the two databases by the oracle
                step["verified_last"] = ver_now
            else:
                step["verified"] = ver_now
            if full:
                step["has_spec"] = int(bool(ruledb.has_specification()))
                step["reps"] = [ruledb.equivdb[l] for l in range(nlab)]
                step["verified_hs"] = [int(bool(ruledb.is_verified(l))) for l in range(nlab)]
        finally:
            ruledb.equivdb = saved
            ruledb._pruned_dict = None
            ENVLOG[0] = env_saved
        if full:
            qs = None
            if queries_in is not None and len(queries_in) > len(steps):
                qs = queries_in[len(steps)]
            if qs is None:
                qs = _queries(qrng, keys_r + keys_e, nlab)
            step["queries"] = qs
            step["contains"] = [int(bool(ruledb.contains(q[0], tuple(q[1])))) for q in qs]
            step["get_r"] = [_lookup(ruledb.rule_to_strategy, (k[0], tuple(k[1:])), cdb, ad) for k in keys_r]
            step["get_e"] = [_lookup(ruledb.eqv_rule_to_strategy, (k[0], tuple(k[1:])), cdb, ad, True) for k in keys_e]
            # a key of one store looked up in the other one, and a key stored nowhere: KeyError in both databases
            cross = []
            for k in (keys_r[:2] + keys_e[:2]):
                kk = (k[0], tuple(k[1:]))
                other = ruledb.eqv_rule_to_strategy if k in keys_r and k not in keys_e else ruledb.rule_to_strategy
                if k in keys_r and k in keys_e:
                    continue
                cross.append(_lookup(other, kk, cdb, ad)[0])
            cross.append(_lookup(ruledb.rule_to_strategy, (nlab + 3, (nlab + 4,)), cdb, ad)[0])
            step["cross"] = cross

    def add(start_label, ends, rule):
        if state["died"] is not None:
            return orig_add(start_label, ends, rule)
        kind = 0
        if isinstance(rule, VerificationRule):
            kind = 2 if isinstance(rule.strategy, EmptyStrategy) else 1
        if not flags["reset"] and flags["force_full"] is None:
            logged.append((start_label, tuple(ends), rule))
        step = {
            "reset": flags["reset"],
            "add": [start_label, list(ends), ad.sid(rule.strategy), ad.cls(rule.comb_class), kind],
            "pre": [len(cdb.comb_class_list), [-1 if e is None else int(bool(e)) for e in cdb.empty_list]],
        }
        # what the rest of the program did to the equivalence database since the previous add (nothing for a fresh one)
        step["eqenv"] = [] if flags["reset"] else [list(c) for c in (ENVLOG[0] or []) if c[0] in (5, 7)]
        ENVLOG[0] = None
        del stops[:]
        EQLOG[0] = eqlog = []
        in_add[0] = 1
        try:
            orig_add(start_label, ends, rule)
        finally:
            in_add[0] = 0
            EQLOG[0] = None
        step["eq"] = eqlog
        step["stops"] = list(stops)
        ENVLOG[0] = []
        state["nadds"] += 1
        n = state["nadds"]
        full = 1 if (n % stride == 0 or n <= 2) else 0
        if flags["force_full"] is not None:
            full = flags["force_full"]
        step["full"] = full
        observe(step, bool(full))
        steps.append(step)

    ruledb.add = add
    ENVLOG[0] = []
    css, status, exc = None, 0, None

    def one_packet():
        try:
            label, strategies, inferral = next(css.classqueue)
        except StopIteration:
            return False
        comb_class = css.classdb.get_class(label)
        if css.expand_verified or not css.ruledb.is_verified(label):
            css._expand(comb_class, label, strategies, inferral)
        return True

    live = int(case.get("live", 0))
    live_answers = []
    try:
        css = CombinatorialSpecificationSearcher.__new__(CombinatorialSpecificationSearcher)
        css.__init__(start, pack, ruledb=ruledb, classdb=cdb, classqueue=queue, expand_verified=bool(case["ev"]))
        if case["kind"] == "table":
            if case["drv"] == 0:
                npk = 0
                while state["nadds"] < cap and one_packet():
                    npk += 1
                    if live and npk % live == 0:
                        live_answers.append(int(bool(css.has_specification())))     # kept: as auto_search does
            else:
                for _ in range(10000):
                    if state["nadds"] >= cap:
                        break
                    try:
                        css.do_level()
                    except NoMoreClassesToExpandError:
                        break
                    if live:
                        live_answers.append(int(bool(css.has_specification())))
        else:
            npk = 0
            beyond = int(case.get("beyond", 0))      # packets expanded after a specification exists
            while npk < MAX_WORD_PACKETS and state["nadds"] < MAX_WORD_ADDS:
                hs = css.has_specification()                                        # kept: as auto_search does
                live_answers.append(int(bool(hs)))
                if hs:
                    if beyond <= 0:
                        break
                    beyond -= 1
                if not one_packet():
                    break
                npk += 1
    except (KeyError, IndexError, StrategyDoesNotApply, AssertionError) as ex:
        status, exc = ERRCODE.get(type(ex).__name__, 9), "%s: %s" % (type(ex).__name__, str(ex)[:200])
    # the last step is always observed in full
    if steps and not steps[-1]["full"]:
        steps[-1]["full"] = 1
        observe_last = steps.pop()
        observe(observe_last, True)
        steps.append(observe_last)
    final = {}
    ENVLOG[0] = None
    # the logged rules fed again, in another order and with repetitions, to a FRESH database of the same kind
    # attached to the same (finished) searcher: "fed the same sequence of rules" beyond what one search produces
    if case.get("shuffle") and css is not None and status == 0 and len(logged) >= 2:
        srng = random.Random(case["shuffle"])
        seq = list(logged)
        srng.shuffle(seq)
        seq = seq[:40]
        seq += [seq[srng.randrange(len(seq))] for _ in range(min(4, len(seq)))]
        fresh = RuleDBForgetStrategy() if which else RuleDB()
        fresh.equivdb = _eq_class()()
        fresh.link_searcher(css)
        ruledb = fresh
        orig_add = fresh.add
        try:
            for j, (st_, en_, ru_) in enumerate(seq):
                flags["reset"] = 1 if j == 0 else 0
                flags["force_full"] = 1 if (j % stride == 0 or j == len(seq) - 1) else 0
                if j > 0:
                    flags["reset"] = 0
                add(st_, en_, ru_)
        except (KeyError, IndexError, StrategyDoesNotApply, AssertionError) as ex:
            status, exc = ERRCODE.get(type(ex).__name__, 9), "shuffle phase: %s: %s" % (type(ex).__name__, str(ex)[:200])
        ruledb = css.ruledb
    # at the end: the specification itself can be extracted from both databases (when one exists)
    spec = None
    if css is not None and status == 0:
        try:
            if css.ruledb.has_specification():
                random.seed(case["qseed"])
                snap = _snapshot(cdb)
                try:
                    rules = list(css.ruledb.get_specification_rules(minimization_time_limit=0))
                    spec = ["ok", len(rules)]
                except Exception as ex:  # pylint: disable=broad-except
                    spec = ["raised", "%s: %s" % (type(ex).__name__, str(ex)[:160])]
                finally:
                    _restore(cdb, snap)
            else:
                spec = ["none", 0]
        except Exception as ex:  # pylint: disable=broad-except
            spec = ["raised", "%s: %s" % (type(ex).__name__, str(ex)[:160])]
    # MutableMapping.pop on a few keys, each put back afterwards (RecomputingDict.pop recomputes the strategy first)
    pops = []
    if css is not None and status == 0 and steps:
        for store in (ruledb.rule_to_strategy, ruledb.eqv_rule_to_strategy):
            keys = sorted(_flat(k) for k in store)
            for k in keys[:4]:
                kk = (k[0], tuple(k[1:]))
                snap = _snapshot(cdb)
                try:
                    try:
                        s = store.pop(kk)
                        pops.append([0, _reapply(s, kk, cdb), int(kk in store)])
                        store[kk] = s            # put it back through the public interface
                    except RuntimeError as ex:
                        if "Could not recompute" not in str(ex):
                            raise
                        pops.append([2, 0, int(kk in store)])
                finally:
                    _restore(cdb, snap)
    classes = [ad.cls(cdb.get_class(i)) for i in range(len(cdb.comb_class_list))]
    truth = [int(ad.truly_empty(cdb.get_class(i))) for i in range(len(cdb.comb_class_list))]
    return {"steps": steps, "status": status, "exc": exc, "classes": classes, "truth": truth,
            "live": live_answers, "spec": spec, "pops": pops, "packets": packets,
            "root": css.start_label if css is not None and hasattr(css, "start_label") else 0,
            "iterative": int(bool(pack.iterative))}


# ----------------------------------------------------------------- table encoding
def _enc_strats(strats, normalise):
    from harness.props import c04

    out = []
    for st in strats:
        kind = "SFVY".index(st["kind"])
        flags = c04.norm_flags(st) if normalise else [int(bool(x)) for x in st["flags"]]
        if st["kind"] == "F":
            items = [[int(c), [[it["sid"], -1 if it["on"] is None else it["on"], int(bool(it.get("lazy")))] for it in l]]
                     for c, l in st["apply"].items()]
            out.append([kind, flags, [], items])
        else:
            ap = [[int(c), list(e["children"]), int(bool(e["two_way"])), int(bool(e["reversible"])), list(e["shifts"])]
                  for c, e in st["apply"].items()]
            out.append([kind, flags, ap, []])
    return out


def _pack_order(p):
    """StrategyPack.__iter__: initial, ver, inferral, symmetries, expansion sets"""
    return list(p["initial"]) + list(p["ver"]) + list(p["inferral"]) + list(p["sym"]) + [s for x in p["expansion"] for s in x]


def _universe_of(case, res):
    """(empty bits, encoded strategies, pack order, table dict) - for word universes the tabulation made by impl"""
    if case["kind"] == "table":
        u = case["u"]
        return list(u["empty"]), _enc_strats(u["strats"], True), _pack_order(u["pack"]), u
    t = res.get("table")
    if not t:
        return [], [], [], None
    return list(t["empty"]), _enc_strats(t["strats"], False), list(t["pack_order"]), t


def encode_with(case, res):
    if "pair" not in res:
        return [[0, 0, 0, 1], [], [], [], [], []]
    a, b = res["pair"]
    empty, strats, order, _ = _universe_of(case, res)
    steps = []
    for i, sb in enumerate(b["steps"]):
        if i >= len(a["steps"]):
            break
        sa = a["steps"][i]
        full = int(bool(sb.get("full") and sa.get("full")))
        steps.append([sb["pre"][0], sb["pre"][1], sb["add"], full,
                      sa.get("queries", []) if full else [],
                      sa.get("reps", []) if full else [], sb.get("reps", []) if full else [], int(sb.get("reset", 0)),
                      sa.get("eqenv", []), sb.get("eqenv", [])])
    # 4th header flag: is_verified of every label after every insertion is part of the compared output
    enc = [[a["root"], a["iterative"], int(FALLBACK_ALL_LABELS), 1], empty, strats, order, b["classes"], steps]
    hu = _hyp_universe(case, res)
    if hu is not None:
        # 7th field: what the deciders of Searcher/Deciders.v need beyond the table the databases are modelled on
        # (verification strategies, symmetries, the strategies the queue hands out, the packets it did hand out)
        from harness.props import hyps

        enc.append(hyps.extra_field(hu, a.get("packets", [])))
    return enc


def _hyp_universe(case, res):
    """the table universe on which the hypotheses of C14_search_stored_rules_handed_back are evaluated: the universe
    of a table case; for a word case the tabulation impl made (every strategy of the pack and every strategy a factory
    yields applied to every LABELLED class and to the parents of ready rules - the very table the model of the two
    databases runs on) completed with the real StrategyPack in the tabulation's strategy ids.  None when there is none."""
    if case["kind"] == "table":
        return case["u"]
    t = res.get("table") if isinstance(res, dict) else None
    if t and "pack" in t:
        return t
    return None


def _hyp_bits(case, res):
    """the verdict bits (harness/props/hyps.py) for the search made with RuleDB (the packets of the other search
    are judged by the oracle)"""
    from harness.props import hyps

    hu = _hyp_universe(case, res)
    if hu is None or "pair" not in res:
        return None
    return hyps.bits(hu, res["pair"][0].get("packets", []))


def _covers(case, res):
    from harness.props import c04

    hu = _hyp_universe(case, res)
    order = set(_universe_of(case, res)[2])
    need = list(c04.queue_pack(hu)) + list(hu["pack"]["ver"]) + list(hu["pack"]["sym"])
    return int(all(q in order for q in need))


def _out_of(a, b):
    out = []
    for i, sa in enumerate(a["steps"]):
        if i >= len(b["steps"]):
            break
        sb = b["steps"][i]
        row = [0, sa["keys_r"], sa["keys_e"], sb["keys_r"], sb["keys_e"], sa["eq"], sa["stops"], sa["empties_after"],
               [sa["verified"], sb["verified"]]]
        if sa.get("full") and sb.get("full"):
            def look(keys, ga, gb):
                return [[k, x[1] if x[0] == 0 else -2, x[2], y[0], y[2]] for k, x, y in zip(keys, ga, gb)]

            row.append(look(sa["keys_r"], sa["get_r"], sb["get_r"] if len(sb["get_r"]) == len(sa["get_r"])
                            else [[1, -2, 0, 0, 0]] * len(sa["get_r"])))
            row.append(look(sa["keys_e"], sa["get_e"], sb["get_e"] if len(sb["get_e"]) == len(sa["get_e"])
                            else [[1, -2, 0, 0, 0]] * len(sa["get_e"])))
            cb = sb["contains"] if len(sb["contains"]) == len(sa["contains"]) else [2] * len(sa["contains"])
            row.append([[x, y] for x, y in zip(sa["contains"], cb)])
            row.append([sa["has_spec"], sb["has_spec"]])
        out.append(row)
    return out


def impl(case):
    ad = adapter_for(case)
    try:
        a = _run_one(case, 0, ad)
        b = _run_one(case, 1, ad, queries_in=[s.get("queries") for s in a["steps"]])
        res = {"pair": [a, b], "out": _out_of(a, b)}
        if case["kind"] == "words":
            cdb_classes = [ad.tab.classes[i] for i in b["classes"]]
            res["table"] = ad.tab.table(cdb_classes)
            # the REAL StrategyPack in the tabulation's strategy ids (the `pack` dict of a table universe): what the
            # contract predicates of c04.py / the deciders of Searcher/Deciders.v need beyond the strategy table
            pk = ad._pack  # pylint: disable=protected-access
            res["table"]["pack"] = {
                "initial": [ad.tab.sid(s_) for s_ in pk.initial_strats],
                "inferral": [ad.tab.sid(s_) for s_ in pk.inferral_strats],
                "expansion": [[ad.tab.sid(s_) for s_ in l_] for l_ in pk.expansion_strats],
                "ver": [ad.tab.sid(s_) for s_ in pk.ver_strats],
                "sym": [ad.tab.sid(s_) for s_ in pk.symmetries],
            }
            res["strategies"] = [repr(s) for s in ad.tab.strats]
        hb = _hyp_bits(case, res)
        if hb is not None:
            # compared by the core with the element the extracted run_c14 appends (deciders of Searcher/Deciders.v)
            res["hyp"] = hb
            # ... and by the element after it: fpack_coversb (RuleDB/Model.v), the pack hypothesis of
            # C14_search_stored_rules_handed_back_x_decided: the pack order the memory-saving database replays contains
            # the strategies the queue hands out, the verification strategies and the symmetries
            res["covers"] = _covers(case, res)
            res["out"] = res["out"] + [hb] + [res["covers"]]
        return res
    finally:
        ad.close()


# ----------------------------------------------------------------- oracle
def _yields(t, sid, c):
    """(sid, parent) of the rule objects pack strategy sid produces on class c, straight from the table"""
    st = t["strats"][sid]
    if st["kind"] != "F":
        return [(sid, c)] if str(c) in st["apply"] else []
    out = []
    for it in st["apply"].get(str(c), []):
        h = t["strats"][it["sid"]]["apply"]
        if it["on"] is None:
            if str(c) in h:
                out.append((it["sid"], c))
        elif it.get("lazy") or str(it["on"]) in h:
            out.append((it["sid"], it["on"]))
    return out


def _pe(t, sid, table_kind):
    st = t["strats"][sid]
    if table_kind and st["kind"] in "VY":
        return 0
    return int(bool(st["flags"][2]))


def _candidate_exists(t, order, classes, truth_by_class, key, only_equiv, table_kind):
    """Is there, among the labels of the key, a class on which some strategy of the pack (or the empty
    strategy) produces a rule that is filed under the key - decided from the table and the TRUE emptiness."""
    label_of = {}
    for l, c in enumerate(classes):
        label_of.setdefault(c, l)
    labs = [key[0]] + list(key[1:])
    if FALLBACK_ALL_LABELS:
        labs = labs + [l for l in range(len(classes)) if l not in labs]
    for l in labs:
        if not 0 <= l < len(classes):
            continue
        c = classes[l]
        if truth_by_class(c) and key[0] == l and len(key) == 1:
            return True
        for q in order:
            for (s2, p) in _yields(t, q, c):
                e = t["strats"][s2]["apply"].get(str(p))
                if e is None:
                    continue
                kids = e["children"]
                if p not in label_of or any(k not in label_of for k in kids):
                    continue
                pe = _pe(t, s2, table_kind)
                kept = [k for k in kids if not (pe and truth_by_class(k))]
                if [label_of[p]] + sorted(label_of[k] for k in kept) != list(key):
                    continue
                if only_equiv and not (e["two_way"] and t["strats"][s2]["kind"] != "V"):
                    continue
                return True
    return False


def _strong(case):
    """the strategy contracts the reproduction half of the property relies on: a possibly_empty=False strategy
    has no empty child, symmetries preserve emptiness, and a symmetry rule has exactly one child
    (_symmetry_expand records its first child only)"""
    from harness.props import c04

    if case["kind"] != "table":
        return True
    u = case["u"]
    if not c04.strong_contract(u):
        return False
    for sid in u["pack"]["sym"]:
        for c in range(u["ncls"]):
            for (s2, p) in c04.yields(u, sid, c):
                e = u["strats"][s2]["apply"].get(str(p))
                if e is not None and len(e["children"]) != 1:
                    return False
    return True


def _failures(case, res):
    """The PROPERTY, decided on the two real databases (never through the model): every way in which the case fails,
    in the order of the history.  A failure after which nothing else can be compared ends the enumeration; the two
    producers of the open finding (KNOWN_FOREIGN) do NOT: the remaining insertions, the final specification and the
    pops are still judged, so a second, different failure of a masked case is reported (see `oracle`)."""
    if "exception" in res:
        yield "implementation raised " + res["exception"]
        return
    a, b = res["pair"]
    if a["status"] != b["status"]:
        yield "the search ended with %r under RuleDB and with %r under RuleDBForgetStrategy" % (a["exc"], b["exc"])
        return
    if a["status"] != 0 and _strong(case):
        yield "the search died with %s on a universe honouring the contracts" % a["exc"]
        return
    if len(a["steps"]) != len(b["steps"]):
        yield "RuleDB received %d rules, RuleDBForgetStrategy %d: the searches diverged" % (len(a["steps"]), len(b["steps"]))
        return
    if a["classes"] != b["classes"]:
        yield "the two searches labelled different classes"
        return
    if a["live"] != b["live"]:
        yield "has_specification() asked during the search: %r under RuleDB, %r under RuleDBForgetStrategy" % (a["live"], b["live"])
        return
    hb = res.get("hyp")
    if hb:
        # hypotheses of C14_search_stored_rules_handed_back that hold BY CONSTRUCTION on this stream: the packets come
        # from the real DefaultQueue (packets_in is a theorem of the queue model: Searcher/QueuePack.v), and the table
        # generators (harness/universes/table.py, table_c04.py, _foreign_via_child) let factories hide plain
        # strategies only.  A false verdict there is a defect (queue handing out a foreign strategy / generator
        # drift), not a case the theorem merely does not cover.  pe_contract / sym_contract are broken on purpose by
        # the weak and wild regimes, sym_unary by table_c04's "factory used as a symmetry" (5%): tag only.
        from harness.props import c04, hyps

        owed = [n for n in hyps.missing(hb, "search") if n in ("packets_in", "items_plain")]
        if case["kind"] != "table":
            # word universes (tabulated): the shipped packs' symmetries preserve emptiness and are unary, no factory
            # yields a verification strategy, and the packets come from the real queue - all four held on every word
            # search measured; a false verdict is reported.  pe_contract is tag-only: its clause (b) fails on 41-45% of the
            # tabulations, see ASSUMPTIONS (the tabulation applies pack strategies to labelled EMPTY classes, which the
            # search never does).
            owed = [n for n in hyps.missing(hb, "search") if n != "pe_contract"]
        qp = set(c04.queue_pack(case["u"])) if case["kind"] == "table" else None
        if qp is not None and not all(s_ in qp for pk in b.get("packets", []) for s_ in pk[1]):
            owed.append("packets_in (RuleDBForgetStrategy search)")
        if owed:
            yield ("harness: %s violated, which holds by construction of the queue / the table generators "
                   "(hypothesis of C14_search_stored_rules_handed_back)" % ", ".join(owed))
            return
    strong = _strong(case)
    empty, _strats, order, t = _universe_of(case, res)
    classes, truth = a["classes"], a["truth"]
    tkind = case["kind"] == "table"
    no_candidate = set()          # stored keys seen to fail with RuntimeError and to have no candidate (the open finding)

    def truly(c):
        return bool(empty[c]) if 0 <= c < len(empty) else False

    for i, (sa, sb) in enumerate(zip(a["steps"], b["steps"])):
        where = "after insertion %d (add%r)" % (i + 1, tuple(sa["add"]))
        if sa["add"] != sb["add"] or sa["pre"] != sb["pre"]:
            yield "insertion %d differs: %r vs %r: the searches diverged" % (i + 1, sa["add"], sb["add"])
            return
        for name in ("keys_r", "keys_e", "iter"):
            if sa[name] != sb[name]:
                yield "%s: %s differs: RuleDB %r, RuleDBForgetStrategy %r" % (where, name, sa[name], sb[name])
                return
        for s, who in ((sa, "RuleDB"), (sb, "RuleDBForgetStrategy")):
            if s["iter"] != sorted(s["keys_r"] + s["keys_e"]):
                yield "%s: iterating %s does not give the keys of its two stores" % (where, who)
                return
            if s["len"] != [len(s["keys_r"]), len(s["keys_e"])]:
                yield "%s: len() of the stores of %s is %r for %d + %d keys" % (where, who, s["len"], len(s["keys_r"]), len(s["keys_e"]))
                return
        if sa["verified"] != sb["verified"]:
            yield "%s: is_verified differs: RuleDB %r, RuleDBForgetStrategy %r" % (where, sa["verified"], sb["verified"])
        if sa.get("verified_last") != sb.get("verified_last"):
            yield "%s: is_verified at the end of the search differs: RuleDB %r, RuleDBForgetStrategy %r" % (
                where, sa.get("verified_last"), sb.get("verified_last"))
            return
        if sa["eq"] != sb["eq"] or sa["stops"] != sb["stops"] or sa["empties_after"] != sb["empties_after"]:
            yield "%s: the two databases did different things to the equivalence database / queue / class database" % where
            return
        if not (sa.get("full") and sb.get("full")):
            continue
        if sa["has_spec"] != sb["has_spec"]:
            yield "%s: has_specification() is %r for RuleDB and %r for RuleDBForgetStrategy" % (where, sa["has_spec"], sb["has_spec"])
            return
        if sa["verified_hs"] != sb["verified_hs"]:
            yield "%s: is_verified after has_specification() differs" % where
            return
        stored = {tuple(k) for k in sa["keys_r"] + sa["keys_e"]}
        if sa["queries"] != sb["queries"]:
            yield "%s: internal: query lists differ" % where
            return
        for q, x, y in zip(sa["queries"], sa["contains"], sb["contains"]):
            want = int(tuple([q[0]] + sorted(q[1])) in stored)
            if x != want or y != want:
                yield "%s: contains(%d, %r) is %r for RuleDB and %r for RuleDBForgetStrategy; the key is %sstored" % (
                    where, q[0], tuple(q[1]), bool(x), bool(y), "" if want else "not ")
                return
        if sa["cross"] != sb["cross"] or any(c != 1 for c in sa["cross"]):
            yield "%s: looking up a key a store does not hold: RuleDB %r, RuleDBForgetStrategy %r (1 = KeyError)" % (
                where, sa["cross"], sb["cross"])
            return
        for eqv, kname, gname in ((0, "keys_r", "get_r"), (1, "keys_e", "get_e")):
            for k, x, y in zip(sa[kname], sa[gname], sb[gname]):
                if not 0 <= k[0] < len(classes):
                    yield "%s: stored key %r has an unknown parent label" % (where, k)
                    return
                if truth[k[0]] or not strong:
                    continue        # the property speaks about stored rules of NON-EMPTY classes, contracts honoured
                store = "eqv_rule_to_strategy" if eqv else "rule_to_strategy"
                if x[0] != 0 or x[2] != 1:
                    yield "%s: RuleDB.%s[%r] %s" % (where, store, k, "raised" if x[0] else
                                                      "hands back strategy %d, which does not reproduce the rule" % x[1])
                    return
                if y[0] == 0 and y[2] != 1:
                    yield "%s: RuleDBForgetStrategy.%s[%r] hands back strategy %d, which does not reproduce the rule" % (
                        where, store, k, y[1])
                    return
                if y[0] != 0:
                    known = classes[:len(sb["empties_after"])]       # the classes labelled at that moment
                    cand = t is not None and _candidate_exists(t, order, known, truly, k, bool(eqv), tkind)
                    if y[0] == 2 and t is not None and not cand:
                        # the open finding, and nothing else: RuntimeError('Could not recompute ...') (code 2; a
                        # KeyError for a stored key is another defect) for a key without a candidate on its own
                        # classes.  Recorded, and the rest of the history is still judged.
                        no_candidate.add(tuple(k))
                        yield ("%s: %s: RuleDBForgetStrategy.%s[%r] could not recompute the strategy (RuleDB hands back "
                               "strategy %d): no strategy of the pack produces this rule on a class of the key "
                               "(the rule has a foreign parent / was produced from another class)" % (
                                   KNOWN_FOREIGN, where, store, k, x[1]))
                        continue
                    yield "%s: RuleDBForgetStrategy.%s[%r] raised (code %d) although RuleDB hands back strategy %d" % (
                        where, store, k, y[0], x[1])
                    return
    if strong and a["status"] == 0:
        sa_, sb_ = a["spec"], b["spec"]
        # the steps of a shuffle phase belong to the fresh database, the final specification and the pops to the
        # searcher's own: the popped keys can be named only without a shuffle phase
        last = a["steps"][-1] if a["steps"] and not case.get("shuffle") else None

        def lacks_candidate(k):
            """no strategy of the pack produces the rule with flat key k on one of the key's own classes (decided from
            the table and the true emptiness over all classes labelled at the end; the general-store test, which
            accepts the most candidates)"""
            if t is None:
                return False
            if tuple(k) in no_candidate:
                return True
            return not _candidate_exists(t, order, classes, truly, list(k), False, tkind)

        if sa_ and sb_ and sa_[0] != sb_[0]:
            # the open finding at the end of the search: RecomputingDict's own RuntimeError, naming a stored key that
            # has no candidate on its own classes.  ("Unable to retrieve rule" was the message of the FIXED defect
            # 8ca838d and is not accepted any more.)
            named = re.search(r"for the rule \((\d+), \(([\d, ]*)\)\)", sb_[1]) if sb_[0] == "raised" else None
            key_named = None
            if named:
                key_named = (int(named.group(1)),) + tuple(int(z) for z in named.group(2).replace(",", " ").split())
            if (sb_[0] == "raised" and sa_[0] == "ok" and sb_[1].startswith("RuntimeError: Could not recompute")
                    and key_named is not None and lacks_candidate(key_named)):
                yield "%s: at the end get_specification_rules() works for RuleDB and raises for RuleDBForgetStrategy: %s" % (
                    KNOWN_FOREIGN, sb_[1][:120])
            else:
                yield "at the end get_specification_rules(): RuleDB %r, RuleDBForgetStrategy %r" % (sa_, sb_)
                return
        pop_keys = None
        if last is not None:
            pop_keys = sorted(tuple(q) for q in last["keys_r"])[:4] + sorted(tuple(q) for q in last["keys_e"])[:4]
            if len(pop_keys) != len(a["pops"]) or len(pop_keys) != len(b["pops"]):
                pop_keys = None
        for j, (x, y) in enumerate(zip(a["pops"], b["pops"])):
            if x[0] != 0 or x[2] != 0:
                yield "RuleDB store.pop: %r" % (x,)
                return
            if y[0] == 0 and (y[2] != 0 or x[1] != y[1]):
                yield "store.pop(key): RuleDB %r, RuleDBForgetStrategy %r (code, reproduces, still stored)" % (x, y)
                return
            if y[0] != 0 and pop_keys is not None:
                k = pop_keys[j]
                if 0 <= k[0] < len(truth) and truth[k[0]]:
                    continue          # a stored rule of an EMPTY class: not claimed
                if lacks_candidate(k):
                    yield "%s: store.pop(%r) could not recompute the strategy under RuleDBForgetStrategy (no candidate on the classes of the key)" % (
                        KNOWN_FOREIGN, k)
                    continue
                yield "store.pop(%r) raised under RuleDBForgetStrategy (%r) although a strategy of the pack produces the rule on a class of the key; RuleDB %r" % (k, y, x)
                return


def _mask_of(case, why):
    """the open finding a failure text belongs to, or None.  The prefix KNOWN_FOREIGN is only ever put in front of a
    failure by `_failures` itself, and only after it has established (from the strategy table and the TRUE emptiness,
    never from the databases under test) that the key has no candidate on its own classes"""
    if why and why.startswith(KNOWN_FOREIGN + ":"):
        return KNOWN_FOREIGN
    return None


def oracle(case, res):
    """the FIRST UNMASKED failure of the case; when every failure belongs to the open finding, the first of them
    (core then prints KNOWN-FINDING); None when there is none"""
    first_masked = None
    for why in _failures(case, res):
        if _mask_of(case, why) is None:
            return why
        if first_masked is None:
            first_masked = why
    return first_masked


def finding_match(case, why):
    return _mask_of(case, why)


# ----------------------------------------------------------------- bookkeeping
def features(case, res):
    feats = set()
    if "pair" not in res:
        return feats
    a, b = res["pair"]
    if any(s["stops"] for s in a["steps"]):
        feats.add("dropped_empty_child")
    if any(len(s["keys_e"]) for s in a["steps"]):
        feats.add("two_way_store")
    prev = set()
    for s in a["steps"]:
        cur = {tuple(k) for k in s["keys_r"]}
        if s.get("reset"):
            prev = set()
        if prev - cur:
            feats.add("superseded_one_way_key_removed")
        prev = cur
    for s in b["steps"]:
        for g in s.get("get_r", []) + s.get("get_e", []):
            if g[0] == 2:
                feats.add("recompute_failed")
            if g[3]:
                feats.add("lookup_allocated_label")
            if g[4]:
                feats.add("lookup_filled_emptiness_cache")
    for sa, sb in zip(a["steps"], b["steps"]):
        for x, y in zip(sa.get("get_r", []) + sa.get("get_e", []), sb.get("get_r", []) + sb.get("get_e", [])):
            if x[0] == 0 and y[0] == 0 and x[1] != y[1]:
                feats.add("recomputed_another_strategy")
    if any(s.get("has_spec") for s in a["steps"]):
        feats.add("has_specification")
    if any(1 in s["verified"] for s in a["steps"]):
        feats.add("verified_label")
    if a.get("spec") and a["spec"][0] == "ok":
        feats.add("specification_extracted")
    if any(s.get("reset") for s in a["steps"]):
        feats.add("refed_in_another_order")
    if case["kind"] == "words":
        if "Verified" in " ".join(res.get("strategies", [])):
            feats.add("non_atom_verification_pack")
    return feats


def nontrivial(case, res):
    if "pair" not in res:
        return False
    a = res["pair"][0]
    if a["status"] != 0 or len(a["steps"]) < 4 or len(a["classes"]) < 4:
        return False
    nfull = sum(1 for s in a["steps"] if s.get("full"))
    return nfull >= 2 and bool(a["steps"][-1]["keys_r"])


def key(case):
    return json.dumps(case, sort_keys=True)


def classify(case, res):
    tags = ["kind=" + case["kind"], "stride=%d" % case.get("stride", 1)]
    if case["kind"] == "table":
        tags.append("contracts:" + ("strong" if _strong(case) else "weaker"))
    else:
        tags.append("pack=" + case["pack"])
    if res.get("hyp"):
        from harness.props import hyps

        tags.append(hyps.verdict_tag("C14_search_stored_rules_handed_back" + ("" if case["kind"] == "table" else "[word, tabulated]"),
                                     res["hyp"], "search"))
    elif "pair" in res:
        tags.append("thm:C14_search_stored_rules_handed_back:not_evaluated(word universe)")
    if "pair" in res:
        a = res["pair"][0]
        n = len(a["steps"])
        tags.append("status=%d" % a["status"])
        tags.append("adds<=5" if n <= 5 else "adds<=20" if n <= 20 else "adds<=60" if n <= 60 else "adds>60")
        tags.extend(sorted(features(case, res)))
    return tags


def shrink(case):
    if case["kind"] == "table":
        from harness.props import c04

        base = {k: v for k, v in case.items()}
        for c in c04.shrink({"u": case["u"], "ev": case["ev"], "comp": case["comp"], "drv": case["drv"], "db": 0}):
            d = dict(base)
            d["u"], d["ev"], d["comp"], d["drv"] = c["u"], c["ev"], c["comp"], c["drv"]
            yield d
        if case.get("live"):
            d = dict(base)
            d["live"] = 0
            yield d
        if case.get("shuffle"):
            d = dict(base)
            d["shuffle"] = 0
            yield d
        if case.get("stride", 1) != 1:
            d = dict(base)
            d["stride"] = 1
            yield d
    else:
        p, pats, alph = case["start"]
        for i in range(len(pats)):
            d = dict(case)
            d["start"] = [p, pats[:i] + pats[i + 1:], alph]
            yield d
        if p:
            d = dict(case)
            d["start"] = [p[:-1], pats, alph]
            yield d
        if case["ev"]:
            d = dict(case)
            d["ev"] = 0
            yield d
        if case.get("beyond"):
            d = dict(case)
            d["beyond"] = case["beyond"] - 1
            yield d


def extra_checks(ctx):
    res = []
    tot = len(ctx.cases)
    nins = nfull = nlook = nfail = nalloc = nfill = nother = ncont = 0
    nver = nverlab = nenv = nenvdiff = 0
    for r, _, _ in ctx.impl_res:
        if "pair" not in r:
            continue
        a, b = r["pair"]
        nins += len(a["steps"])
        for sa, sb in zip(a["steps"], b["steps"]):
            nver += 1 in sa["verified"]
            nverlab += sum(sa["verified"])
            nenv += len(sa.get("eqenv", []))
            nenvdiff += sa.get("eqenv", []) != sb.get("eqenv", [])
            if sa.get("full"):
                nfull += 1
                ncont += len(sa.get("contains", []))
                for x, y in zip(sa["get_r"] + sa["get_e"], sb["get_r"] + sb["get_e"]):
                    nlook += 1
                    nfail += y[0] == 2
                    nalloc += bool(y[3])
                    nfill += bool(y[4])
                    nother += (x[0] == 0 and y[0] == 0 and x[1] != y[1])
    res.append(("insertions compared (key sets, is_verified, equivalence/queue/class database calls) / compared in full "
                "(has_specification, contains, every stored key looked up in both databases)", nins > 0 or tot < 5,
                "%d / %d in %d searches; %d contains queries; %d lookups" % (nins, nfull, tot, ncont, nlook)))
    res.append(("is_verified of every label after every insertion: computed by the model (C06 model of the equivalence "
                "database fed with the calls of add and the calls of the searcher's own has_specification()) and compared",
                nver > 0 or tot < 50,
                "%d insertions after which some label is verified (%d verified answers in all); %d calls of the rest of the "
                "program on the equivalence databases (connect_cycles / set_verified of live has_specification()) fed to "
                "the model as the environment's move; at %d insertions the two databases had received them in a "
                "different order" % (nver, nverlab, nenv, nenvdiff)))
    from harness.props import hyps

    xflags = [bool(r["hyp"][0]) and bool(r.get("covers")) for c, (r, _, _) in zip(ctx.cases, ctx.impl_res)
              if r.get("hyp") and c["kind"] == "table"]
    xwflags = [bool(r["hyp"][0]) and bool(r.get("covers")) for c, (r, _, _) in zip(ctx.cases, ctx.impl_res)
               if r.get("hyp") and c["kind"] != "table"]
    ncov0 = sum(1 for r, _, _ in ctx.impl_res if r.get("hyp") and not r.get("covers"))
    res.append(hyps.coverage_check(
        "C14_search_stored_rules_handed_back_x", xflags, MIN_COVERED, "table-universe searches",
        "the theorem about the code AS IT IS (every rule the searcher stored, foreign parents included, is handed back); "
        "verdict = search_hyps_b && fpack_coversb of the extracted run_c14 (both part of the compared output); "
        "fpack_coversb false on %d cases" % ncov0))
    res.append(hyps.coverage_check(
        "C14_search_stored_rules_handed_back_x", xwflags, MIN_COVERED_WORDS, "word-universe searches (tabulated)",
        "as above, on the tabulation"))
    flags, why_not, npk = [], {}, 0
    wflags, wwhy, wpk = [], {}, 0
    for case, (r, _, _) in zip(ctx.cases, ctx.impl_res):
        hb = r.get("hyp")
        if not hb:
            continue
        if case["kind"] != "table":
            wflags.append(bool(hb[0]))
            wpk += len(r["pair"][0].get("packets", []))
            for m in hyps.missing(hb, "search")[:1]:
                wwhy[m] = wwhy.get(m, 0) + 1
            continue
        flags.append(bool(hb[0]))
        npk += len(r["pair"][0].get("packets", []))
        for m in hyps.missing(hb, "search")[:1]:
            why_not[m] = why_not.get(m, 0) + 1
    nword = sum(1 for c, (r, _, _) in zip(ctx.cases, ctx.impl_res) if c["kind"] != "table" and "pair" in r and not r.get("hyp"))
    res.append(hyps.coverage_check(
        "C14_search_stored_rules_handed_back", flags, MIN_COVERED, "table-universe searches",
        "not covered because of: %s; verdict = search_hyps_b of the extracted run_c14 on the table and the %d packets "
        "the real queue handed out, equal to the Python predicates on every case (part of the compared output); "
        "%d word-universe searches without a tabulation: hypotheses not evaluated" % (why_not or "-", npk, nword)))
    res.append(hyps.coverage_check(
        "C14_search_stored_rules_handed_back", wflags, MIN_COVERED_WORDS, "word-universe searches (tabulated)",
        "not covered because of: %s; verdict = search_hyps_b of the extracted run_c14 on the TABULATION of the word "
        "search (harness/universes/words_c14.py Tabulator: pack strategies and what factories yield applied to the "
        "labelled classes and the parents of ready rules) with the real StrategyPack's initial / inferral / expansion / "
        "verification / symmetry lists and the %d packets the real queue handed out, equal to the Python predicates on "
        "every case" % (wwhy or "-", wpk)))
    res.append(("information: RecomputingDict lookups", True,
                "%d could not recompute (since fix 59cdf67 only where the cached emptiness changed between storing and "
                "looking up: universes breaking the contracts); %d handed back another strategy than the "
                "stored one (both reproduce the rule); %d gave a NEW label to a class the searcher never saw, %d filled the "
                "emptiness cache (side effects on the class database, rolled back by the harness)" % (nfail, nother, nalloc, nfill)))
    return res


RULE = (
    "70% table universes (harness/universes/table.py via the C04 generator: 2-10 integer classes, factories with eager/"
    "lazy ready rules and foreign parents, verification rules with children, symmetries, inferral chains, self-"
    "equivalences; strong / weak / wild emptiness regimes; 12% iterative packs), searched to queue exhaustion packet by "
    "packet or by do_level, expand_verified on/off, classes compressed or not, has_specification() also asked for real "
    "every 1 or 3 packets in some cases; 30% word universes (the repository's example classes; the 18 packs of "
    "words_ext plus 10 packs of words_c14 whose verification strategies apply to classes other strategies also expand: "
    "non-atom verification with ExpansionStrategy as initial strategy, prefix-length verification, with symmetries, "
    "inferral, factories yielding rules with a foreign parent, one-way equivalences, iterative), random start classes, "
    "searched as auto_search does until a specification exists plus 0-9 further packets (at most 30 packets). Every universe is searched twice, "
    "with RuleDB and with RuleDBForgetStrategy; after EVERY ruledb.add: key sets of both stores, __iter__, len, "
    "is_verified of every label, the calls made on the equivalence database / queue / class database; at every "
    "stride-th insertion (stride 1 in 35% of the quick cases and always in the thorough tier), at the first two and at "
    "the last one additionally has_specification(), contains() on stored keys, permuted children and non-stored pairs, "
    "and EVERY stored key looked up in both databases with the strategy re-applied to the parent class (two-way "
    "demanded for the equivalence store). In 25-35% of the cases the logged rules are afterwards fed AGAIN, shuffled and "
    "with repetitions, to fresh databases of both kinds attached to the finished searcher, with the same comparisons; at "
    "the end get_specification_rules() and store.pop(key) are compared. "
    "Non-trivial: >= 4 labels, >= 4 insertions, >= 2 full comparisons, rules stored at the end."
)
TECHNIQUE = ("Coq proof over an executable store-generic model of the two databases (induction over arbitrary histories) + "
             "extracted-model/implementation correspondence on real searches (stored keys, equivalence-database and queue "
             "calls, emptiness cache and is_verified of every label after every insertion; has_specification / contains / "
             "lookups at sampled insertions); "
             "the table hypotheses of the composed theorems C14_search_stored_rules_handed_back(_x) are decided per "
             "table-universe case by an extracted decider (verdict compared with the harness's predicates on every such "
             "case; covered fraction reported and enforced)")
TRUSTED = [
    "modelled, not verified: rule_db/base.py (RuleDBBase.add, _clean_labels, contains, __iter__; RuleDB's dicts) and "
    "rule_db/forget.py (RecomputingDict: _flatten/_unflatten, __getitem__, __setitem__, __delitem__, __contains__, "
    "__iter__) - hand-written Gallina model RuleDB/Model.v over the strategy table of Searcher/Model.v and the class "
    "database model of C15, tied by this correspondence",
    "the equivalence database is a shared component: the model records the calls add makes on it; is_verified of every "
    "label after every insertion is COMPUTED by the model - the C06 model of EquivalenceDB (Equiv/Model.v) fed with those "
    "calls and with the calls the searcher's own has_specification() made in between (connect_cycles / set_verified, "
    "logged from the real run: the environment's move) - and compared for both databases, besides the oracle's "
    "comparison of the two real databases; has_specification is computed by the model from the stored "
    "keys with the representatives equivdb[label] replayed from the real run (Tree/Model.v, the C05 model; "
    "C14_same_has_specification_real_classes instantiates them with C06's representative function)",
    "the harness rolls back the side effects observations have on the search: has_specification()/is_verified() are "
    "asked on the real database and the equivalence database is restored afterwards; every lookup in the memory-saving "
    "database is followed by a restore of the class database (a lookup can fill the emptiness cache and even give a new "
    "label to a class the searcher never saw)",
    "word universes reach the model through a tabulation (harness/universes/words_c14.py Tabulator): every strategy of "
    "the pack applied to every labelled class",
]
ASSUMPTIONS = [
    "strategies are pure functions of the class; equal strategy objects are the same strategy",
    "the reproduction half of the property is demanded for universes honouring the strategy contracts of "
    "Searcher/Contracts.v (c04.strong_contract, the same predicate as the Coq contractsb: a possibly_empty=False strategy "
    "has no empty child on a non-empty class, nor on an empty one if its rules go through add_rule; symmetries preserve "
    "emptiness) and whose symmetry rules are unary: otherwise the cached emptiness "
    "of a class can change between storing and looking up, in both databases alike",
    "C14_search_stored_rules_handed_back_x (the code as it is) additionally assumes that no factory item names a "
    "verification strategy (twoway_faithful) and that the pack the memory-saving database replays contains the "
    "strategies the searcher applies itself (queue pack, verification strategies, symmetries: fpack_coversb, decided "
    "in-run, true by construction of StrategyPack.__iter__); it has NO own-parent restriction. The theorems without "
    "_x are about the code before fix 59cdf67 (own-parent rules only)",
    "the table hypotheses of C14_search_stored_rules_handed_back (pe_contract, sym_contract, sym_unary, items_plain => "
    "twoway_faithful) and packets_in are DECIDED on every table-universe case: the extracted run_c14 evaluates "
    "search_hyps_b (Searcher/Deciders.v, sound by search_hyps_sound; C14_search_stored_rules_handed_back_decided "
    "restates the theorem over it) on the table of the case and on the packets the real DefaultQueue handed out "
    "(recorded by a subclass of the queue); the plugin computes the same bits with c04.py's predicates and the two are "
    "part of the compared output. The theorem covers a table-universe case only where the verdict is true: " + F14 +
    " of the table-universe searches (quick tier, seeds 0-2; extra_checks fails below 70%); the others break pe_contract "
    "(weak / wild emptiness regimes, most of them), sym_contract or sym_unary (a factory used as a symmetry) on purpose "
    "and exercise robustness only. packets_in and items_plain hold by construction (real queue; factories hide plain "
    "strategies only): a false verdict there is an oracle failure. WORD universes (30% of the cases): the same deciders "
    "are evaluated on the TABULATION of the word search (the table the database models run on: every pack strategy "
    "and every strategy a factory yields applied to every labelled class and to the parents of ready rules) completed "
    "with the real StrategyPack's initial / inferral / expansion / verification / symmetry lists in the tabulation's "
    "strategy ids and the packets of the real queue; verdicts of Coq and Python are compared on every word case. "
    "Covered: " + F14W + " of the word searches (extra_checks fails below 40%). The ONLY failing hypothesis is clause (b) of "
    "pe_contract (a possibly_empty=False strategy whose rules go through add_rule has no empty child on an EMPTY class "
    "either): the tabulation applies every pack strategy to every labelled class, also to labelled classes that are "
    "empty, and the example's decomposition strategies declared possibly_empty=False (RemoveFrontOfPrefix, "
    "SwapLettersOneWay, RemoveFrontLetterwise, PermuteLettersOneWay) split an empty class into empty children; clause "
    "(a) (non-empty parent) never failed, and in 120 replayed word searches the real queue never handed out a packet "
    "for an empty class, i.e. the search never makes the offending applications - the hypothesis of the theorem is "
    "stronger than what these searches need, so those cases are NOT covered by it (tag only); sym_contract, sym_unary, "
    "items_plain and packets_in held on every word case and a false verdict on one of them is an oracle failure. "
    "_strong(case) still answers True for every word case without looking (the oracle demands reproduction there "
    "whatever the pe_contract verdict of the tabulation); no check runs the searcher model on a "
    "tabulated word search, so the composed theorem reaches a word search only modulo the trusted Tabulator",
]
LEVEL_TEXT = (
    "Theorems C14_* (coq/theories/Props/C14.v, all closed under the global context) over RuleDB/Model.v: ONE database "
    "(RuleDBBase.add, _clean_labels, contains, __iter__) generic in its two stores, instantiated with dicts (RuleDB) and "
    "with RecomputingDict (RuleDBForgetStrategy; __getitem__ replays EmptyStrategy and the pack on the classes of the "
    "key and then - since fix 59cdf67 - on every other labelled class: rec_getitem_x T (other_labels d k), THE CODE AS "
    "IT IS and the function the extracted model runs; theorems about it carry the suffix _x) over any strategy table "
    "and the C15 class-database model. C14_same_keys_same_answers: for EVERY history of "
    "add calls (any labels, any rule), direct store assignments/deletions and arbitrary changes of the class database "
    "in between, after every event both databases hold the same keys in both stores, made - inside add - the same calls "
    "on the equivalence database and on the queue (has_specification() itself issues further set_verified calls in "
    "store-iteration order: those are not in the model's call list, the real databases are compared), left the same class database and "
    "exception status, answer every membership query alike, and has_specification (the C05 model of "
    "rules_up_to_equivalence + prune/iterative_prune) is the same for every representative function and every order "
    "in which the memory-saving SET is iterated; C14_has_specification_marks_same_labels: it marks the same set of "
    "labels verified; C14_same_has_specification_real_classes: the free representative function instantiated - the "
    "two equivalence databases, fed the same calls by add (and whatever the rest of the program adds in the same way, "
    "e.g. connect_cycles()), are in the SAME state s of the C06 model, equivdb[l] is C06's repf s (equal exactly for "
    "labels of one class: C06_representative_function), so same has_specification / same marked labels is about the "
    "real equivalence classes, and is_verified is one function of that state (C06_verified); "
    "C14_has_specification_leaves_same_is_verified: has_specification() then hands the keys of the two pruned "
    "dictionaries (same key set) to set_verified in DIFFERENT orders (dict vs set iteration) - the two resulting states "
    "answer is_verified alike for every label (RuleDB/VerifiedOrder.v: set_verified never changes the partition, a label "
    "is verified iff some label of its class was marked). "
    "C14_contains: contains(start, ends) <-> (start, sorted(ends)) is a stored key, both databases, "
    "every pair. THE LOOKUP AS IT IS (C14_all_labels_replayed: the replayed labels are ALL labels of the class "
    "database): C14_recompute_reproduces_x: whatever RecomputingDict.__getitem__ hands back, re-applied to the class "
    "labelled key[0], is filed under the key again (two-way for the equivalence store) and comes from a pack strategy "
    "applied to some labelled class; C14_recompute_succeeds_x: it hands a strategy back whenever some strategy of the "
    "pack (or the empty strategy) produces such a rule on ANY labelled class; C14_recompute_outcomes_x: KeyError iff "
    "the key is not stored (any key, nothing touched), RuntimeError only if NO strategy of the pack produces the rule "
    "on ANY labelled class, never another exception; C14_lookup_side_effects_x: a lookup only extends the class "
    "database and keeps labels and is_empty answers of known classes; C14_fix_keeps_old_answers: whatever the lookup "
    "before 59cdf67 handed back the present one hands back. C14_dict_add_reproduces / "
    "C14_stored_rule_is_handed_back_x: add called under add_pre (start = label of the rule's parent, ends = labels of ALL "
    "its children in the class database at call time) files the rule under "
    "the key its own strategy reproduces; the dict returns that strategy; the memory-saving database hands back a "
    "reproducing strategy right after the insertion and in every later state that kept labels and is_empty answers, if "
    "a pack strategy produces the rule on SOME class labelled at insertion time (no own-parent restriction: factory "
    "rules with a foreign parent are covered). [Kept, about the code BEFORE 59cdf67 (rec_getitem, classes of the key "
    "only): C14_recompute_reproduces / _succeeds / _outcomes, C14_lookup_side_effects, C14_stored_rule_is_handed_back "
    "(own parent class only), C14_search_stored_rules_handed_back(_decided) (own-parent rules only), and the historic "
    "witness C14_every_stored_rule_handed_back_refuted (the foreign-parent instance: RuntimeError before the fix, "
    "strategy 0 handed back by the code as it is); C14_repair_reproduces / C14_repair_hands_back: the same for EVERY "
    "list of extra labels.] C14_truthful_caches_keep_answers + "
    "C14_search_states_keep_answers: any two PACKET-BOUNDARY states of a search (C04 searcher model, tables honouring the "
    "two strategy contracts of Searcher/Contracts.v - restated, the former pair was contradictory when a symmetry has "
    "an entry on an empty class -, packets of pack strategies) are such states; C14_search_stored_rules_handed_back_x "
    "(composition with C04 through RuleDB/SearchHist.v: search_gives_add_hist_prov = C04_search_gives_add_hist plus the "
    "PROVENANCE of every recorded rule, now carried by the invariant of the searcher model - Searcher/ProofsCore.v prov, "
    "Searcher/Proofs.v used: the rule object came from a strategy the queue handed out, a verification strategy or a "
    "symmetry, applied to a class labelled at that time): for EVERY ruledb.add event of EVERY "
    "run of the searcher model on a pruning database (mode 0 = the DictStore searcher model; by "
    "C14_same_keys_same_answers the memory-saving database holds the same keys) - also one made in the middle of a "
    "packet, also a factory rule with a FOREIGN parent - add_pre held at call "
    "time and, in the state the run is in now (whole packets done, or where it died / ran out of fuel), the lookup of "
    "the code as it is hands back a reproducing strategy for the key of "
    "that call from any store still holding it (C14_search_own_stores_handed_back_x: in particular from the store the "
    "run itself holds); hypotheses: the contracts, symmetry rules are unary, no factory item names a verification "
    "strategy, and the replayed pack contains the queue pack, the verification strategies and the symmetries - NO "
    "own-parent hypothesis, no hypothesis on where the rule came from; "
    "C14_search_stored_rules_handed_back_x_decided: the same with ALL hypotheses replaced by "
    "search_hyps_b T pack ps = true (Searcher/Deciders.v) and fpack_coversb T pack fpack = true (RuleDB/Model.v), the "
    "booleans the extracted run_c14 evaluates on every "
    "table-universe case (table of the case, packets of the real queue, pack order of the real StrategyPack; compared "
    "with the plugin's Python verdicts by "
    "the core's diff) - the composed theorem covers exactly the cases where both are true: " + F14 + " of the "
    "table-universe searches (tags thm:C14_search_stored_rules_handed_back:*, extra check covered_by_theorem) and " + F14W +
    " of the word-universe searches (evaluated on their tabulation with the real pack; the rest fail clause (b) of "
    "pe_contract on labelled empty classes the search never expands); "
    "C14_searcher_model_uses_dict_store: one ruledb.add of the C04 searcher model and of this model do "
    "the same to class database and key sets (the one-step lemma the composition iterates). "
    "The model is tied to rule_db/base.py and rule_db/forget.py by "
    "running real searches twice (RuleDB / RuleDBForgetStrategy) and comparing with the extracted model: after EVERY "
    "insertion the key sets of both stores in both databases, equivalence-database/queue calls, the emptiness cache and "
    "is_verified of EVERY label in both databases (computed by the model: the C06 model of the equivalence database fed "
    "with the calls of add and with the connect_cycles / set_verified calls the searcher's own has_specification() made "
    "in between, taken from the real run as the environment's move); "
    "at SAMPLED insertions only (every insertion in 35% of the quick cases, else every 2nd-5th + first two + last) "
    "has_specification, contains queries and every stored key looked up in both databases with the strategy "
    "re-applied; an independent Python oracle checks the property statement on the two real databases - reproduction "
    "only for TABLE universes honouring the contracts (c04.strong_contract = Coq contractsb, + unary symmetry rules; "
    "the same bits the extracted deciders print for the case) - for word universes reproduction is demanded whatever "
    "the verdict of their tabulation (only pe_contract clause (b) ever fails there, on applications the search never "
    "makes) - and "
    "non-empty parents. No finding of C14 is open (forget-foreign-parent-outside-key was fixed by 59cdf67; the model "
    "follows the fixed code)."
)
LEVEL_NOTE = (
    "Trusted: Coq kernel, extraction + OCaml driver, the harness (logging wrappers, rollback of observation side effects, "
    "tabulation of word universes; the harness reads ClassDB's three lists and RuleDBBase.equivdb/_pruned_dict to take and "
    "restore snapshots). Modelled not verified: base.py / forget.py (tied by the correspondence). The "
    "equivalence database is C06's model (Equiv/Model.v), composed here: the theorems say both databases make the SAME "
    "calls on it, hence are in the same state of that model (C14_same_has_specification_real_classes), and that "
    "has_specification marks the same SET of labels; the run computes is_verified after every insertion from that model. "
    "That the set_verified calls has_specification() itself issues, arriving in a different order in the "
    "two databases (dict vs set iteration), leave the same observable state is "
    "C14_has_specification_leaves_same_is_verified (over the C06 op history; has_specification() is not a step of the "
    "gen_run histories of theorem 1); the run additionally checks each real database against the model "
    "fed with that database's own call order. "
    "Histories of theorem 1 contain add, store assignment/deletion and class-database changes; "
    "MutableMapping.pop on RecomputingDict (= lookup, then delete; no longer used by the library since e80f5df) is "
    "compared on the real stores by the oracle only. The reproduction theorems need labels and is_empty answers to be "
    "stable between storing and looking up (pres): proved for searches on tables honouring the contracts of "
    "Searcher/Contracts.v (a possibly_empty=False strategy has no empty child on a non-empty class, nor on an empty one "
    "if its rules go through add_rule; symmetries preserve emptiness); the oracle demands "
    "reproduction only for such universes and for non-empty parent classes, as the property says. The model follows the "
    "code AS IT IS since fix 59cdf67 (fallback = 1: rec_getitem_x T (other_labels d k); VERIF_C14_FALLBACK=0 runs the "
    "model of the code before the fix, which the theorems without _x describe). Reverting 59cdf67 is reported "
    "(RuntimeError of the forget database on foreign-parent keys: oracle failure and model mismatch). Which of several reproducing "
    "strategies RecomputingDict returns, and its side effects on the class database (new labels for foreign parents, "
    "emptiness cache: C14_lookup_side_effects), are modelled but deliberately NOT compared with the code (a harmless "
    "reordering of the replay would change them); the evidence only counts how often they occur."
)
