"""C18 — JSON round trips preserve specifications, rules, packs, strategies, bijections."""
import copy
import hashlib
import json

ID = "C18"
TITLE = "JSON round trips preserve specifications, rules, packs, strategies, bijections"
COQ_PROPS = "Props/C18.v"
COQ_RUN = ("Json.Run", "run_c18")
GEN_TARGETS = []
N = {"quick": 2500, "thorough": 16000}
RULE = (
    "REAL objects of /repo, built by deterministic recipes: (wspec 25%) specifications found by level-by-level "
    "searches over word classes (example.py's AvoidingWithPrefix) with RuleDB, RuleDBForgetStrategy, "
    "RuleDBForest(reverse=True/False) and 10 pack shapes (example pack, strategies with settings, generic strategy, "
    "symmetry, inferral, factory yielding strategies / ready rules / rules of another class — the latter forces "
    "reverse rules —, brute-force verification with settings, iterative, a strategy whose settings are containers: a "
    "list and a dictionary with nested lists/dictionaries, and two shapes built from strategy classes whose from_dict "
    "POPS the settings it reads - the library's own convention - (harness/universes/c18_pop.py): ExpandAfter, one "
    "configuration per letter, so that the rules of ONE specification hold several configurations of one strategy "
    "class; several configurations of a popping union / product / verification strategy / factory in one pack), "
    "a few sizes counted first so that lazily "
    "added empty rules exist; (tspec 13%) specifications of random table universes (reverse rules, equivalence of "
    "reverse rules, equivalence paths, verification rules with children); (gspec 5%) specifications built DIRECTLY "
    "from rule objects over random context-free grammar classes (harness/universes/c18_gram.py: unions, products with "
    "repeated factors, single-child unions and unions with an empty alternative as equivalence rules, paths of "
    "several rules, strategy objects shared by all rules or one per rule, explicit or lazily added empty rules, "
    "group_equiv on/off); (rule 14%) single rules taken from all three kinds of specifications and their reverse / "
    "equivalence / reverse-then-equivalence forms, the first rule whose reverse rule (idx > 0 when possible) is an "
    "equivalence as EquivalenceRule(ReverseRule), paths through reverse rules; (strategy 16%) every strategy "
    "class with default and non-default settings (scalars and containers), compared with a variant (one setting or "
    "flag changed — for containers an element added or the container nested —, other class, "
    "created through a subscripted generic alias); (pack 11%) packs incl. symmetries/iterative, up to 4 expansion "
    "sets with up to 3 strategies each, and a variant; "
    "(bij 16%) bijections by three recipes: ParallelSpecFinder + Bijection.construct between word classes (one pack); "
    "Bijection.construct of two word specifications searched SEPARATELY, the two classes drawn from groups of binary "
    "pattern sets with the same counting sequence (brute-forced), the two packs possibly different (other child order, "
    "inferral or symmetry steps on one side only); Bijection.construct of two random PRESENTATIONS of one abstract "
    "grammar (children permuted, products with repeated factors, sub-grammars shared on one side and copied up to 3 "
    "times on the other — so that one domain class is matched with several codomain classes and vice versa —, "
    "equivalence steps inserted on one side only, products whose constructor hands index data (nested JSON values) "
    "to the isomorphism). About a quarter of the bijections have a domain class matched with >= 2 codomain "
    "classes, a fifth the converse, 60% a non-identity child order, 14% index data, a quarter equivalences on one "
    "side only (tags in the distribution). The original and the reloaded bijection are compared with map and "
    "inverse_map on ALL objects of the two root classes (enumerated by the classes, not by the specifications) of "
    "sizes 0..N, N >= 5 the first size at which a probe copy of the original has looked up every entry of its order "
    "map in both directions (tag order-map-fully-exercised; otherwise up to size 10 / 600 objects). "
    "A quarter of the spec / "
    "rule cases is compared with ANOTHER specification / rule (== must be False unless classes, forms and strategies "
    "agree). Start classes are non-empty (the searcher assumes it). A third of the remaining cases carry a "
    "mutation of the JSON document — ineffective ones count as pristine — (unknown class_module / class name, dropped or extra key, rule_class swapped, "
    "changed idx, reversed path, permuted rules, rules of empty classes removed so that get_rule re-adds them, renamed order key, permuted classes array). For every case the "
    "model and the implementation are compared on to_jsonable() (structurally), from_dict(J) (descriptor of the "
    "result or 'raised'), __eq__ in both directions (not for bijections, which define no __eq__), and on the VERDICT "
    "BITS: run_c18 decides the hypotheses of the round-trip theorem of the case's kind on the descriptor it receives "
    "(strat_ok; rule_ok + rule_strats_ok; pack_ok; the 4 conjuncts of spec_wf; the 11 conjuncts of bij_wf) and appends "
    "them to its output, the plugin recomputes them in Python from the same encoded data (rule_ok is not recomputed: "
    "expected constant 1) and appends them to the implementation-side output, so the two verdicts are diffed on every "
    "case; extra_checks counts `covered_by_theorem <theorem>: k of n` per kind. Non-trivial: specification with >= 4 rules, a rule that is "
    "not a plain Rule/VerificationRule, a strategy with settings, a pack with >= 3 strategies, or a bijection. "
    "SEVERAL ROUND TRIPS PER CASE IN ONE PROCESS: when a case has an `other` object (70% of the strategy cases - mostly "
    "another configuration of the same class -, 60% of the packs, a quarter of the specifications and rules) that object "
    "goes through to_jsonable/from_dict FIRST and must come back == itself; then x; then x's document is loaded a second "
    "time and must give the same object (tags from_dict-pops-settings, several-configurations-of-one-strategy-class, "
    "other-object-round-tripped-first). Worker processes are long-lived, so state kept by the loading code across "
    "from_dict calls also meets the later cases of the same worker."
)
TECHNIQUE = (
    "Coq proof (structural induction over rule forms, dictionaries as association lists, decimal keys) + "
    "extracted-model/implementation correspondence on real objects + independent behavioural oracle"
)
LEVEL_TEXT = (
    "Theorems C18_* (coq/theories/Props/C18.v): for every class codec that round-trips, every table of strategy "
    "classes whose from_dict honours the documented contract, every decomposition / reversibility / emptiness "
    "behaviour: from_dict(to_jsonable(x)) reproduces x structurally up to the instance attribute __orig_class__ "
    "(same form, same nested original rules, same idx, same strategies and classes, same classes in the same order "
    "with the same rule each) for strategies, all five rule forms arbitrarily nested, packs and specifications; the "
    "result is == x in both directions (under the further hypotheses strat_dict_ok / pack_dicts_ok / spec_dicts_ok: "
    "distinct setting keys and no instance attribute but __orig_class__ added) and identical to x when no strategy "
    "instance carries __orig_class__. Every "
    "specification the constructor (group_equiv=False) builds from rules that went through their constructors "
    "satisfies the hypotheses, lazily added empty rules included, and the constructor adds only plainly created "
    "strategies. Bijections, UNDER bij_wf (spec_wf of both specifications, distinct keys in the order map and in the "
    "index data, every key of the index data is a key of the order map): both specifications reproduced and every "
    "entry of the order map / index data preserved "
    "through the classes array and the decimal object keys (int(f'{n}') = n proved). Strategy equality is a function "
    "of kind (class) and settings (flags + further settings) only — how the instance was created is irrelevant. "
    "SAME ENUMERATION (C18_roundtrip_same_enumeration, connected to C01's evaluation model Spec/Eval.v): for ANY type "
    "of term tables, any labelling of the classes and any semantics `sem` turning a rule object into its term operator "
    "that (assumption on strategies) is a deterministic function of the rule form, classes, idx and the strategies' "
    "kind + settings - i.e. does not read __orig_class__ - and whose operators depend on their providers only through "
    "the values returned, the reloaded specification has the same root, the same classes in the same order and `eval` "
    "returns the same table for every fuel, class and size; more generally any two specifications of the same "
    "structure do (C18_same_structure_same_enumeration); composed with C01's conclusion: if the original evaluates a class to "
    "the true table at every size (what C01_spec_correct / _constructors / the forest pipeline conclude), so does the reloaded "
    "object, with the same budgets (C18_roundtrip_still_correct, applied); and every per-rule observable that does not read "
    "__orig_class__ (get_equation, formal_step ..) has the same value class by class "
    "(C18_roundtrip_same_rule_observables). Applied examples also cover a StrategyFactory class (no flags written) and "
    "the AtomStrategy, alone, in a pack with two configurations of the factory, in a rule and in a specification. "
    "The hand-written model is tied to the code by comparing to_jsonable, from_dict and == on real objects. "
    "HYPOTHESES DECIDED PER CASE (Json/Deciders.v; soundness `decider = true -> hypothesis`: C18_strat_ok_decided, "
    "C18_rule_strats_ok_decided, C18_pack_ok_decided, C18_spec_wf_decided, C18_bij_wf_decided; the theorems with the "
    "hypothesis replaced by its decider: C18_spec_roundtrip_decided, C18_bijection_roundtrip_decided; soundness of the "
    "bits run_c18 PRINTS at exactly the instantiation of the user-code variables run_c18 uses: "
    "C18_run_bij_verdict_sound, C18_run_spec_verdict_sound, C18_run_small_verdicts_sound). A round-trip theorem is "
    "claimed for a compared case only when all bits of its kind are 1. MEASURED (quick tier, all cases with an "
    "object): bij_wf on 309 of 309 / 297 of 297 / 273 of 273 bijections (seeds 0 / 1 / 2), spec_wf on 848 of 848 / "
    "892 of 892 / 904 of 904 specifications, rule_ok + rule_strats_ok on 304 of 304 / 280 of 280 / 301 of 301 rules, "
    "strat_ok on 422 of 422 / 420 of 420 / 394 of 394 strategies, pack_ok on 293 of 293 / 262 of 262 / 267 of 267 "
    "packs; extra_checks fails below 97% (bijections, specifications) / 95% (rules, strategies, packs) or when fewer "
    "than 150 / 400 / 140 / 200 / 130 such cases occur in a full quick tier. For bijections - all of which the "
    "library constructed and serialised itself - a 0 bit is additionally an ORACLE failure; for the other kinds it "
    "only removes the case from the count. The two codec hypotheses of the Section (class == is Leibniz; "
    "from_dict(to_jsonable(c)) = c for classes) are NOT per-case verdicts: in the run the first holds by "
    "Deciders.json_eqb_spec (classes are compared as JSON documents), the second remains a contract on the class."
)
LEVEL_NOTE = (
    "Trusted: Coq kernel, extraction + OCaml driver, the harness (descriptor extraction from Python objects, "
    "JSON<->sx conversion, tables of user behaviour). Modelled not verified: the (de)serialisation code itself. "
    "Not modelled: labels (_enforce_labels), _group_equiv_in_path (from_dict uses group_equiv=False), the warning for "
    "children that differ from the saved ones, AlreadyVerified, ProofTree JSON; that counts/objects/equations of the "
    "reloaded object agree is C18_roundtrip_same_enumeration / _same_rule_observables UNDER the stated assumption that "
    "a rule's counting/generating semantics is a function of its form, classes and strategies' kind + settings (a "
    "strategy with hidden state that to_jsonable does not write is outside it); on the real code they are compared by "
    "the oracle. The model has no state shared between from_dict calls: an implementation that keeps such state "
    "(e.g. interning loaded strategies) is only met by cases that load several configurations in one process. Bijections: that the "
    "maps of the reloaded bijection equal the original's is decided by the oracle on all objects up to the size that "
    "exercises the whole order map (the theorem states that every entry of order map and index data is reproduced; "
    "ParseTreeMap is not modelled here). Index data reaches no map of the five modelled rule forms "
    "(only user subclasses of the abstract NonBijectiveRule consume it): its round trip is checked by the model "
    "correspondence (document and reloaded _index_data), not by the map comparison. Nested dictionaries inside "
    "strategy settings are generated with sorted keys (the model compares nested objects in order). "
    "Per-case verdicts: strat_ok is decided w.r.t. the MODEL'S emulation of the class's from_dict (tables: `cls()` / "
    "`cls(**d)` with the instance defaults); the oracle evaluates the same hypothesis on the REAL code (every distinct "
    "strategy inside the object of the case is dumped and loaded by AbstractStrategy.from_dict and must come back with "
    "the same class, flags and settings) and FAILS when the two answers differ; rule_ok is decided "
    "by the model only (the Python side expects 1 because the library built every generated rule through its "
    "constructor; a 0 would show as a model/implementation mismatch); the remaining conjuncts (distinct keys, "
    "spec_closed via the model's rule_attrs, the three order-map / index-data conjuncts) are computed on both sides."
)
TRUSTED = [
    "modelled, not verified: to_jsonable/from_dict/__eq__ of specification.py, strategies/rule.py, strategies/strategy.py, "
    "strategies/strategy_pack.py, isomorphism.py (Bijection) — hand-written Gallina model Json/Model.v tied by this correspondence",
    "user code (class codec, strategy from_dict, decomposition_function, is_reversible, can_be_equivalent, is_empty) enters the "
    "executable model as tables extracted from the real user code for the objects of each case",
    "json.dumps/json.loads (only used to copy documents; keys of Python dicts are distinct, which the model assumes of objects)",
]
ASSUMPTIONS = [
    "class codec contract: from_dict(to_jsonable(c)) == c; class __eq__ is structural",
    "strategy contract: from_dict(d) restores flags and settings that to_jsonable wrote (example.py's strategies only for default flags); "
    "evaluated on every compared case w.r.t. the model's emulation of from_dict (strat_okb, for every strategy of the case: "
    "measured 1 on all strategy / pack / rule / specification / bijection cases of seeds 0-2, counted by extra_checks) AND by the oracle on "
    "the real from_dict of every distinct strategy of the case; the oracle fails when the two answers differ",
    "decomposition_function is deterministic and independent of non-setting instance attributes",
    "C18_roundtrip_same_enumeration: the term operator of a rule (constructor, shifts, children) is a deterministic "
    "function of rule form, classes, idx and the strategies' kind + settings, and extensional in its providers",
    "round-trip theorems for specifications assume the invariants __init__ establishes: one rule per class keyed by its own class, "
    "children of every rule present (lazily added empty rules), root present - spec_wf / bij_wf, DECIDED on every kind-3 / kind-4 case "
    "(spec_wf_bits / bij_wf_bits printed by run_c18 and recomputed in Python): measured 1 on 848/892/904 of 848/892/904 "
    "specifications and 309/297/273 of 309/297/273 bijections (seeds 0/1/2, quick tier); a case with a 0 bit is not claimed",
]

FLAGKEYS = ["_ignore_parent", "_inferrable", "_possibly_empty", "_workable"]
KINDS = {"strategy": 0, "rule": 1, "pack": 2, "wspec": 3, "tspec": 3, "gspec": 3, "bij": 4}
SPECS = ("wspec", "tspec", "gspec")


def _U():
    from harness.universes import c18_pop  # noqa: F401  (registers its classes in c18_univ.STRATS)
    from harness.universes import c18_univ

    return c18_univ


def _T():
    from harness.universes import table

    return table


def _G():
    from harness.universes import c18_gram

    return c18_gram


# ------------------------------------------------------------------ JSON -> sx
def codes(s):
    return [ord(ch) for ch in s]


def conv(j):
    if j is None:
        return [0]
    if isinstance(j, bool):
        return [1, int(j)]
    if isinstance(j, int):
        return [2, j]
    if isinstance(j, str):
        return [3, codes(j)]
    if isinstance(j, (list, tuple)):
        return [4, [conv(x) for x in j]]
    if isinstance(j, dict):
        return [5, [[codes(k), conv(v)] for k, v in j.items()]]
    raise TypeError("not representable in the model's json: %r" % (j,))


def jcopy(x):
    return json.loads(json.dumps(x))


# ------------------------------------------------------------------ descriptors of Python objects
def _dunder(k):
    return k.startswith("__") and k.endswith("__")


class Ctx:
    """alias numbering + tables of user behaviour, filled while walking the objects of one case"""

    def __init__(self):
        self.aliases = []
        self.classes = {}      # json text -> (desc, obj)
        self.stratcls = {}     # (module, name) -> (class, an instance)
        self.decomp = {}
        self.rev = {}
        self.eqv = {}

    # -- descriptors
    def alias_id(self, v):
        for i, a in enumerate(self.aliases):
            if a == v:
                return i
        self.aliases.append(v)
        return len(self.aliases) - 1

    def strat(self, s, strip=False):
        dd = s.__dict__
        flags = [int(bool(dd[k])) for k in FLAGKEYS] if all(k in dd for k in FLAGKEYS) else []
        user = {k: v for k, v in dd.items() if k not in FLAGKEYS and not _dunder(k)}
        extra = [] if strip else [[codes(k), self.alias_id(v)] for k, v in dd.items() if _dunder(k)]
        self.stratcls.setdefault((type(s).__module__, type(s).__name__), (type(s), s))
        return [codes(type(s).__module__), codes(type(s).__name__), flags, conv(jcopy(user)), extra]

    def cls(self, c):
        j = jcopy(c.to_jsonable())
        k = json.dumps(j)
        if k not in self.classes:
            self.classes[k] = (conv(j), c)
        return self.classes[k][0]

    def rule(self, r):
        from comb_spec_searcher.strategies.rule import (
            EquivalencePathRule,
            EquivalenceRule,
            ReverseRule,
            Rule,
            VerificationRule,
        )

        if type(r) is EquivalencePathRule:
            return [3, [self.rule(x) for x in r.rules]]
        if type(r) is EquivalenceRule:
            return [2, self.rule(r.original_rule)]
        if type(r) is ReverseRule:
            return [4, self.rule(r.original_rule), int(r.idx)]
        if type(r) is VerificationRule:
            self.behaviour(r)
            return [1, self.strat(r.strategy), self.cls(r.comb_class), [self.cls(c) for c in r.children]]
        if type(r) is Rule:
            self.behaviour(r)
            return [0, self.strat(r.strategy), self.cls(r.comb_class), [self.cls(c) for c in r.children]]
        raise TypeError("unknown rule form %r" % type(r))

    def spec(self, sp):
        return [self.cls(sp.root), [[self.cls(k), self.rule(r)] for k, r in sp.rules_dict.items()]]

    def pack(self, p):
        m = lambda l: [self.strat(s) for s in l]  # noqa: E731
        return [codes(p.name), m(p.initial_strats), m(p.inferral_strats), m(p.ver_strats),
                [m(x) for x in p.expansion_strats], m(p.symmetries), int(bool(p.iterative))]

    def bij(self, b):
        return [
            self.spec(b._spec),
            self.spec(b._other),
            [[self.cls(c1), self.cls(c2), [int(v) for v in lis]] for (c1, c2), lis in b._get_order.items()],
            [[self.cls(c1), self.cls(c2), conv(jcopy(v))] for (c1, c2), v in b._index_data.items()],
        ]

    # -- user behaviour of a base rule (asked from the user code, not read from the rule object)
    def behaviour(self, r):
        from comb_spec_searcher.strategies.rule import ReverseRule, Rule

        s, c = r.strategy, r.comb_class
        sk = self.strat(s, strip=True)
        ck = self.cls(c)
        key = json.dumps([sk, ck])
        if key in self.decomp:
            return
        ch = s.decomposition_function(c)
        self.decomp[key] = [sk, ck, [] if ch is None else [[self.cls(x) for x in ch]]]
        try:
            rv = bool(s.is_reversible(c))
        except Exception:  # pylint: disable=broad-except
            rv = False
        self.rev[key] = [sk, ck, int(rv)]
        if type(r) is not Rule:
            return

        def cap(rule):
            try:
                return int(bool(rule.strategy.can_be_equivalent() and rule.constructor.can_be_equivalent()))
            except Exception:  # pylint: disable=broad-except
                return 0

        self.eqv[json.dumps([sk, ck, []])] = [sk, ck, [], cap(r)]
        if rv and ch is not None:
            for i in range(len(ch)):
                try:
                    rr = ReverseRule(r, i)
                except Exception:  # pylint: disable=broad-except
                    continue
                self.eqv[json.dumps([sk, ck, i])] = [sk, ck, i, cap(rr)]

    # -- tables sent to the model
    def tables(self):
        from comb_spec_searcher.strategies.strategy import (
            AtomStrategy,
            EmptyStrategy,
            Strategy,
            StrategyFactory,
            VerificationStrategy,
        )

        U = _U()
        self.strat(EmptyStrategy(), strip=True)
        self.strat(AtomStrategy(), strip=True)
        modes = {c: m for c, m in U.STRATS.values()}
        stab = []
        for (mod, name), (cl, inst) in self.stratcls.items():
            if issubclass(cl, AtomStrategy):
                cat = 2
            elif issubclass(cl, EmptyStrategy):
                cat = 3
            elif issubclass(cl, VerificationStrategy):
                cat = 1
            elif issubclass(cl, Strategy):
                cat = 0
            elif issubclass(cl, StrategyFactory):
                cat = 4
            else:
                continue
            try:
                dflt = cl()
            except TypeError:
                dflt = inst
            d = Ctx().strat(dflt, strip=True)
            stab.append([codes(mod), codes(name), cat, modes.get(cl, 1), d[2], d[3]])
        ctab, etab = [], []
        seen = set()
        for desc, c in self.classes.values():
            mn = (type(c).__module__, type(c).__name__)
            if mn not in seen:
                seen.add(mn)
                ctab.append([codes(mn[0]), codes(mn[1])])
            etab.append([desc, int(bool(c.is_empty()))])
        return [ctab, etab, stab, list(self.decomp.values()), list(self.rev.values()), list(self.eqv.values())]


# ------------------------------------------------------------------ mutations of a JSON document
def _sites(j, acc):
    if isinstance(j, dict):
        if "rule_class" in j:
            acc.append(("rule", j))
        elif "strategy_class" in j:
            acc.append(("strategy", j))
        elif "comb_class" in j:
            acc.append(("class", j))
        for v in list(j.values()):
            _sites(v, acc)
    elif isinstance(j, list):
        for v in j:
            _sites(v, acc)


def mutate(J, mut, kind, word=True):
    """returns (document, must_raise).  mut = [op, i, arg]; word: the strategies honour cls(**d)"""
    J = copy.deepcopy(J)
    op, i, arg = mut
    sites = []
    _sites(J, sites)

    def pick(kinds):
        c = [d for k, d in sites if k in kinds]
        return c[i % len(c)] if c else None

    if op == "module":
        d = pick(("rule", "strategy", "class"))
        if d is None:
            return J, False
        d["class_module"] = "c18.no.such.module"
        return J, True
    if op == "clsname":
        d = pick(("rule", "strategy", "class"))
        if d is None:
            return J, False
        for k in ("rule_class", "strategy_class", "comb_class"):
            if k in d:
                d[k] = "NoSuchThingC18"
        return J, True
    if op == "dropkey":
        tops = {"strategy": [], "rule": [], "pack": ["name", "initial_strats", "inferral_strats", "ver_strats",
                                                     "expansion_strats"],
                "wspec": ["root", "rules"], "tspec": ["root", "rules"], "gspec": ["root", "rules"],
                "bij": ["spec", "other", "order", "index_data", "classes"]}[kind]
        cands = [(J, k, True) for k in tops if k in J]
        if kind == "pack":
            cands += [(J, k, False) for k in ("symmetries", "iterative")]
        for k, d in sites:
            if k == "rule":
                cands += [(d, kk, True) for kk in d]
            elif k == "strategy":
                cands += [(d, kk, True) for kk in ("class_module", "strategy_class")]
                if word:
                    cands += [(d, kk, False) for kk in d if kk not in ("class_module", "strategy_class")]
            elif k == "class":
                cands += [(d, kk, True) for kk in ("class_module", "comb_class")]
        if not cands:
            return J, False
        d, k, must = cands[(i * 7 + arg) % len(cands)]
        d.pop(k, None)
        return J, must
    if op == "extrakey":
        d = pick(("rule", "strategy") if word else ("rule",))
        if d is None:
            return J, False
        d["c18_extra"] = 1
        if "strategy_class" in d:
            U = _U()
            mode0 = {c.__name__ for c, m in U.STRATS.values() if m == 0 and c.__name__ not in ("AtomStrategy", "EmptyStrategy")}
            return J, d.get("strategy_class") not in mode0
        return J, True
    if op == "wrongkind":
        c = [d for k, d in sites if k == "rule" and d.get("rule_class") in ("Rule", "VerificationRule")]
        if not c:
            return J, False
        d = c[i % len(c)]
        d["rule_class"] = "VerificationRule" if d["rule_class"] == "Rule" else "Rule"
        return J, True
    if op == "idx":
        c = [d for k, d in sites if k == "rule" and d.get("rule_class") == "ReverseRule" and "idx" in d]
        if not c:
            return J, False
        c[i % len(c)]["idx"] = arg
        return J, False
    if op == "revpath":
        c = [d for k, d in sites if k == "rule" and d.get("rule_class") == "EquivalencePathRule" and len(d.get("rules", [])) > 1]
        if not c:
            return J, False
        c[i % len(c)]["rules"].reverse()
        return J, False
    if op == "swaprules":
        if kind in SPECS and len(J.get("rules", [])) > 1:
            r = J["rules"]
            a, b = i % len(r), (i + 1 + arg) % len(r)
            r[a], r[b] = r[b], r[a]
        return J, False
    if op == "dropempty":
        # forget the rules of the empty classes: from_dict must add them again lazily (get_rule)
        if kind in SPECS:
            J["rules"] = [r for r in J.get("rules", [])
                          if not (r.get("rule_class") == "VerificationRule"
                                  and r.get("strategy", {}).get("strategy_class") == "EmptyStrategy")]
        return J, False
    if op == "orderkey":
        if kind == "bij" and J.get("order"):
            ks = list(J["order"])
            k = ks[i % len(ks)]
            new = "x7" if arg % 2 else "99"
            J["order"] = {(new if kk == k else kk): v for kk, v in J["order"].items()}
            return J, True
        return J, False
    if op == "swapclasses":
        if kind == "bij" and len(J.get("classes", [])) > 1:
            c = J["classes"]
            a, b = i % len(c), (i + 1 + arg) % len(c)
            c[a], c[b] = c[b], c[a]
        return J, False
    return J, False


# ------------------------------------------------------------------ building the objects of a case
_BUILT = {}


def _tuid(u):
    T = _T()
    uid = "c18_" + hashlib.sha1(json.dumps(u, sort_keys=True).encode()).hexdigest()[:10]
    if uid not in T.UNIVERSES:
        T.UNIVERSES[uid] = dict(u, uid=uid)
    return uid


def _find_spec(sc):
    """sc = {"t": "w", cls, pack, db, seed, warm} | {"t": "t", u, db, seed} | {"t": "g", g, side}"""
    U = _U()
    if sc["t"] == "g":
        G = _G()
        g = sc["g"]
        side = "1" if sc.get("side", 1) == 1 else "2"
        try:
            return G.make_spec(G.register({"prods": g["prods"]}), g["r" + side], bool(g["ge" + side]),
                               bool(g.get("ee")), bool(g.get("share", 1)))
        except Exception:  # pylint: disable=broad-except
            return None
    if sc["t"] == "w":
        try:
            spec = U.search(U.make_class(sc["cls"]), U.make_pack(sc["pack"]), sc["db"], sc["seed"])
        except Exception:  # pylint: disable=broad-except
            return None   # e.g. an empty start class under RuleDB (DESIGN O-1): nothing is handed back
        if spec is not None:
            for n in range(sc.get("warm", 0)):
                try:
                    spec.count_objects_of_size(n)
                except Exception:  # pylint: disable=broad-except
                    break
        return spec
    T = _T()
    uid = _tuid(sc["u"])
    try:
        return U.search(T.TClass(uid, sc["u"]["start"]), U.table_pack(uid), sc["db"], sc["seed"], seconds=3)
    except Exception:  # pylint: disable=broad-except
        return None       # table universes may break engine asserts that other properties own


def _find_bij(case):
    """three recipes: ParallelSpecFinder over two word classes (one pack); two word specifications searched
    separately (packs may differ) handed to Bijection.construct; two presentations of a grammar"""
    from comb_spec_searcher.isomorphism import Bijection

    U = _U()
    if "g" in case:
        return _G().find_bijection(case["g"])
    if case.get("how") == "construct":
        s1 = U.search(U.make_class(case["c1"]), U.make_pack(case["pack"]), case.get("db1", 0), case["seed"])
        s2 = U.search(U.make_class(case["c2"]), U.make_pack(case["pack2"]), case.get("db2", 0), case["seed"])
        if s1 is None or s2 is None:
            return None
        return Bijection.construct(s1, s2)
    return U.find_bijection(U.make_class(case["c1"]), U.make_class(case["c2"]), U.make_pack(case["pack"]),
                            U.make_pack(case["pack"]), case["seed"])


def _from_dict(kind, J):
    from comb_spec_searcher import CombinatorialSpecification, StrategyPack
    from comb_spec_searcher.isomorphism import Bijection
    from comb_spec_searcher.strategies.rule import AbstractRule
    from comb_spec_searcher.strategies.strategy import AbstractStrategy

    J = copy.deepcopy(J)
    if kind == "strategy":
        return AbstractStrategy.from_dict(J)
    if kind == "rule":
        return AbstractRule.from_dict(J)
    if kind == "pack":
        return StrategyPack.from_dict(J)
    if kind == "bij":
        return Bijection.from_dict(J)
    return CombinatorialSpecification.from_dict(J)


def _derive_rule(spec, sel):
    """pick a rule of the specification and derive a form of it; sel = [index, how, idx]"""
    from comb_spec_searcher.strategies.rule import EquivalencePathRule, Rule

    from comb_spec_searcher.strategies.rule import EquivalenceRule, ReverseRule

    rules = list(spec)
    pool = []
    for r in rules:
        pool.append(r)
        if isinstance(r, EquivalencePathRule):
            pool.extend(r.rules)
    how = sel[1]
    if how >= 5:
        # the plain rules hidden inside equivalence / reverse rules as well
        for r in list(pool):
            while isinstance(r, (EquivalenceRule, ReverseRule)):
                r = r.original_rule
                pool.append(r)
    r = pool[sel[0] % len(pool)]
    try:
        if how == 5:
            # the first plain rule (from the selected one on) that has a reverse rule which is an
            # equivalence: EquivalenceRule(ReverseRule(rule, idx)), idx > 0 when possible
            n = len(pool)
            for k in range(n):
                q = pool[(sel[0] + k) % n]
                if type(q) is not Rule or not q.children or not q.is_reversible():
                    continue
                idxs = list(range(len(q.children)))
                idxs = idxs[sel[2] % len(idxs):] + idxs[:sel[2] % len(idxs)]
                for i in idxs:
                    if q.children[i].is_empty():
                        continue
                    rr = q.to_reverse_rule(i)
                    if rr.is_equivalence():
                        return rr.to_equivalence_rule()
            return r
        if how == 6 and type(r) is Rule and r.is_reversible() and r.children:
            # a path through a reverse rule that is an equivalence / a two-step path
            rr = r.to_reverse_rule(sel[2] % len(r.children))
            if rr.is_equivalence() and len(rr.children) == 1:
                if r.is_equivalence() and len(r.children) == 1:
                    return EquivalencePathRule([rr, r])
                return EquivalencePathRule([rr])
            return rr
        if how == 1 and type(r) is Rule and r.is_reversible() and r.children:
            return r.to_reverse_rule(sel[2] % len(r.children))
        if how == 2 and type(r) is Rule and r.is_equivalence():
            return r.to_equivalence_rule()
        if how == 3 and type(r) is Rule and r.is_reversible() and r.children:
            rr = r.to_reverse_rule(sel[2] % len(r.children))
            if rr.is_equivalence():
                return rr.to_equivalence_rule()
            return rr
        if how == 4 and type(r) is Rule and r.is_equivalence() and len(r.children) == 1:
            return EquivalencePathRule([r])
    except (AssertionError, NotImplementedError):
        pass
    return r


def build(case):
    """-> dict(kind, x, J, y, must_raise) ; x is None when the recipe yields no object"""
    k = json.dumps(case, sort_keys=True)
    if k in _BUILT:
        return _BUILT[k]
    if len(_BUILT) > 4000:
        _BUILT.clear()
    U = _U()
    kind = case["kind"]
    x = y = None
    if kind == "strategy":
        x = U.make_strategy(case["s"])
        y = U.make_strategy(case["other"]) if case.get("other") else None
    elif kind == "pack":
        x = U.make_pack(case["pack"])
        y = U.make_pack(case["other"]) if case.get("other") else None
    elif kind in SPECS:
        x = _find_spec(case["spec"])
        y = _find_spec(case["other"]) if case.get("other") else None
    elif kind == "rule":
        sp = _find_spec(case["spec"])
        x = _derive_rule(sp, case["sel"]) if sp is not None else None
        y = _derive_rule(sp, case["other"]) if sp is not None and case.get("other") else None
    elif kind == "bij":
        try:
            x = _find_bij(case)
        except Exception:  # pylint: disable=broad-except
            x = None
    res = {"kind": kind, "x": x, "J": None, "y": y, "must_raise": False, "mutated": False, "pre": None}
    honours = True
    if kind == "strategy" and case.get("other"):
        # example.py's own strategies ignore the dictionary (from_dict mode 0): with non-default flags they
        # do not honour the from_dict contract (ASSUMPTIONS), so their round trip is not demanded
        honours = not (U.STRATS[case["other"][0]][1] == 0 and case["other"][1])
    if x is not None and y is not None and kind != "bij" and honours:
        # several round trips per case in one process: the OTHER object (often another configuration of
        # the same strategy classes) goes through to_jsonable / from_dict BEFORE x does
        try:
            y2 = _from_dict(kind, jcopy(y.to_jsonable()))
            res["pre"] = [bool(y2 == y), bool(y == y2)]
        except Exception as ex:  # pylint: disable=broad-except
            res["pre"] = "raised %s: %s" % (type(ex).__name__, str(ex)[:120])
    if x is not None:
        J = jcopy(x.to_jsonable())
        if case.get("mut"):
            word = not (kind == "tspec" or (kind == "rule" and case["spec"]["t"] == "t"))   # cls(**d) honoured
            J2, must = mutate(J, case["mut"], kind, word)
            res["mutated"] = J2 != J
            res["must_raise"] = must and res["mutated"]
            J = J2
        res["J"] = J
        if y is None:
            try:
                res["y"] = _from_dict(kind, J)
            except Exception:  # pylint: disable=broad-except
                res["y"] = x
    _BUILT[k] = res
    return res


def _desc(ctx, kind, o):
    if kind == "strategy":
        return ctx.strat(o)
    if kind == "rule":
        return ctx.rule(o)
    if kind == "pack":
        return ctx.pack(o)
    if kind == "bij":
        return ctx.bij(o)
    return ctx.spec(o)


def encode(case):
    try:
        return _encode(case)
    except Exception:  # pylint: disable=broad-except
        # the implementation raised while the objects were built or dumped: impl() raises in the
        # same way, which the oracle reports; the model gets nothing to run
        return [[[], [], [], [], [], []], 8, [], [], []]


def encode_with(case, res):
    """The model's input is computed by impl() from the SAME objects it observed (one build per case, in
    the worker): building twice re-runs time-limited searches, which under load could end differently in
    the two runs (one spurious model/implementation mismatch in 7500 cases was seen that way)."""
    if isinstance(res, dict) and res.get("enc") is not None:
        return res["enc"]
    return encode(case)


def _encode(case):
    return _encode_from(build(case))


def _encode_from(b):
    if b["x"] is None:
        return [[[], [], [], [], [], []], 9, [], [], []]
    ctx = Ctx()
    kind = b["kind"]
    dx = _desc(ctx, kind, b["x"])
    dy = _desc(ctx, kind, b["y"])     # (for bijections only walked for the behaviour tables)
    if kind == "bij":
        dy = []
    return [ctx.tables(), KINDS[kind], dx, conv(b["J"]), dy]


# ------------------------------------------------------------------ implementation + observations
def _plain_rule(r):
    from comb_spec_searcher.strategies.rule import EquivalencePathRule, EquivalenceRule, ReverseRule

    if isinstance(r, EquivalencePathRule):
        return all(_plain_rule(x) for x in r.rules)
    if isinstance(r, (EquivalenceRule, ReverseRule)):
        return _plain_rule(r.original_rule)
    return not any(_dunder(k) for k in r.strategy.__dict__)


def _forms(r, acc):
    from comb_spec_searcher.strategies.rule import EquivalencePathRule, EquivalenceRule, ReverseRule
    from comb_spec_searcher.strategies.strategy import EmptyStrategy

    acc.add(type(r).__name__)
    if isinstance(r, EquivalencePathRule):
        if len(r.rules) > 1:
            acc.add("path-of-several-rules")
        for x in r.rules:
            _forms(x, acc)
    elif isinstance(r, (EquivalenceRule, ReverseRule)):
        if isinstance(r, EquivalenceRule) and isinstance(r.original_rule, ReverseRule):
            acc.add("EquivalenceOfReverse")
        if isinstance(r, ReverseRule) and r.idx > 0:
            acc.add("ReverseRule-idx>0")
        _forms(r.original_rule, acc)
    elif isinstance(r.strategy, EmptyStrategy):
        acc.add("EmptyRule")


def _ck(c):
    """an unambiguous text for a class (its own JSON; repr/str of the example class are ambiguous)"""
    return json.dumps(c.to_jsonable(), sort_keys=True)


def _attempt(f):
    try:
        return f()
    except Exception as ex:  # pylint: disable=broad-except
        return "raised " + type(ex).__name__


def _spec_behaviour(sp, word):
    """what a user can observe of a specification"""
    obs = {"str": _attempt(lambda: str(sp)),
           "labels": _attempt(lambda: sorted((_ck(c), sp.get_label(c)) for c in sp.rules_dict)),
           "keys": [_ck(c) for c in sp.rules_dict],
           "nrules": _attempt(sp.number_of_rules)}
    if word:
        obs["counts"] = _attempt(lambda: [sp.count_objects_of_size(n) for n in range(9)])
        def objects():
            out = []
            for n in range(7):
                if sp.count_objects_of_size(n) > 1000:      # (grammar classes can grow very fast)
                    break
                out.append(sorted(sp.generate_objects_of_size(n)))
            return out

        obs["objects"] = _attempt(objects)
        obs["equations"] = _attempt(lambda: sorted(str(e) for e in sp.get_equations()))
        obs["rule_counts"] = _attempt(lambda: [[sp.get_rule(c).count_objects_of_size(n) for n in range(6)]
                                               for c in list(sp.rules_dict)])
    return obs


def _rule_behaviour(r):
    return {"str": _attempt(lambda: str(r)), "formal": _attempt(lambda: r.formal_step),
            "children": _attempt(lambda: [_ck(c) for c in r.children]),
            "shifts": _attempt(lambda: list(r.shifts())), "cls": _ck(r.comb_class),
            "eqv": _attempt(lambda: bool(r.is_equivalence()))}


BIJ_MIN_N, BIJ_MAX_N, BIJ_MAX_OBJS = 5, 10, 600


class _Rec(dict):
    """a dictionary that remembers which keys were looked up"""

    def __init__(self, d):
        super().__init__(d)
        self.hit = set()

    def __getitem__(self, k):
        self.hit.add(k)
        return dict.__getitem__(self, k)


def _bij_plan(x):
    """The objects the two bijections are compared on: ALL objects of the two root classes (the classes' own
    enumeration, not the specifications') of sizes 0..N, N the first size >= BIJ_MIN_N at which a probe copy of
    the ORIGINAL bijection has looked up every entry of its order map, in both directions (entries that no
    object ever uses exist — matches recorded on abandoned branches —: then up to BIJ_MAX_N / BIJ_MAX_OBJS
    objects).  -> (domain objects by size, codomain objects by size, entries used, entries)"""
    from comb_spec_searcher.isomorphism import Bijection

    try:
        probe = Bijection(x.domain, x.codomain, _Rec(x._get_order), dict(x._index_data))
        probe._get_inverse_order = _Rec(probe._get_inverse_order)
    except Exception:  # pylint: disable=broad-except
        probe = None
    dom, cod, total = [], [], 0
    used = entries = 0
    for n in range(BIJ_MAX_N + 1):
        try:
            if n and total + 2 * x.domain.count_objects_of_size(n) > 3 * BIJ_MAX_OBJS:
                break
        except Exception:  # pylint: disable=broad-except
            pass
        d = sorted(x.domain.root.objects_of_size(n))
        c = sorted(x.codomain.root.objects_of_size(n))
        dom.append(d)
        cod.append(c)
        total += len(d) + len(c)
        if probe is not None:
            for f, objs in ((probe.map, d), (probe.inverse_map, c)):
                for w in objs:
                    try:
                        f(w)
                    except Exception:  # pylint: disable=broad-except
                        pass
            used = len(probe._get_order.hit) + len(probe._get_inverse_order.hit)
            entries = len(probe._get_order) + len(probe._get_inverse_order)
        if total > BIJ_MAX_OBJS or (n >= BIJ_MIN_N and (probe is None or used == entries)):
            break
    return dom, cod, used, entries


def _bij_behaviour(b, plan):
    dom, cod = plan[0], plan[1]

    def one(f, w):
        try:
            return str(f(w))
        except Exception as ex:  # pylint: disable=broad-except
            return "raised " + type(ex).__name__

    return {"map": [[str(w), one(b.map, w)] for lvl in dom for w in lvl],
            "inverse_map": [[str(w), one(b.inverse_map, w)] for lvl in cod for w in lvl],
            "order": _attempt(lambda: sorted(((_ck(k[0]), _ck(k[1])), list(v)) for k, v in b._get_order.items())),
            "inv": _attempt(lambda: sorted(((_ck(k[0]), _ck(k[1])), list(v)) for k, v in b._get_inverse_order.items())),
            "dom": _spec_behaviour(b.domain, True)["str"], "cod": _spec_behaviour(b.codomain, True)["str"]}


def _behaviour(kind, o, plan=None):
    if kind in SPECS:
        return _spec_behaviour(o, kind != "tspec")
    if kind == "rule":
        return _rule_behaviour(o)
    if kind == "bij":
        return _bij_behaviour(o, plan)
    return {"repr": repr(o), "str": _attempt(lambda: str(o)), "json": _attempt(lambda: jcopy(o.to_jsonable()))}


def _effective(spec):
    """the (class, settings) a strategy recipe denotes, independently of the implementation"""
    U = _U()
    name, kwargs, _alias = spec
    cl = U.STRATS[name][0]
    import inspect

    full = {}
    for p in inspect.signature(cl.__init__).parameters.values():
        if p.name != "self" and p.default is not inspect.Parameter.empty:
            full[p.name] = p.default
    full.update(U.EFFECTIVE_DEFAULTS.get(name, {}))      # None standing for a fresh empty container
    full.update(kwargs)
    return [name, sorted(full.items())]


def _effective_pack(ps):
    m = lambda l: [_effective(s) for s in l]  # noqa: E731
    return [ps["name"], m(ps["initial"]), m(ps["inferral"]), [m(x) for x in ps["expansion"]], m(ps["ver"]),
            m(ps["sym"]), bool(ps["iterative"])]


def _bij_canon(J):
    """a bijection document with the numbers of the classes array resolved"""
    cl = [json.dumps(c, sort_keys=True) for c in J["classes"]]

    def flat(m):
        return sorted(([cl[int(i)], cl[int(j)]], v) for i, sub in m.items() for j, v in sub.items())

    return {"spec": J["spec"], "other": J["other"], "order": flat(J["order"]),
            "index_data": json.dumps(flat(J["index_data"]), sort_keys=True)}


def _bij_tags(case, x):
    from collections import Counter

    order = x._get_order
    tags = ["bij-gram" if "g" in case else ("bij-word-construct" if case.get("how") == "construct" else "bij-word-parallel")]
    if order:
        if max(Counter(c1 for c1, _ in order).values()) > 1:
            tags.append("domain-class-with-several-codomain-classes")
        if max(Counter(c2 for _, c2 in order).values()) > 1:
            tags.append("codomain-class-with-several-domain-classes")
        if any(list(v) != sorted(v) for v in order.values()):
            tags.append("permuted-child-order")
    if x._index_data:
        tags.append("index-data")
    e1 = sum(1 for r in x.domain if r.is_equivalence())
    e2 = sum(1 for r in x.codomain if r.is_equivalence())
    if e1 != e2:
        tags.append("equivalences-on-one-side-only" if 0 in (e1, e2) else "different-number-of-equivalences")
    return tags


def _config_tags(J):
    """does the document hold a strategy class whose from_dict pops / several configurations of one class?"""
    from harness.universes import c18_pop

    sites = []
    _sites(J, sites)
    conf = {}
    for k, d in sites:
        if k == "strategy":
            conf.setdefault((d.get("class_module"), d.get("strategy_class")), set()).add(json.dumps(d, sort_keys=True))
    tags = []
    if any(n in c18_pop.POP for _, n in conf):
        tags.append("from_dict-pops-settings")
    if any(len(v) >= 2 for v in conf.values()):
        tags.append("several-configurations-of-one-strategy-class")
        if any(len(v) >= 2 and n in c18_pop.POP for (_, n), v in conf.items()):
            tags.append("several-configurations-of-a-popping-class")
    return tags


# ------------------------------------------------------------------ hypotheses of C18_bijection_roundtrip, per case
# Python replica of Json/Deciders.v `bij_wf_bits`, evaluated on the SAME encoded data the extracted model
# receives (res["enc"]).  run_c18 appends the 11 bits it computed to its output for every kind-4 input; impl()
# appends the bits computed here to res["out"], so the core's diff compares the two verdicts on EVERY bijection.
# Replicated: distinct keys, spec_closed (through the model's rule_attrs: class / children of each rule form),
# strat_ok of every strategy inside every rule (the model's table emulation of the class's from_dict, RUN on what
# to_jsonable writes), distinct keys of order map / index data, keys(index data) within keys(order map).
# NOT replicated: rule_ok (= the constructors' asserts, the largest part of the model): the expected bit is the
# constant 1, because every rule of a generated bijection was built by the library through its constructor (the
# same convention as out[4] of the rule / specification kinds); a 0 from the model is a model/implementation
# mismatch.
BIJ_WF_BITS = ["spec:distinct-keys", "spec:closed", "spec:rule_ok", "spec:strategies-honour-from_dict",
               "other:distinct-keys", "other:closed", "other:rule_ok", "other:strategies-honour-from_dict",
               "order-map:distinct-keys", "index-data:distinct-keys", "index-data-keys-within-order-map-keys"]
_FLAG_JSON_KEYS = ["ignore_parent", "inferrable", "possibly_empty", "workable"]


SMALL_THMS = {0: "C18_strategy_roundtrip", 1: "C18_rule_roundtrip", 2: "C18_pack_roundtrip"}
SMALL_BITS = {0: ["strategy-honours-from_dict"], 1: ["rule_ok", "strategies-honour-from_dict"],
              2: ["strategies-honour-from_dict"]}


def _distinct(keys):
    return int(all(k not in keys[i + 1:] for i, k in enumerate(keys)))


def _w_is_empty(tabs, c):
    for d, b in tabs[1]:
        if d == c:
            return bool(b)
    return False


def _w_attrs(tabs, r):
    """Json/Model.v rule_attrs on an encoded rule: (strategy, class, children) or None"""
    f = r[0]
    if f in (0, 1):
        return (r[1], r[2], list(r[3]))
    if f == 2:
        a = _w_attrs(tabs, r[1])
        if a is None:
            return None
        ne = [c for c in a[2] if not _w_is_empty(tabs, c)]
        return (a[0], a[1], [ne[0]]) if ne else None
    if f == 3:
        l = [_w_attrs(tabs, x) for x in r[1]]
        if not l or l[0] is None or l[-1] is None:
            return None
        return (l[0][0], l[0][1], l[-1][2])
    if f == 4:
        a = _w_attrs(tabs, r[1])
        if a is None:
            return None
        ch, idx = a[2], r[2]
        if not -len(ch) <= idx < len(ch):
            return None
        return (a[0], ch[idx], [a[1]] + ch[:idx] + ch[idx + 1:])
    return None


def _w_user_from_dict(tabs, m, n, d):
    """Json/Run.v i_user_from_dict: None = Err, else (flags, user)"""
    ent = next((e for e in tabs[2] if e[0] == m and e[1] == n), None)
    if ent is None:
        return None
    cat, mode, df, du = ent[2], ent[3], ent[4], ent[5][1]
    if len(df) != 4:
        df = None
    if mode == 0:
        return (df, du)
    allowed = ([codes(k) for k in _FLAG_JSON_KEYS] if cat == 0 else [codes("ignore_parent")] if cat == 1 else []) + \
        [kv[0] for kv in du]
    if any(kv[0] not in allowed for kv in d):
        return None

    def get(k):
        return next((kv[1] for kv in d if kv[0] == k), None)

    f = df
    if df is not None and cat in (0, 1):
        f = list(df)
        for i, k in enumerate(_FLAG_JSON_KEYS if cat == 0 else _FLAG_JSON_KEYS[:1]):
            v = get(codes(k))
            if v is not None:
                if v[0] != 1:
                    return None
                f[i] = int(v[1] != 0)
    return (f, [[kv[0], kv[1] if get(kv[0]) is None else get(kv[0])] for kv in du])


def _w_strat_ok(tabs, s):
    """Json/Deciders.v strat_okb"""
    m, n, user = s[0], s[1], s[3][1]
    flags = [int(bool(x)) for x in s[2]] if len(s[2]) == 4 else None
    ent = next((e for e in tabs[2] if e[0] == m and e[1] == n), None)
    if ent is None or ent[2] not in (0, 1, 2, 3, 4):
        return False
    cat = ent[2]
    if cat in (2, 3):
        return flags == [1, 0, 0, 0] and user == []
    base = []
    if flags is not None and cat == 0:
        base = [[codes(k), [1, flags[i]]] for i, k in enumerate(_FLAG_JSON_KEYS)]
    elif flags is not None and cat == 1:
        base = [[codes("ignore_parent"), [1, flags[0]]]]
    r = _w_user_from_dict(tabs, m, n, base + user)
    if r is None:
        return False
    f = None if r[0] is None else [int(bool(x)) for x in r[0]]
    return f == flags and r[1] == user


def _w_rule_strats_ok(tabs, r):
    f = r[0]
    if f in (0, 1):
        return _w_strat_ok(tabs, r[1])
    if f in (2, 4):
        return _w_rule_strats_ok(tabs, r[1])
    if f == 3:
        return all(_w_rule_strats_ok(tabs, x) for x in r[1])
    return True


def _w_spec_bits(tabs, sp):
    root, rules = sp
    keys = [kr[0] for kr in rules]
    closed = root in keys
    for k, r in rules:
        a = _w_attrs(tabs, r)
        closed = closed and a is not None and a[1] == k and all(c in keys for c in a[2])
    return [_distinct(keys), int(closed), 1, int(all(_w_rule_strats_ok(tabs, r) for _, r in rules))]


def _bij_wf_bits(enc):
    tabs, d = enc[0], enc[2]
    okeys = [[e[0], e[1]] for e in d[2]]
    dkeys = [[e[0], e[1]] for e in d[3]]
    return _w_spec_bits(tabs, d[0]) + _w_spec_bits(tabs, d[1]) + \
        [_distinct(okeys), _distinct(dkeys), int(all(k in okeys for k in dkeys))]


def _wf_failing(bits):
    return [BIJ_WF_BITS[i] for i, b in enumerate(bits) if not b]


# strat_ok is decided by the model w.r.t. its EMULATION of the classes' from_dict (tables).  The same hypothesis is
# evaluated here on the REAL code: every distinct strategy instance inside the object of the case is dumped and loaded
# by the library (AbstractStrategy.from_dict) and must come back with the same class, flags and settings.  The oracle
# requires the two answers to agree on every case (so "strat_okb = 1" is also a statement about the real from_dict).
def _strategies_of(kind, x):
    from comb_spec_searcher.strategies.rule import EquivalencePathRule, EquivalenceRule, ReverseRule

    acc = []

    def walk(r):
        if type(r) is EquivalencePathRule:
            for q in r.rules:
                walk(q)
        elif type(r) in (EquivalenceRule, ReverseRule):
            walk(r.original_rule)
        else:
            acc.append(r.strategy)

    if kind == "strategy":
        acc.append(x)
    elif kind == "pack":
        for grp in [x.initial_strats, x.inferral_strats, x.ver_strats, x.symmetries] + list(x.expansion_strats):
            acc.extend(grp)
    elif kind == "rule":
        walk(x)
    elif kind == "bij":
        for sp in (x._spec, x._other):
            for r in sp.rules_dict.values():
                walk(r)
    else:
        for r in x.rules_dict.values():
            walk(r)
    return acc


def _real_contract(kind, x):
    """[number of distinct strategies checked, descriptions of those the real from_dict does not restore]"""
    from comb_spec_searcher.strategies.strategy import AbstractStrategy

    seen, bad = set(), []
    for st in _strategies_of(kind, x):
        d = Ctx().strat(st, strip=True)
        k = json.dumps(d)
        if k in seen:
            continue
        seen.add(k)
        try:
            z = AbstractStrategy.from_dict(jcopy(st.to_jsonable()))
            ok = type(z) is type(st) and Ctx().strat(z, strip=True) == d
        except Exception as ex:  # pylint: disable=broad-except
            ok = False
            z = "raised %s" % type(ex).__name__
        if not ok:
            bad.append("%r -> %r" % (st, z))
    return [len(seen), bad[:3]]


def impl(case):
    b = build(case)
    kind, x, y, J = b["kind"], b["x"], b["y"], b["J"]
    if x is None:
        return {"out": [], "tags": ["no-object"], "obs": None, "enc": [[[], [], [], [], [], []], 9, [], [], []]}
    res = _impl_from(b, case)
    try:
        res["enc"] = _encode_from(b)
    except Exception:  # pylint: disable=broad-except
        res["enc"] = [[[], [], [], [], [], []], 8, [], [], []]
    if res["enc"][1] == 4:
        # the per-case verdict on bij_wf (hypothesis of C18_bijection_roundtrip), diffed against the extracted one
        res["wf"] = _bij_wf_bits(res["enc"])
        res["out"].append(list(res["wf"]))
        res["tags"].append("thm:C18_bijection_roundtrip:covered" if all(res["wf"]) else
                           "thm:C18_bijection_roundtrip:not_covered(%s)" % ",".join(_wf_failing(res["wf"])))
    elif res["enc"][1] in (0, 1, 2):
        # ... and on strat_ok / rule_ok + rule_strats_ok / pack_ok (C18_strategy_ / C18_rule_ / C18_pack_roundtrip)
        tabs, d, k = res["enc"][0], res["enc"][2], res["enc"][1]
        if k == 0:
            res["wfk"] = [int(_w_strat_ok(tabs, d))]
        elif k == 1:
            res["wfk"] = [1, int(_w_rule_strats_ok(tabs, d))]      # rule_ok: constant, as out[4]
        else:
            res["wfk"] = [int(all(_w_strat_ok(tabs, st) for grp in [d[1], d[2], d[3], d[5]] + list(d[4]) for st in grp))]
        res["out"].append(list(res["wfk"]))
        thm = SMALL_THMS[k]
        res["tags"].append("thm:%s:covered" % thm if all(res["wfk"]) else
                           "thm:%s:not_covered(%s)" % (thm, ",".join(SMALL_BITS[k][i] for i, b in enumerate(res["wfk"]) if not b)))
    elif res["enc"][1] == 3:
        # ... and on spec_wf (hypothesis of C18_spec_roundtrip, C18_roundtrip_same_enumeration, ..): 4 bits
        res["wfs"] = _w_spec_bits(res["enc"][0], res["enc"][2])
        res["out"].append(list(res["wfs"]))
        res["tags"].append("thm:C18_spec_roundtrip:covered" if all(res["wfs"]) else
                           "thm:C18_spec_roundtrip:not_covered(%s)" % ",".join(_wf_failing(res["wfs"])))
    return res


def _impl_from(b, case):
    kind, x, y, J = b["kind"], b["x"], b["y"], b["J"]
    out = [conv(jcopy(x.to_jsonable()))]
    obs = {"must_raise": b["must_raise"], "mutated": b["mutated"], "raised": None}
    z = None
    try:
        z = _from_dict(kind, J)
    except Exception as ex:  # pylint: disable=broad-except
        obs["raised"] = "%s: %s" % (type(ex).__name__, str(ex)[:120])
    if z is None:
        out.append([1])
    else:
        out.append([0, _desc(Ctx(), kind, z)])
        # ... and the same document is loaded a second time: the result must not depend on what was loaded before
        try:
            z2 = _from_dict(kind, J)
            obs["second"] = True if _desc(Ctx(), kind, z2) == _desc(Ctx(), kind, z) else "a second from_dict of the same document gives another object"
        except Exception as ex:  # pylint: disable=broad-except
            obs["second"] = "a second from_dict of the same document raised %s" % type(ex).__name__
    obs["pre"] = b.get("pre")
    tags = [kind, "mutated" if b["mutated"] else "pristine"]
    if kind != "bij":
        out += [int(bool(x == y)), int(bool(y == x))]
    if kind == "strategy":
        out += [int(type(x) is type(y) and x.to_jsonable() == y.to_jsonable()),
                int(not any(_dunder(k) for k in x.__dict__))]
        tags.append("with-settings" if any(k not in FLAGKEYS and not _dunder(k) for k in x.__dict__) else "flags-only")
        if any(isinstance(v, (list, dict)) for k, v in x.__dict__.items() if k not in FLAGKEYS and not _dunder(k)):
            tags.append("container-settings")
    elif kind == "rule":
        out += [1, int(_plain_rule(x))]
        acc = set()
        _forms(x, acc)
        tags += sorted(acc)
    elif kind in SPECS:
        out += [1]
        acc = set()
        for r in x:
            _forms(r, acc)
        tags += sorted(acc)
        obs["nrules"] = len(x.rules_dict)
    elif kind == "pack":
        obs["nstrats"] = len(list(x))
        if len(x.expansion_strats) >= 2:
            tags.append("pack-several-expansion-sets")
    elif kind == "bij":
        tags += _bij_tags(case, x)
    if obs["raised"]:
        tags.append("raised")
    tags += _config_tags(jcopy(x.to_jsonable()))
    if b.get("pre") is not None:
        tags.append("other-object-round-tripped-first")
    # observations for the oracle
    if z is not None:
        obs["eq"] = [bool(z == x), bool(x == z)] if kind != "bij" else None
        if not b["mutated"]:
            plan = None
            if kind == "bij":
                plan = _bij_plan(x)
                obs["plan"] = [sum(len(l) for l in plan[0]), sum(len(l) for l in plan[1]), len(plan[0]) - 1,
                               plan[2], plan[3]]
                tags.append("order-map-fully-exercised" if plan[2] == plan[3] and plan[3] else
                            "order-map-partly-exercised")
            bx, bz = _behaviour(kind, x, plan), _behaviour(kind, z, plan)
            obs["diff"] = [k for k in bx if bx[k] != bz[k]]
            obs["detail"] = {k: [str(bx[k])[:300], str(bz[k])[:300]] for k in obs["diff"][:2]}
            for k in ("map", "inverse_map"):
                if k in obs["diff"]:
                    bad = [(a, c) for a, c in zip(bx[k], bz[k]) if a != c]
                    obs["detail"][k] = ["original %s(%r) = %r" % (k, bad[0][0][0], bad[0][0][1]),
                                        "reloaded: %r (%d of %d objects differ)" % (bad[0][1][1], len(bad), len(bx[k]))]
            if kind == "bij":
                # the numbering of the classes array follows the insertion order of the order map, which a
                # round trip may change (entries are regrouped by domain class): compare up to the numbering
                obs["again"] = _attempt(lambda: _bij_canon(jcopy(z.to_jsonable())) == _bij_canon(J))
            else:
                obs["again"] = _attempt(lambda: jcopy(z.to_jsonable()) == J)
    if case.get("other"):
        obs["other_eq"] = [bool(x == y), bool(y == x)]
        if kind == "rule":
            same_cls = _ck(x.comb_class) == _ck(y.comb_class)
            same = same_cls and type(x) is type(y) and repr(x.strategy) == repr(y.strategy) and \
                jcopy(x.to_jsonable()) == jcopy(y.to_jsonable())
            obs["other_same"] = True if same else (False if not same_cls else None)
        if kind in SPECS:
            def fp(sp):
                return sorted((_ck(c), type(r).__name__, repr(r.strategy),
                               [repr(q.strategy) for q in getattr(r, "rules", [])]) for c, r in sp.rules_dict.items())

            obs["other_same"] = bool(fp(x) == fp(y) and _ck(x.root) == _ck(y.root))
    # last, so that the extra from_dict calls cannot influence any observation above
    obs["real_contract"] = _attempt(lambda: _real_contract(kind, x))
    return {"out": out, "tags": tags, "obs": obs, "loaded_keys": list(J) if isinstance(J, dict) else []}


# ------------------------------------------------------------------ oracle (independent of the model)
def oracle(case, res):
    if "exception" in res:
        return "harness/implementation raised " + res["exception"]
    obs = res.get("obs")
    if obs is None:
        return None
    kind = case["kind"]
    if obs.get("pre") is not None and obs["pre"] != [True, True]:
        return "round trip of the OTHER object of the case (loaded first, in the same process): from_dict(to_jsonable(y)) == y is %r" % (obs["pre"],)
    if obs.get("second") not in (None, True):
        return obs["second"]
    if obs["must_raise"] and not obs["raised"]:
        return "malformed JSON (%r) was loaded without an error" % (case.get("mut"),)
    if not obs["mutated"]:
        if obs["raised"]:
            return "from_dict(to_jsonable(x)) raised " + obs["raised"]
        if kind != "bij" and obs["eq"] != [True, True]:
            return "from_dict(to_jsonable(x)) == x is %r / reversed %r" % (obs["eq"][0], obs["eq"][1])
        if kind == "bij" and ("map" in obs["diff"] or "inverse_map" in obs["diff"]):
            k = "map" if "map" in obs["diff"] else "inverse_map"
            return "the reloaded bijection does not agree with the original: %s; %s (differing: %s)" % (
                obs["detail"][k][0], obs["detail"][k][1], obs["diff"])
        if obs["diff"]:
            return "the reloaded object behaves differently: %s %r" % (obs["diff"], obs["detail"])
        if obs["again"] is not True:
            return "to_jsonable of the reloaded object differs from the document it was loaded from (%r)" % (obs["again"],)
    elif not obs["raised"]:
        m = case["mut"][0]
        if m == "swaprules" and obs["eq"] != [True, True]:
            return "a specification loaded from the same rules in another order is != the original"
        if m == "dropempty" and obs["eq"] != [True, True]:
            return "a specification loaded without its (lazily re-added) empty rules is != the original"
        if kind == "pack" and m == "dropkey":
            J = res.get("loaded_keys") or []
            p = case["pack"]
            if "symmetries" not in J and p["sym"] and obs["eq"] != [False, False]:
                return "a pack loaded without its symmetries is == the original (%r)" % (obs["eq"],)
            if "iterative" not in J and p["iterative"] and obs["eq"] != [False, False]:
                return "an iterative pack loaded without the iterative flag is == the original (%r)" % (obs["eq"],)
    rc = obs.get("real_contract")
    if rc is not None:
        if not isinstance(rc, list):
            return "evaluating the strategy contract on the real from_dict failed: %r" % (rc,)
        decided = _strats_bit(res)
        if decided is not None and bool(decided) != (not rc[1]):
            return ("the model's emulation of from_dict says the strategies of this case %s the from_dict contract "
                    "(strat_okb), the real from_dict says the opposite: %r" % ("honour" if decided else "violate", rc[1]))
    if kind == "bij" and res.get("wf") is not None and not all(res["wf"]):
        # every generated bijection was constructed and serialised by the library itself (Bijection.construct /
        # ParallelSpecFinder): bij_wf must hold of it
        return "bij_wf (hypothesis of C18_bijection_roundtrip) fails on a bijection the library constructed: %s" % (
            ", ".join(_wf_failing(res["wf"])),)
    if case.get("other") and "other_eq" in obs:
        if kind == "strategy":
            want = _effective(case["s"]) == _effective(case["other"])
        elif kind == "pack":
            want = _effective_pack(case["pack"]) == _effective_pack(case["other"])
        else:
            want = obs["other_same"]      # same classes, rule forms and strategies <=> equal
        if want is not None and obs["other_eq"] != [want, want]:
            return "x == other is %r but class/settings say %r" % (obs["other_eq"], want)
    return None


def nontrivial(case, res):
    obs = res.get("obs")
    if not obs:
        return False
    k = case["kind"]
    if k in SPECS:
        return obs.get("nrules", 0) >= 4
    if k == "rule":
        return any(t in res["tags"] for t in ("ReverseRule", "EquivalenceRule", "EquivalencePathRule"))
    if k == "strategy":
        return "with-settings" in res["tags"]
    if k == "pack":
        return obs.get("nstrats", 0) >= 3
    return True


def key(case):
    return json.dumps(case, sort_keys=True)


def classify(case, res):
    return list(res.get("tags") or ["crashed"])


# theorem, field of res, names of the bits, kind label, required fraction, required number of cases (quick tier)
# (fractions measured on seeds 0, 1, 2 - see LEVEL_TEXT - minus a margin)
COVER = [
    ("C18_bijection_roundtrip", "wf", "bij_wfb", "kind-4 (bijection)", 0.97, 150),
    ("C18_spec_roundtrip", "wfs", "spec_wfb", "kind-3 (specification)", 0.97, 400),
    ("C18_rule_roundtrip", "wfk1", "rule_ok && rule_strats_okb", "kind-1 (rule)", 0.95, 140),
    ("C18_strategy_roundtrip", "wfk0", "strat_okb", "kind-0 (strategy)", 0.95, 200),
    ("C18_pack_roundtrip", "wfk2", "pack_okb", "kind-2 (pack)", 0.95, 130),
]


def _strats_bit(res):
    """the `every strategy of the case honours from_dict` conjunct of the verdict, whatever the kind"""
    if res.get("wf") is not None:
        return int(res["wf"][3] and res["wf"][7])
    if res.get("wfs") is not None:
        return res["wfs"][3]
    if res.get("wfk") is not None:
        return res["wfk"][-1]
    return None


def _bits_of(res, field):
    if field.startswith("wfk"):
        if res.get("wfk") is None or not res.get("enc") or res["enc"][1] != int(field[3]):
            return None
        return res["wfk"]
    return res.get(field)


def extra_checks(ctx):
    """On how many of the compared cases do the hypotheses of the round-trip theorem of their kind hold, as decided
    by the extracted model (Json/Deciders.v) AND by the Python replica - the core diffs the two on every case.
    A case where they fail is outside the theorem, not an error (except for bijections: see oracle)."""
    checks = []
    for thm, field, dec, label, frac, mincases in COVER:
        n = k = 0
        missing = {}
        for res, _why, _nt in ctx.impl_res:
            bits = _bits_of(res, field) if isinstance(res, dict) else None
            if bits is None:
                continue
            n += 1
            if all(bits):
                k += 1
            else:
                for t in res.get("tags", []):
                    if t.startswith("thm:%s:not_covered" % thm):
                        missing[t[len("thm:%s:" % thm):]] = missing.get(t[len("thm:%s:" % thm):], 0) + 1
        need = mincases if len(ctx.cases) >= 2000 else 0
        ok = n >= need and (n == 0 or k >= frac * n)
        detail = "%s = 1 (decided by run_c18 and by the Python replica, diffed per case) on %d of %d %s cases " \
                 "(required: >= %d cases, >= %d%%)%s" % (dec, k, n, label, need, int(frac * 100),
                                                          "; %r" % missing if missing else "")
        checks.append(("covered_by_theorem %s: %d of %d %s cases" % (thm, k, n, label.split()[0]), ok, detail))
    return checks


# ------------------------------------------------------------------ generator
PATS2 = [[], ["a"], ["b"], ["aa"], ["ab"], ["ba"], ["bb"], ["aa", "bb"], ["ab", "ba"], ["aba"], ["aab"], ["abb"],
         ["bab"], ["aba", "bb"], ["aab", "ba"], ["aab", "ab", "ba"], ["abab", "bb"], ["ababa", "babb"], ["aa", "ab"],
         ["bb", "aab"], ["a", "b"], ["aaa"], ["abba"]]
PATS3 = [["abc"], ["ab", "bc"], ["aa", "bb", "cc"], ["ca"], ["abc", "cb"], ["ac", "b"]]


def _s(name, **kw):
    return [name, kw, 0]


def _gen_strategy(rng, alias_ok=True):
    r = rng.random()
    fl = {}
    for f in ("ignore_parent", "inferrable", "possibly_empty", "workable"):
        if rng.random() < 0.25:
            fl[f] = rng.random() < 0.5
    if rng.random() < 0.22:
        return _gen_pop_strategy(rng, fl)
    if r < 0.06:
        return ["ExpansionStrategy", {}, 0]
    if r < 0.10:
        return ["RemoveFrontOfPrefix", {}, 0]
    if r < 0.16:
        return ["PermExpand", dict(fl, **_gen_containers(rng)), 0]
    if r < 0.22:
        return ["AtomStrategy", {}, 0]
    if r < 0.30:
        return ["EmptyStrategy", {}, int(alias_ok and rng.random() < 0.4)]
    if r < 0.42:
        return ["ExpandOrdered", dict(fl, descending=rng.random() < 0.5), 0]
    if r < 0.54:
        return ["GenExpand", dict(fl, descending=rng.random() < 0.5), int(alias_ok and rng.random() < 0.4)]
    if r < 0.66:
        kw = dict(fl, max_remove=rng.randint(1, 3))
        if rng.random() < 0.5:
            kw["tag"] = rng.choice(["", "x", "tag é", "a b"])
        return ["RemoveFront", kw, 0]
    if r < 0.74:
        return ["SwapLetters", dict(fl, only_empty_prefix=rng.random() < 0.6), 0]
    if r < 0.82:
        return ["DropRedundantPatterns", dict(fl, min_patterns=rng.randint(1, 3)), 0]
    if r < 0.90:
        kw = {"min_prefix": rng.randint(0, 4)}
        if rng.random() < 0.5:
            kw["note"] = rng.choice(["brute", "n", ""])
        if rng.random() < 0.3:
            kw["exact"] = True
        if rng.random() < 0.3:
            kw["ignore_parent"] = True
        return ["BruteVerified", kw, 0]
    if r < 0.95:
        return ["ExpandFactory", {"max_prefix": rng.randint(0, 9), "as_rule": rng.random() < 0.5}, 0]
    return ["ParentExpandFactory", {"descending": rng.random() < 0.5}, 0]


def _gen_pop_strategy(rng, fl):
    """the classes of harness/universes/c18_pop.py: from_dict pops the settings it reads"""
    r = rng.random()
    if r < 0.3:
        return ["PopExpandOrdered", dict(fl, descending=rng.random() < 0.5), 0]
    if r < 0.5:
        return ["ExpandAfter", dict(fl, last=rng.choice(["", "a", "b", "c"])), 0]
    if r < 0.7:
        kw = dict(fl, max_remove=rng.randint(1, 3))
        if rng.random() < 0.5:
            kw["tag"] = rng.choice(["", "x", "a b"])
        return ["PopRemoveFront", kw, 0]
    if r < 0.85:
        kw = {"min_prefix": rng.randint(0, 4)}
        if rng.random() < 0.5:
            kw["note"] = rng.choice(["brute", "n", ""])
        if rng.random() < 0.3:
            kw["exact"] = True
        if rng.random() < 0.3:
            kw["ignore_parent"] = True
        return ["PopBruteVerified", kw, 0]
    return ["PopExpandFactory", {"max_prefix": rng.randint(0, 9), "as_rule": rng.random() < 0.5}, 0]


def _gen_containers(rng):
    """container-valued settings (JSON values; dictionaries with sorted keys: the model compares nested objects
    entry by entry in order, Python's == does not look at the order)"""
    kw = {}
    if rng.random() < 0.85:
        kw["perm"] = rng.choice([[1, 0], [0, 1], [2, 0, 1], [], [0], [1, 0, 2], [[1], 0]])
    if rng.random() < 0.7:
        kw["meta"] = rng.choice([{}, {"a": [1, 2, [3]]}, {"k": {"in": [], "t": "x"}, "z": None}, {"l": [{"m": 1}, "s", True]},
                                 {"a": [1, 2, [3, 4]]}])
    return kw


def _variant(rng, s):
    """another recipe: same, one setting changed, one flag changed, alias toggled, other class"""
    name, kw, alias = s
    r = rng.random()
    U = _U()
    if r < 0.25:
        return [name, dict(kw), alias]
    if r < 0.40 and name in U.GENERIC:
        return [name, dict(kw), 1 - alias]
    if r < 0.85:
        import inspect

        params = [p for p in inspect.signature(U.STRATS[name][0].__init__).parameters.values() if p.name != "self"]
        if params:
            p = rng.choice(params)
            cur = kw.get(p.name, p.default)
            if isinstance(cur, bool):
                new = not cur
            elif isinstance(cur, int):
                new = cur + 1
            elif isinstance(cur, list) or (cur is None and p.name == "perm"):
                new = list(cur or []) + [7] if rng.random() < 0.5 else [list(cur or [])]
            elif isinstance(cur, dict) or (cur is None and p.name == "meta"):
                new = dict(cur or {}, zz=[len(cur or {})])
            else:
                new = str(cur) + "!"
            return [name, dict(kw, **{p.name: new}), alias]
    return _gen_strategy(rng, alias_ok=False)


def _gen_pack(rng, shape=None):
    shape = shape if shape is not None else rng.choice([0, 1, 2, 3, 4, 5, 6, 7, 8, 8, 8, 9, 10, 11, 11])
    ps = {"initial": [], "inferral": [], "expansion": [], "ver": [_s("AtomStrategy")], "sym": [], "iterative": 0,
          "name": "pack %d" % shape}
    if shape == 0:      # the example pack
        ps.update(initial=[_s("RemoveFrontOfPrefix")], expansion=[[_s("ExpansionStrategy")]],
                  name="Finding specification for words avoiding consecutive patterns.")
    elif shape == 1:    # settings everywhere
        ps.update(initial=[_s("RemoveFront", max_remove=rng.randint(1, 3), tag=rng.choice(["", "t"]))],
                  inferral=[_s("DropRedundantPatterns")],
                  expansion=[[_s("ExpandOrdered", descending=rng.random() < 0.5)]])
    elif shape == 2:    # generic strategy + brute force verification
        ps.update(initial=[_s("RemoveFrontOfPrefix")], expansion=[[_s("GenExpand", descending=rng.random() < 0.5)]],
                  ver=[_s("AtomStrategy"), _s("BruteVerified", min_prefix=rng.randint(2, 3), note=rng.choice(["brute", "b2"]))])
    elif shape == 3:    # factory (strategy or ready rule), two expansion sets
        ps.update(expansion=[[_s("ExpandFactory", as_rule=rng.random() < 0.5, max_prefix=9)], [_s("RemoveFront", max_remove=2)]])
    elif shape == 4:    # symmetry + inferral
        ps.update(initial=[_s("RemoveFrontOfPrefix")], inferral=[_s("DropRedundantPatterns", min_patterns=2)],
                  expansion=[[_s("ExpansionStrategy")]], sym=[_s("SwapLetters", only_empty_prefix=rng.random() < 0.5)])
    elif shape == 5:    # iterative
        ps.update(initial=[_s("RemoveFrontOfPrefix")], expansion=[[_s("ExpansionStrategy")]], iterative=1)
    elif shape == 6:    # rules of another class: reverse rules needed
        ps.update(initial=[_s("RemoveFrontOfPrefix")], expansion=[[_s("ParentExpandFactory", descending=rng.random() < 0.3)]],
                  ver=[_s("AtomStrategy"), _s("BruteVerified", min_prefix=0, exact=True)])
    elif shape == 7:    # both expansions, flags changed
        ps.update(initial=[_s("RemoveFront", max_remove=1, ignore_parent=False)],
                  expansion=[[_s("ExpandOrdered", descending=False, inferrable=False)], [_s("ExpansionStrategy")]])
    elif shape == 9:    # container-valued settings
        ps.update(initial=[_s("RemoveFrontOfPrefix")], expansion=[[_s("PermExpand", **_gen_containers(rng))]])
    elif shape == 10:   # one configuration PER LETTER of a class whose from_dict pops: a specification needs them all
        ps.update(initial=[_s("RemoveFrontOfPrefix")],
                  expansion=[[_s("ExpandAfter", last=x) for x in rng.sample(["", "a", "b", "c"], 4)]])
    elif shape == 11:   # several configurations of every popping class
        k = rng.randint(2, 3)
        ps.update(initial=[_s("PopRemoveFront", max_remove=1, tag=rng.choice(["", "t"]))] +
                          ([_s("PopRemoveFront", max_remove=2)] if rng.random() < 0.5 else []),
                  expansion=[[_s("PopExpandOrdered", descending=rng.random() < 0.5)],
                             [_s("PopExpandFactory", max_prefix=0, as_rule=rng.random() < 0.5),
                              _s("PopExpandFactory", max_prefix=9, as_rule=rng.random() < 0.5)],
                             [_s("PopExpandOrdered", descending=True), _s("PopExpandOrdered", descending=False)]],
                  ver=[_s("AtomStrategy"), _s("PopBruteVerified", min_prefix=k, exact=True),
                       _s("PopBruteVerified", min_prefix=k + 1, note="b2")])
    else:               # random bag
        k = lambda: [x for x in (_gen_strategy(rng, alias_ok=False) for _ in range(rng.randint(0, 3)))]  # noqa: E731
        ps.update(initial=k(), inferral=k(), expansion=[k() for _ in range(rng.randint(0, 4))], ver=k(), sym=k(),
                  iterative=int(rng.random() < 0.3), name=rng.choice(["bag", "", "pack ü"]))
    return ps


def _gen_cls(rng, shape=None):
    """a NON-EMPTY start class: the searcher assumes it of its start class (an empty one makes it hand back
    nonsense, see DESIGN O-1 and the C18 notes) """
    while True:
        c = _gen_cls1(rng, shape)
        if not any(p in c[1] for p in c[2]):
            return c


def _gen_cls1(rng, shape=None):
    if rng.random() < 0.8:
        pats, alph = rng.choice(PATS2), "ab"
    else:
        pats, alph = rng.choice(PATS3), "abc"
    if shape == 6:
        prefix = "".join(rng.choice(alph) for _ in range(rng.randint(1, 2)))
    else:
        prefix = "".join(rng.choice(alph) for _ in range(rng.choice([0, 0, 0, 1, 1, 2])))
    return ["AvoidingWithPrefix", prefix, pats, alph, 0]


def _gen_wspec(rng):
    shape = rng.choice([0, 0, 1, 2, 3, 4, 5, 6, 6, 7, 9, 10, 10, 11])
    db = rng.randrange(4)
    if shape == 6 and rng.random() < 0.8:
        db = 2
    if shape == 5:
        db = rng.choice([2, 3, 0])
    return {"t": "w", "cls": _gen_cls(rng, shape), "pack": _gen_pack(rng, shape), "db": db,
            "seed": rng.randrange(1000), "warm": rng.choice([0, 3, 5])}


def _gen_tspec(rng):
    T = _T()
    u = T.random_universe(rng, ncls=rng.randint(2, 7))
    while u["empty"][u["start"]]:
        u = T.random_universe(rng, ncls=rng.randint(2, 7))
    for st in u["strats"]:          # the JSON-able variants only
        if st["kind"] == "F":
            for items in st["apply"].values():
                for it in items:
                    it["lazy"] = 0
    return {"t": "t", "u": u, "db": rng.choice([0, 1, 2, 2, 3]), "seed": rng.randrange(1000)}


_POOLS = None


def _word_pools():
    """sets of <= 2 binary patterns of length <= 3 (and a few longer ones), grouped by the number of avoiding
    words of every length <= 8 (counted here by brute force): only classes of one group can be in bijection"""
    global _POOLS
    if _POOLS is None:
        import itertools

        words = ["".join(t) for n in (1, 2, 3) for t in itertools.product("ab", repeat=n)]
        sets = [[w] for w in words] + [[u, v] for i, u in enumerate(words) for v in words[i + 1:]
                                       if u not in v and v not in u]
        sets += [[w] for w in ("aaaa", "abab", "abba", "aabb", "baab", "bbbb", "baba", "abaa", "bbab")]
        sets += [["aaa", "bbb"], ["aba", "bab"], ["aaaa", "bbbb"], ["abab", "baba"], ["aab", "bba", "aba"],
                 ["abb", "baa", "bab"], ["aba", "ab"], ["bab", "ba"], ["abab", "bb"], ["baba", "aa"]]
        allw = ["".join(t) for n in range(9) for t in itertools.product("ab", repeat=n)]
        groups = {}
        for ps in sets:
            cnt = [0] * 9
            for w in allw:
                if not any(p in w for p in ps):
                    cnt[len(w)] += 1
            groups.setdefault(tuple(cnt), []).append(ps)
        _POOLS = [g for g in groups.values() if len(g) >= 2]
    return _POOLS


def _gen_bij(rng):
    r = rng.random()
    if r < 0.4:
        return {"kind": "bij", "g": _G().random_pair(rng)}
    alph = rng.choice(["ab", "01"])
    tr = str.maketrans("ab", alph)
    if r < 0.55:
        pairs = [(["aa"], ["bb"]), (["ab"], ["ba"]), (["aab"], ["abb"]), (["aba", "bb"], ["bab", "aa"]), (["aa"], ["ab"]),
                 (["bab", "ba"], ["aba", "ab"]), (["aa", "ba"], ["aa", "bb"]), (["aa", "bb"], ["ab", "ba"]),
                 (["aaa", "bbb"], ["aba", "bab"])]
        p1, p2 = rng.choice(pairs)
        return {"kind": "bij", "c1": ["AvoidingWithPrefix", "", [p.translate(tr) for p in p1], alph, 0],
                "c2": ["AvoidingWithPrefix", "", p2, "ab", 0],
                "pack": _gen_pack(rng, rng.choice([0, 0, 7])), "seed": rng.randrange(100)}
    # two specifications searched separately (the packs may differ: other child orders, inferral or symmetry
    # steps on one side only), classes with the same counting sequence
    pools = _word_pools()
    for _ in range(4):
        group = rng.choice(pools)
        p1, p2 = rng.choice(group), rng.choice(group)
        if (len(p1) > 1 and len(p2) > 1 and p1 != p2) or rng.random() < 0.25:
            break
    sh1, sh2 = rng.choice([(0, 0), (0, 0), (1, 0), (0, 1), (1, 1), (7, 0), (4, 0), (0, 4), (3, 0), (9, 0), (0, 9), (9, 9),
                             (10, 0), (0, 10), (10, 10), (11, 10)])
    return {"kind": "bij", "how": "construct",
            "c1": ["AvoidingWithPrefix", "", [p.translate(tr) for p in p1], alph, 0],
            "c2": ["AvoidingWithPrefix", "", p2, "ab", 0],
            "pack": _gen_pack(rng, sh1), "pack2": _gen_pack(rng, sh2),
            "db1": rng.choice([0, 0, 1, 3]), "db2": rng.choice([0, 0, 1, 3]), "seed": rng.randrange(100)}


def _gen_gspec(rng):
    return {"t": "g", "g": _G().random_pair(rng), "side": rng.choice([1, 2])}


MUTS = ["module", "clsname", "dropkey", "dropkey", "extrakey", "wrongkind", "idx", "revpath", "swaprules"]
SPEC_MUTS = ["dropempty", "dropempty", "dropempty"]


def _gen_mut(rng, kind):
    ops = list(MUTS)
    if kind == "bij":
        ops += ["orderkey", "orderkey", "swapclasses", "dropkey"]
    if kind in SPECS:
        ops += SPEC_MUTS
    return [rng.choice(ops), rng.randrange(1000), rng.randrange(0, 4)]


def gen(rng, tier):
    while True:
        r = rng.random()
        if r < 0.16:
            s = _gen_strategy(rng)
            case = {"kind": "strategy", "s": s}
            if rng.random() < 0.7:
                case["other"] = _variant(rng, s)
        elif r < 0.27:
            p = _gen_pack(rng)
            case = {"kind": "pack", "pack": p}
            if rng.random() < 0.6:
                q = copy.deepcopy(p)
                x = rng.random()
                if x < 0.3:
                    pass
                elif x < 0.5:
                    q["iterative"] = 1 - q["iterative"]
                elif x < 0.7:
                    q["sym"] = q["sym"] + [_s("SwapLetters")] if not q["sym"] else []
                elif x < 0.85:
                    q["name"] = q["name"] + "'"
                else:
                    q["expansion"] = q["expansion"] + [[_s("ExpansionStrategy")]]
                case["other"] = q
        elif r < 0.52:
            case = {"kind": "wspec", "spec": _gen_wspec(rng)}
            if rng.random() < 0.25:
                o = _gen_wspec(rng)
                x = rng.random()
                if x < 0.3:
                    o = copy.deepcopy(case["spec"])
                    o["seed"] += 1
                elif x < 0.8:
                    o["cls"] = case["spec"]["cls"]
                    if o["pack"]["name"] == "pack 6":
                        o["pack"] = _gen_pack(rng, 0)
                case["other"] = o
        elif r < 0.65:
            case = {"kind": "tspec", "spec": _gen_tspec(rng)}
        elif r < 0.70:
            case = {"kind": "gspec", "spec": _gen_gspec(rng)}
            if rng.random() < 0.25:
                o = copy.deepcopy(case["spec"])
                if rng.random() < 0.5:
                    o["side"] = 3 - o["side"]
                else:
                    o["g"]["ge%d" % o["side"]] = 1 - o["g"]["ge%d" % o["side"]]
                case["other"] = o
        elif r < 0.84:
            x = rng.random()
            sp = _gen_wspec(rng) if x < 0.5 else (_gen_tspec(rng) if x < 0.8 else _gen_gspec(rng))
            case = {"kind": "rule", "spec": sp,
                    "sel": [rng.randrange(1000), rng.choice([0, 1, 1, 2, 3, 3, 4, 5, 5, 6]), rng.randrange(6)]}
            if rng.random() < 0.3:
                sel = case["sel"]
                case["other"] = rng.choice([[sel[0], rng.choice([0, 1, 2, 3, 4, 5, 6]), rng.randrange(6)],
                                            [rng.randrange(1000), sel[1], sel[2]], list(sel)])
        else:
            case = _gen_bij(rng)
        if "other" not in case and rng.random() < 0.33:
            case["mut"] = _gen_mut(rng, case["kind"])
        yield case


def shrink(case):
    if case.get("mut"):
        c = dict(case)
        del c["mut"]
        yield c
    if case.get("other"):
        c = dict(case)
        del c["other"]
        yield c
    sp = case.get("spec")
    if sp and sp["t"] == "w":
        cl = sp["cls"]
        if cl[1]:
            yield dict(case, spec=dict(sp, cls=[cl[0], cl[1][:-1], cl[2], cl[3], cl[4]]))
        for i in range(len(cl[2])):
            yield dict(case, spec=dict(sp, cls=[cl[0], cl[1], cl[2][:i] + cl[2][i + 1:], cl[3], cl[4]]))
        if sp.get("warm"):
            yield dict(case, spec=dict(sp, warm=0))
        if sp["pack"]["name"] != "pack 0" and not sp["pack"]["name"].startswith("Finding"):
            import random as _r

            yield dict(case, spec=dict(sp, pack=_gen_pack(_r.Random(0), 0)))
    if sp and sp["t"] == "t":
        u = sp["u"]
        for k in ("sym", "inferral"):
            if u["pack"][k]:
                u2 = copy.deepcopy(u)
                u2["pack"][k] = []
                yield dict(case, spec=dict(sp, u=u2))
