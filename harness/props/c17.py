"""C17 — a search pickled or interrupted at any point resumes faithfully."""
import json
import os
import pickle
import random

from harness.universes import runs
from harness.universes import table as T
from harness.universes import words_ext as W

ID = "C17"
TITLE = "pickled / interrupted searches resume faithfully"
COQ_PROPS = "Props/C17.v"
COQ_RUN = ("Searcher.SlicingRun", "run_c17")
GEN_TARGETS = []
N = {"quick": 5000, "thorough": 20000}
CASE_CPU_SECONDS = 30
RULE = (
    "a universe (word universe with any pack, or table universe: random_universe, or - 85% - the best connected of "
    "three rich_universe tables with at most one strategy-verified class; 70% of the table runs are `blind`: the real "
    "has_specification is called, side effects included, but the search is told `not yet`, so that the whole "
    "universe is worked through to queue exhaustion), a rule database (RuleDB, RuleDBForgetStrategy, RuleDBForest with/without reverse), perc, and a "
    "script of successive auto-search calls (time limit, clock advance per has_specification call), with or without "
    "pickling the searcher between two calls. Part A: the real _auto_search_rules runs under a fake clock (packets "
    "processed + scripted advances); (1) the packet counts at which has_specification is consulted and the outcome "
    "of every call (found / ExceededMaxtimeError / SpecificationNotFound) are compared with the control-flow model; "
    "(2) table universes (45% of the cases): the EVENT TRACE of every call (packets handed out by the real DefaultQueue, and per packet "
    "the ruledb.add calls, searcher-issued classdb.set_empty, classqueue.add/set_not_inferrable/set_stop_yielding) "
    "and ALL the members of the final state - class database, tried_to_verify / symmetry_expanded / inferral_expanded, the "
    "keys of both rule stores (in store order; sorted for RecomputingDict), RuleDBForest._already_empty and the whole "
    "queue (working, next_level, curr_level, the three sets, queue_sizes, staging) - are compared with the "
    "packet-level state machine (Searcher/Step.v: C04 model + C16 queue model) run on the same table, the same "
    "script and the recorded is_verified / has_specification answers; (3) oracle, all universes: the concatenated "
    "traces of the slices equal the trace of ONE uninterrupted _expand_classes_for run that consults "
    "has_specification at the same packet counts, and so do the final states; every packet handed out is "
    "processed. EVERY UNPICKLING (between two calls, and Part B: after exactly k packets for several prefix lengths k; "
    "thorough tier: every k) is judged by the harness's own deep structural comparison of original and copy, not by "
    "the library's __eq__: every member of every object reachable from the searcher (class database: the three lists "
    "and their sharing between ClassDB and its two views; the queue: all deques, sets, counters; the rule database: "
    "both stores with their strategies, the equivalence database - parents, weights, verified roots, both edge tables -, "
    "the forest's table method; tried_to_verify, symmetry_expanded, inferral_expanded; the pack), dict orders and the "
    "sharing of mutable objects included, sets as sets; only wall-clock timers / call counters are left out, and the "
    "derived cache _pruned_dict may be absent in the copy (reported) but, when present, must be the original's. The "
    "library's `copy == original` must hold too, and it is reported when == holds although the deep comparison finds a "
    "difference. Part B: original, copy and a copy whose _pruned_dict was dropped are continued with identical calls "
    "and must produce identical packets, events, ruledb.add traces, states and answers, equal to the uninterrupted run, and "
    "at the end of the continuation original and copy are compared member by member again (up to the iteration order "
    "of the union-find's dicts and the table method's bookkeeping for finished classes, which depend on set iteration "
    "order - pickle does not keep it). In 4% of the cases the pickled bytes are ALSO loaded in a FRESH interpreter "
    "(/venv/bin/python subprocess, PYTHONPATH as ./check sets it, another PYTHONHASHSEED) and continued there with "
    "the same scripted calls (the rest of the Part A script under the fake clock / the Part B pattern); the observable compared with "
    "the in-process continuation is the one the property words: the same packets (class, strategies, inferral) in "
    "the same order, per packet the same MULTISET of rules found (parent, children, strategy), set_empty and queue "
    "calls, the same outcomes of the calls, and at the end the same classes with emptiness, rule keys, verified set "
    "{l : is_verified(l)}, equivalence classes, `already done` sets, remaining packets of the queue, "
    "has_specification() answer and counts of the returned specification - classes named by str(), NOT by label "
    "number (a different hash seed may legitimately permute the order in which a strategy's children are labelled); "
    "whether the traces agree exactly, label numbers included, is recorded as a fact (on the unchanged tree they always "
    "did). The specification finally returned (Part A after interruptions; Part B, for the restored searchers of the "
    "fresh-interpreter cases and a third of the others: by the original AND by the restored searcher) is judged per "
    "instance, word universes: the constructor accepts the rules, no class has two rules, every class reachable from the "
    "start class has a rule, and every such class counts as brute force does for n < 6 (start class n < 8). Non-trivial: at least "
    "one interruption or pickling point strictly inside the run and >= 8 packets; distinct = distinct case."
)
TRUSTED = [
    "modelled, not verified: comb_spec_searcher.py _auto_search_rules/_expand_classes_for (control flow: "
    "Searcher/Slicing.v; state transformation: Searcher/Step.v on top of the C04, C15 and C16 models) tied by Part A - "
    "the control-flow triple on all universes, the state machine (event trace and full final state) on table universes "
    "only; the fake clock replaces time.time in that module only",
    "the logging subclasses of this plugin (CountingQueue, LogDB_*, LogClassDB) and the instance-level wrappers of "
    "has_specification / _expand / ruledb.is_verified; the deep structural comparison _deep (walks __dict__ / __slots__: "
    "state kept outside the instances - module globals, class attributes - is invisible to it and only shows through the "
    "continuation)",
    "pickle's object-graph fidelity is Python runtime behaviour outside any Gallina model: Searcher/Pickle.v's dump/load "
    "is the identity on the members and is NOT extracted or run against pickle; what ties pickling to the property is the "
    "oracle only (member-by-member comparison after every unpickling, continuation in-process and in a fresh "
    "interpreter) and the AST scan for pickling hooks",
    "ruledb.is_verified and has_specification are not modelled: their answers are recorded from the real run and "
    "replayed (the theorems quantify over all answer sequences); the engines behind RuleDBBase's _pruned_dict cache "
    "are abstract in Searcher/Cache.v, their idempotence contract is checked on the real code at every pickling point",
]
# measured values quoted in the strings below (quick tier): covered by add_hist / find_rule_total, share with mode 0,
# covered by emptiness_truthful - of the compared table runs
F17A, F17M0, F17E = "about 44%", "about 50%", "about 91%"
ASSUMPTIONS = [
    "the searcher's state after k packets is a deterministic function of the universe, the database flavour and the "
    "history of has_specification() calls (pruning databases mark labels verified when asked) - validated by Parts A3 "
    "and B in one process, and across processes (another hash seed) in the cases restored in a fresh interpreter",
    "C17_cache_transparent assumes that recomputing the pruned dictionary twice in a row changes nothing observable "
    "(recompute_idem) - checked on the real code at every pickling point",
    "no class of the package customises pickling or copying (__getstate__/__setstate__/__reduce__/__reduce_ex__/"
    "__getnewargs__/__deepcopy__/__copy__, copyreg, dispatch tables): decided by an AST scan of the package on every "
    "run (extra_checks, a VERDICT: a hook makes Searcher/Pickle.v's reading of pickle void and is reported as a broken "
    "tie, with or without a failing input)",
    "C17_auto_search_fuel / C17_run_calls_fuel bound the fuel in terms of the packets the queue can still hand out "
    "(n_avail - k, resp. packets_bounded s N); that a real search's queue is bounded is per instance (C17_packets_bounded_when_dry "
    "gives the bound once a dry turn has been met)",
    "the hypotheses of the composed theorems are DECIDED on every compared table run: the extracted run_c17 evaluates "
    "(mode =? 0) && table_hyps_b, (mode =? 0) && find_rule_hyps_b and pe_contractb / sym_contractb (Searcher/Deciders.v, "
    "Contracts.v; C17_resumed_search_gives_add_hist_decided / _find_rule_total_decided / _emptiness_truthful_decided restate "
    "the theorems over these booleans) on the table part of the case with pack = pack_of inferral initial expansion; the "
    "plugin computes the same bits with c04.py's predicates and both are part of the compared output. Covered (quick "
    "tier, seeds 0-2): C17_resumed_search_gives_add_hist and _find_rule_total " + F17A + " of the compared table runs (" +
    F17M0 + " of them have mode 0 = a pruning database, the hypothesis mode =? 0; of those the rest break pe_contract, "
    "sym_contract or sym_unary on purpose); C17_resumed_search_emptiness_truthful (any mode) " + F17E + "; extra_checks "
    "fails below 35% / 80%. packets_in (a theorem here) and items_plain hold by construction: a false verdict is an "
    "oracle failure. WORD universes: the state machine is not run on them and the hypotheses are not evaluated - the "
    "composed theorems say nothing about the compared word runs",
]

PERCS = [1, 2, 5, 10, 20, 25, 50, 100]
# minimum shares of the compared table runs on which the extracted deciders must say that the hypotheses of the composed
# theorems hold (set from the measured values, see extra_checks); add_hist needs mode 0 = a pruning database (half of
# the rule databases drawn) AND the table hypotheses
MIN_COVERED_ADD_HIST = 0.35
MIN_COVERED_EMPTINESS = 0.8
XPROC_FRACTION = 0.04


def _reach(u):
    """number of classes the table lets a search reach from the start class (workable expanding strategies only)"""
    p = u["pack"]
    sids = list(p["initial"]) + list(p["inferral"]) + [x for l in p["expansion"] for x in l]
    seen, todo = {u["start"]}, [u["start"]]
    while todo:
        c = todo.pop()
        for sid in sids:
            st = u["strats"][sid]
            ents = []
            if st["kind"] == "F":
                for it in st["apply"].get(str(c), []):
                    e = u["strats"][it["sid"]]["apply"].get(str(c if it["on"] is None else it["on"]))
                    if e is not None and u["strats"][it["sid"]]["flags"][3]:
                        ents.append(e)
            elif str(c) in st["apply"] and st["flags"][3]:
                ents.append(st["apply"][str(c)])
            for e in ents:
                for k in e["children"]:
                    if k not in seen and not u["empty"][k]:
                        seen.add(k)
                        todo.append(k)
    return len(seen)


def gen(rng, tier):
    while True:
        case = runs.gen_case(rng, table_fraction=0.45)
        if case["kind"] == "table" and rng.random() < 0.85:
            from harness.universes import table_c04 as R

            x = rng.random()
            regime = "strong" if x < 0.85 else "weak" if x < 0.95 else "wild"
            # of three candidates the one where most classes can be reached from the start class
            u = max((R.rich_universe(rng, regime=regime, ncls=rng.randint(4, 10)) for _ in range(3)), key=_reach)
            # long searches: few classes are verified by a strategy (none at all in 40% of the universes), so
            # that a specification is found late or never and the queue is worked through
            for v in u["pack"]["ver"]:
                ap = u["strats"][v]["apply"]
                if u["strats"][v]["kind"] != "V":
                    continue
                keep = [] if rng.random() < 0.4 else rng.sample(sorted(ap), min(len(ap), 1))
                for c in list(ap):
                    if c not in keep:
                        del ap[c]
            if rng.random() < 0.15:
                u["pack"]["iterative"] = 1
            case["universe"] = u
        if case["kind"] == "table" and rng.random() < 0.7:
            # the search is told "no specification yet" whatever the database answers (the real has_specification is
            # still called, with its side effects): the control flow and the state machine are driven through the
            # whole universe, to queue exhaustion, instead of stopping at the first specification
            case["blind"] = True
        case["pickle_between"] = rng.random() < 0.4
        case["perc"] = rng.choice(PERCS)
        ncalls = rng.randint(1, 4)
        calls = []
        for _ in range(ncalls):
            maxt = rng.choice([-1, -1, 0, 1, 2, 3, 5, 8, 13, 30])
            ds = [rng.choice([0, 0, 1, 1, 2, 3]) for _ in range(rng.randint(1, 12))]
            calls.append([maxt, ds])
        calls.append([-1, [0] * 6])  # a last unlimited call
        case["calls"] = calls
        case["pickle_at"] = sorted({rng.randint(0, 40) for _ in range(3)})
        # a fraction of the cases is ALSO restored in a fresh interpreter with another hash seed
        case["xproc"] = rng.random() < XPROC_FRACTION
        case["xseed"] = rng.randint(1, 2 ** 32 - 1)
        yield case


# ------------------------------------------------------------------ instrumented classes
class TraceCtx:
    """One event log shared by the queue, the rule database and the class database of ONE searcher
    (and of its unpickled copy: pickle keeps identities inside one dump).  Events, C04 numbering:
      [0, start, ends, sid, parent]  ruledb.add          [1, label, v]  classdb.set_empty by the searcher
      [2, l] classqueue.add   [3, l] set_not_inferrable  [4, l] set_stop_yielding   [10, l] set_verified
      [20, label, sids, inferral]  packet handed out by next(queue)      [21]  next(queue) raised StopIteration
    In table universes strategies / classes are their table ids, otherwise their str()."""

    def __init__(self, table):
        self.table = table
        self.events = []
        self.answers = []     # ruledb.is_verified answers, in call order (not those has_specification asks for)

    def __eq__(self, other):
        return isinstance(other, TraceCtx) and vars(self) == vars(other)

    __hash__ = None


def _sid(ctx, strategy):
    return getattr(strategy, "sid", -1) if ctx.table else str(strategy)


def _queue_class():
    from comb_spec_searcher.class_queue import DefaultQueue

    global CountingQueue
    try:
        return CountingQueue
    except NameError:
        pass

    class CountingQueue(DefaultQueue):  # pylint: disable=redefined-outer-name
        def __init__(self, pack):
            super().__init__(pack)
            self.handed = 0
            self.dry_at = None
            self.events = None      # Part A: list of ("hand" | "isv" | "exp", label[, answer])
            self.ctx = None
            self.inside = 0         # calls the queue makes on itself are not observations
            self.before_next = None

        def __next__(self):
            if self.before_next is not None:
                self.before_next(self)
            self.inside += 1
            try:
                p = super().__next__()
            except StopIteration:
                self.dry_at = self.handed
                if self.ctx is not None:
                    self.ctx.events.append([21])
                raise
            finally:
                self.inside -= 1
            self.handed += 1
            if self.events is not None:
                self.events.append(("hand", p[0]))
            if self.ctx is not None:
                self.ctx.events.append([20, p.label, [_sid(self.ctx, x) for x in p.strategies], int(bool(p.inferral))])
            return p

        def _obs(self, tag, label):
            if self.ctx is not None and not self.inside:
                self.ctx.events.append([tag, label])

        def add(self, label):
            self._obs(2, label)
            super().add(label)

        def set_not_inferrable(self, label):
            self._obs(3, label)
            super().set_not_inferrable(label)

        def set_stop_yielding(self, label):
            self._obs(4, label)
            self.inside += 1
            try:
                super().set_stop_yielding(label)
            finally:
                self.inside -= 1

        def set_verified(self, label):
            self._obs(10, label)
            self.inside += 1
            try:
                super().set_verified(label)
            finally:
                self.inside -= 1

    CountingQueue.__module__ = __name__
    CountingQueue.__qualname__ = "CountingQueue"
    return CountingQueue


def _classdb_class():
    from comb_spec_searcher.class_db import ClassDB

    global LogClassDB
    try:
        return LogClassDB
    except NameError:
        pass

    class LogClassDB(ClassDB):  # pylint: disable=redefined-outer-name
        """logs the set_empty calls that come from outside (not those is_empty makes itself)"""

        def __init__(self, cls):
            super().__init__(cls)
            self.ctx = None
            self.depth = 0

        def is_empty(self, comb_class, label=None):
            self.depth += 1
            try:
                return super().is_empty(comb_class, label)
            finally:
                self.depth -= 1

        def set_empty(self, key, empty=True):
            if self.ctx is not None and self.depth == 0:
                self.ctx.events.append([1, key, int(bool(empty))])
            return super().set_empty(key, empty)

    LogClassDB.__module__ = __name__
    LogClassDB.__qualname__ = "LogClassDB"
    return LogClassDB


def _db_class(name):
    from comb_spec_searcher.rule_db import RuleDB, RuleDBForest, RuleDBForgetStrategy

    key = "LogDB_" + name
    if key in globals():
        return globals()[key]
    base = {"base": RuleDB, "forget": RuleDBForgetStrategy, "forest": RuleDBForest, "forest_noreverse": RuleDBForest}[name]

    class LogDB(base):
        def __init__(self, *a, **k):
            super().__init__(*a, **k)
            self.log = []
            self.ctx = None
            self.quiet = 0

        def add(self, start, ends, rule):
            self.log.append([start, list(ends), str(rule.strategy)])
            if self.ctx is not None:
                cls = rule.comb_class
                self.ctx.events.append([0, start, list(ends), _sid(self.ctx, rule.strategy),
                                        cls.n if self.ctx.table else str(cls)])
            super().add(start, ends, rule)

        def is_verified(self, label):
            a = super().is_verified(label)
            if self.ctx is not None and not self.quiet:
                self.ctx.answers.append(int(bool(a)))
            return a

        def has_specification(self):
            self.quiet += 1
            try:
                return super().has_specification()
            finally:
                self.quiet -= 1

        def get_specification_rules(self, **kwargs):
            kwargs["minimization_time_limit"] = 0
            self.quiet += 1
            try:
                return super().get_specification_rules(**kwargs)
            finally:
                self.quiet -= 1

    LogDB.__module__ = __name__
    LogDB.__qualname__ = key
    LogDB.__name__ = key
    globals()[key] = LogDB
    return LogDB


def _make(case, ctx=None):
    from comb_spec_searcher import CombinatorialSpecificationSearcher

    dbc = _db_class(case["ruledb"])
    db = dbc(reverse=(case["ruledb"] == "forest")) if case["ruledb"].startswith("forest") else dbc()
    if case["kind"] == "word":
        start, pack = W.start(case["start"]), W.PACKS[case["pack"]]()
    else:
        u = dict(case["universe"])
        u.pop("uid", None)
        uid = T.register(u)
        start, pack = T.start_class(uid, case.get("compressed", False)), T.make_pack(uid)
    queue = _queue_class()(pack)
    kwargs = {}
    if ctx is not None:
        classdb = _classdb_class()(type(start))
        classdb.ctx = db.ctx = queue.ctx = ctx
        kwargs["classdb"] = classdb
    return CombinatorialSpecificationSearcher(
        start, pack, ruledb=db, classqueue=queue, expand_verified=bool(case.get("expand_verified")), **kwargs
    )


class _FakeTime:
    """stands for the `time` module inside comb_spec_searcher.comb_spec_searcher"""

    def __init__(self):
        self.css = None
        self.extra = 0

    def time(self):
        return float(self.css.classqueue.handed + self.extra)


def _one_packet(css):
    return css._expand_classes_for(-1, None, 0, 0)[0]  # pylint: disable=protected-access


def _state(css):
    cdb = css.classdb
    return [
        [str(cdb.get_class(l)) for l in range(len(cdb.comb_class_list))],
        [None if e is None else int(e) for e in cdb.empty_list],
        sorted(css.tried_to_verify),
        sorted(css.symmetry_expanded),
        sorted(css.inferral_expanded),
        css.classqueue.handed,
    ]


def _members(css):
    """table universes: the members the model's final summary shows"""
    cdb = css.classdb
    return [[cdb.get_class(i).n for i in range(len(cdb.comb_class_list))],
            [-1 if e is None else int(bool(e)) for e in cdb.empty_list],
            sorted(css.tried_to_verify), sorted(css.symmetry_expanded), sorted(css.inferral_expanded)]


# ------------------------------------------------------------------ the harness's own deep structural comparison
# Members that are statistics (wall-clock timers, call counters used only by status()): a change that does not
# pickle them breaks nothing the property talks about; everything else a searcher owns IS compared.
STAT_ATTRS = frozenset({"func_times", "func_calls", "func_yield", "_time_table_method", "_time_key", "_empty_time",
                        "_empty_num_application"})
# members of this plugin's logging subclasses (CountingQueue, LogDB_*, LogClassDB): not state of the library
HARNESS_ATTRS = frozenset({"ctx", "log", "quiet", "events", "inside", "before_next", "depth", "handed", "dry_at"})


def _qualname(t):
    return "%s.%s" % (getattr(t, "__module__", "?"), getattr(t, "__qualname__", getattr(t, "__name__", repr(t))))


CACHE_ATTRS = frozenset({"_pruned_dict"})   # derived caches: judged by _cache_problem, not member by member


# dicts whose ITERATION ORDER is not state: filled in the order in which a set was iterated (RecomputingDict.rules ->
# rules_up_to_equivalence -> first lookups in the union-find), and pickle does not keep a set's iteration order
UNORDERED_AFTER_WORK = frozenset({"parents", "weights", "vertices", "_one_way_vertices"})


# ... and the table method's bookkeeping for rules whose parent is done (TableMethod._set_infinite stops maintaining
# their shifts and usage lists) depends on the order in which set.pop() hands out _rule_holding_extra_terms
SKIP_AFTER_WORK = frozenset({"_pruned_dict", "_shifts", "_rules_using_class", "_rules_pumping_class"})


def _deep(root, skip=frozenset(), unordered=frozenset()):
    """The COMPLETE state reachable from `root` (a searcher) as nested lists of str/int, computed WITHOUT any
    __eq__/__hash__/__iter__ of the library: objects are walked through their instance __dict__ (+ __slots__), dicts
    through their items in insertion order (Counter / defaultdict included, with the default factory), lists, deques
    and tuples element by element, sets as the sorted list of their elements (pickle does not keep a set's iteration
    order).  SHARING is part of the picture: every mutable container / object gets a number at its first visit and a
    later visit is rendered as ["ref", number] - two searchers have the same picture only if the same members are
    one object in both (ClassDB's three lists and its two views, ruledb._searcher, the strategies shared by pack,
    queue and rule store ...).  Statistics (STAT_ATTRS) and this plugin's own logging members are left out."""
    import collections
    import enum
    import types

    memo = {}
    keep = []

    def ssorted(items):
        try:
            return sorted(items)                       # ints, strs
        except TypeError:
            return sorted(items, key=_sortkey)

    def walk(x, pure, sort_items=False):
        t = type(x)
        if t is int or t is str or x is None or t is bool:
            return x
        if t is tuple:
            return ["t"] + [y if type(y) is int else walk(y, pure) for y in x]
        if isinstance(x, (bool, int, str)):
            return x
        if isinstance(x, float):
            return ["f", repr(x)]
        if isinstance(x, bytes):
            return ["b", x.hex()]
        if isinstance(x, enum.Enum):
            return ["enum", _qualname(type(x)), x.name]
        if isinstance(x, (type, types.FunctionType, types.BuiltinFunctionType, types.MethodType)):
            return ["fn", _qualname(x)]
        if isinstance(x, tuple):
            head = "t" if type(x) is tuple else "t:" + _qualname(type(x))
            return [head] + [walk(y, pure) for y in x]
        if isinstance(x, frozenset):
            return ["fs"] + ssorted([walk(y, True) for y in x])
        if not pure:
            i = memo.get(id(x))
            if i is not None:
                return ["ref", i]
            memo[id(x)] = len(memo)
            keep.append(x)
            tag = "#%d" % memo[id(x)]
        else:
            tag = ""
        if isinstance(x, (list, collections.deque)):
            return [("l" if isinstance(x, list) else "dq") + tag] + [walk(y, pure) for y in x]
        if isinstance(x, (set,)):
            return ["s" + tag] + ssorted([walk(y, True) for y in x])
        if isinstance(x, dict):
            head = "d"
            if isinstance(x, collections.defaultdict):
                head = "dd:" + (_qualname(x.default_factory) if x.default_factory is not None else "None")
            elif type(x) is not dict:
                head = "d:" + _qualname(type(x))
            items = [[walk(k, pure), walk(v, pure)] for k, v in dict.items(x)]
            return [head + tag] + (sorted(items, key=_sortkey) if sort_items else items)
        # any other object: its class and its instance state
        cls = type(x)
        info = _CLASS_INFO.get(cls)
        if info is None:
            slots = [n for klass in cls.__mro__ if isinstance(getattr(klass, "__slots__", None), (tuple, list))
                     for n in klass.__slots__ if n not in ("__dict__", "__weakref__")]
            info = _CLASS_INFO[cls] = (_qualname(cls), slots,
                                       STAT_ATTRS | (HARNESS_ATTRS if cls.__module__ == __name__ else frozenset()))
        qn, slots, drop = info
        state = {n: getattr(x, n) for n in slots if hasattr(x, n)}
        d = getattr(x, "__dict__", None)
        if isinstance(d, dict):
            state.update(d)
        elif not state:
            return ["repr" + tag, qn, repr(x)]
        return ["o" + tag, qn] + [[n, walk(state[n], pure, n in unordered)] for n in sorted(state)
                                  if n not in drop and n not in skip]

    return walk(root, False)


_CLASS_INFO = {}


def _sortkey(x):
    return json.dumps(x, sort_keys=True)


def _deep_diff(x, y, path="searcher"):
    """None when the two pictures are equal, else where they first differ (a readable path)"""
    if type(x) is not type(y):
        return "%s: %s vs %s" % (path, _short(x), _short(y))
    if not isinstance(x, list):
        return None if x == y else "%s: %s vs %s" % (path, _short(x), _short(y))
    if x == y:
        return None
    # an object: name the member
    if x and y and isinstance(x[0], str) and x[0][:1] == "o" and isinstance(y[0], str) and y[0][:1] == "o":
        if x[:2] != y[:2]:
            return "%s: %s vs %s" % (path, _short(x[:2]), _short(y[:2]))
        dx, dy = {m[0]: m[1] for m in x[2:]}, {m[0]: m[1] for m in y[2:]}
        for n in sorted(set(dx) | set(dy)):
            if n not in dx or n not in dy:
                return "%s.%s: present in one searcher only" % (path, n)
            r = _deep_diff(dx[n], dy[n], "%s.%s" % (path, n))
            if r:
                return r
        return "%s: member order" % path
    for i, (p, q) in enumerate(zip(x, y)):
        r = _deep_diff(p, q, "%s[%d]" % (path, i - 1) if i else path + ":kind")
        if r:
            return r
    return "%s: %d vs %d entries (%s vs %s)" % (path, len(x) - 1, len(y) - 1, _short(x[min(len(x), len(y)):]),
                                                 _short(y[min(len(x), len(y)):]))


def _short(x):
    s = json.dumps(x)
    return s if len(s) <= 90 else s[:87] + "..."


def _cache_picture(css):
    """the derived cache as the mapping it is (label -> set of tuples), None when absent"""
    d = getattr(css.ruledb, "__dict__", {})
    pd = d.get("_pruned_dict")
    if pd is None:
        return None
    return ["mapping"] + sorted(([_deep(k), _deep(v)] for k, v in dict.items(pd)), key=_sortkey)


def _copy_problem(a, b, where):
    """A searcher `a` and what pickle made of it, `b`, compared by the harness's own deep structural comparison
    (_deep: every member of every object, with the sharing).  -> (problem or None, facts).  The derived cache
    RuleDBBase._pruned_dict is judged as a cache: the copy may come without it (it is recomputed on demand;
    reported as a fact), but a cache the copy HAS must be the original's.  Separately: does the library's own
    `==` see what the deep comparison sees?"""
    facts = []
    lib_eq = bool(b == a)
    d = _deep_diff(_deep(a, CACHE_ATTRS), _deep(b, CACHE_ATTRS))
    if d is None:
        ca, cb = _cache_picture(a), _cache_picture(b)
        if cb is None and ca is not None:
            facts.append("copy_without_cache")
        elif cb != ca:
            d = _deep_diff(ca, cb, "searcher.ruledb._pruned_dict") or "searcher.ruledb._pruned_dict"
            d += " [a stale derived cache: the original's is %s]" % ("absent" if ca is None else "different")
    if d is not None:
        if lib_eq:
            facts.append("eq_blind")
        return ("failing input: the searcher unpickled %s is not the original: %s%s" % (
            where, d, "; the library's == nevertheless calls the two searchers equal" if lib_eq else "")), facts
    if not lib_eq:
        return "failing input: searcher unpickled %s is != the original" % where, facts
    sp = _sharing_problem(b)
    if sp:
        return "failing input: after unpickling %s: %s" % (where, sp), facts
    return None, facts


EQ_BLIND = "library-eq-ignores-equivalence-database"


def _eq_blind_probe(a, blob):
    """Is the library's `==` a usable notion of `the restored searcher equals the original`?  Two searchers that
    have processed the same packets, one of which has additionally been asked has_specification() (both are states a
    search reaches): if the library calls them equal although their equivalence databases differ, RuleDBBase.__eq__
    lets through exactly the kind of difference a faulty restore would make (verified set, union-find, edge tables).
    -> description or None.  `a` is not touched."""
    if not hasattr(a.ruledb, "equivdb"):
        return None
    c = pickle.loads(blob)
    c.ruledb.has_specification()
    if not c == a:
        return None
    oa, oc = _equiv_obs(pickle.loads(blob)), _equiv_obs(c)
    if oa == oc:
        return None
    return "verified labels %r vs %r, %d vs %d equivalence classes" % (
        [l for l, v in enumerate(oa[1]) if v], [l for l, v in enumerate(oc[1]) if v], len(set(map(tuple, oa[0]))), len(set(map(tuple, oc[0]))))


def _full_members(css):
    """table universes: the rest of the members of the model state (Searcher/Step.v `members`): the keys of the two
    rule stores, RuleDBForest._already_empty and the queue"""
    db, q = css.ruledb, css.classqueue
    rules = [[s, list(e)] for s, e in db.rule_to_strategy] if hasattr(db, "rule_to_strategy") else []
    eqv = [[s, list(e)] for s, e in db.eqv_rule_to_strategy] if hasattr(db, "eqv_rule_to_strategy") else []
    if case_db_is_set(db):
        rules, eqv = sorted(rules), sorted(eqv)      # RecomputingDict keeps its keys in a set
    queue = [list(q.working), [[l, n] for l, n in q.next_level.items()], [list(d) for d in q.curr_level],
             sorted(q._inferral_expanded), sorted(q._initial_expanded), sorted(q.ignore), list(q.queue_sizes),  # pylint: disable=protected-access
             [[p.label, [x.sid for x in p.strategies], int(bool(p.inferral))] for p in q.staging]]
    return [rules, eqv, sorted(getattr(db, "_already_empty", ())), queue]


def case_db_is_set(db):
    return type(getattr(db, "rule_to_strategy", None)).__name__ == "RecomputingDict"


PACKET_LIMIT = 120


def _drive(css, n0):
    """Continue a searcher that has processed n0 packets with a FIXED call pattern (a
    has_specification() query after every 7th packet, stop at the first True answer, at
    queue exhaustion or after PACKET_LIMIT packets in total).  Returns (packets, trace,
    state, has_spec)."""
    n = n0
    found = False
    while n < PACKET_LIMIT and not found:
        if not _one_packet(css):
            break
        n += 1
        if n % 7 == 0:
            found = bool(css.has_specification())
    return n, css.ruledb.log, _state(css), bool(css.has_specification())


def _sharing_problem(css):
    """the sharing of the object graph a searcher is born with (None = intact); attributes a refactoring
    may rename are looked up defensively"""
    cdb = css.classdb
    for name in ("comb_class_list", "label_dict", "empty_list"):
        objs = [getattr(o, name, None) for o in (cdb, getattr(cdb, "class_to_info", None), getattr(cdb, "label_to_info", None))]
        objs = [o for o in objs if o is not None]
        if any(o is not objs[0] for o in objs[1:]):
            return "ClassDB.%s is no longer ONE object shared by the class database and its two views" % name
    back = getattr(css.ruledb, "_searcher", css)
    if back is not css:
        return "ruledb._searcher no longer refers to the searcher the rule database belongs to"
    for name in ("_rule_to_strategy", "_eqv_rule_to_strategy"):
        d = getattr(css.ruledb, name, None)
        linked = getattr(d, "_classdb", None)
        if linked is not None and linked is not cdb:
            return "the class database of ruledb.%s is a different object from searcher.classdb" % name
    return None


def _equiv_obs(css):
    """what can be observed of a pruning database's equivalence database: the partition of the labels and
    the verified set"""
    eq = getattr(css.ruledb, "equivdb", None)
    if eq is None:
        return None
    labels = range(len(css.classdb.comb_class_list))
    part = sorted(sorted(l2 for l2 in labels if eq.equivalent(l, l2)) for l in labels)
    return [part, [int(bool(eq.is_verified(l))) for l in labels]]


# ------------------------------------------------------------------ the observable a restore in ANOTHER interpreter is judged by
def _names(css):
    cdb = css.classdb
    return [str(cdb.get_class(l)) for l in range(len(cdb.comb_class_list))]


def _packets_by_class(names, events):
    """The work after a pickling point as the property words it - which classes are expanded with which strategies,
    and what each packet produced - free of label NUMBERS: the sequence of packets (class, strategies, inferral),
    each with the MULTISET of what was done for it (ruledb.add (parent, children, strategy), set_empty, the queue
    calls), classes by str().  `names` must come from the class database at the END of the run."""
    nm = lambda l: names[l] if isinstance(l, int) and 0 <= l < len(names) else "?%r" % (l,)  # noqa: E731
    out = []
    for e in events:
        if e[0] == 20:
            out.append([nm(e[1]), [str(s) for s in e[2]], e[3], []])
        elif e[0] == 21:
            out.append(["dry"])
        elif e[0] == 0:
            item = ["add", nm(e[1]), [nm(x) for x in e[2]], str(e[3]), str(e[4])]
            (out[-1][3] if out and len(out[-1]) == 4 else out).append(item)
        elif e[0] in (1, 2, 3, 4, 10):
            item = [{1: "set_empty", 2: "q.add", 3: "q.not_inferrable", 4: "q.stop", 10: "q.verified"}[e[0]], nm(e[1])] + list(e[2:])
            (out[-1][3] if out and len(out[-1]) == 4 else out).append(item)
    for p in out:
        if len(p) == 4 and isinstance(p[3], list):
            p[3].sort(key=_sortkey)
    return out


def _xobs(css, events):
    """What a searcher restored in another interpreter (other hash seed: other iteration orders of sets of str /
    bytes keyed data, other ids) must share with the one continued here.  Everything is read through the library's
    own accessors on a THROW-AWAY copy (they write: path compression, default entries) and classes are named by
    str(), not by label number: the universe (classes with emptiness), the rule keys of both stores (forest: the
    forest keys), the verified set {l : ruledb.is_verified(l)}, the equivalence classes, the three `already done`
    sets, the packets the queue would still hand out, the has_specification() answer, and the work done since the
    pickling point (_packets_by_class)."""
    t = pickle.loads(pickle.dumps(css))
    names = _names(t)
    labels = range(len(names))
    nm = lambda l: names[l] if 0 <= l < len(names) else "?%d" % l  # noqa: E731
    db = t.ruledb
    obs = {"classes": sorted([names[l], None if e is None else int(bool(e))] for l, e in zip(labels, t.classdb.empty_list))}
    obs["work"] = _packets_by_class(names, events)
    for attr in ("tried_to_verify", "symmetry_expanded", "inferral_expanded"):
        obs[attr] = sorted(nm(l) for l in getattr(t, attr))
    if hasattr(db, "rule_to_strategy"):
        obs["rules"] = sorted([nm(s), sorted(nm(e) for e in ends)] for s, ends in db.rule_to_strategy)
        obs["eqv_rules"] = sorted([nm(s), sorted(nm(e) for e in ends)] for s, ends in db.eqv_rule_to_strategy)
    tm = getattr(db, "table_method", None)
    if tm is not None and hasattr(tm, "_rules"):
        obs["forest_keys"] = sorted(([nm(k.parent), [nm(c) for c in k.children], list(k.shifts), k.bucket.name]
                                     for k in tm._rules), key=_sortkey)  # pylint: disable=protected-access
    obs["has_spec"] = bool(t.has_specification())
    obs["verified"] = sorted(names[l] for l in labels if db.is_verified(l))
    if hasattr(db, "are_equivalent"):
        obs["partition"] = sorted({tuple(sorted(names[m] for m in labels if db.are_equivalent(l, m))) for l in labels})
    future = []
    try:
        for p in t.classqueue:
            future.append([nm(p.label), [str(s) for s in p.strategies], int(bool(p.inferral))])
            if len(future) >= 200:
                break
    except Exception as e:  # pylint: disable=broad-except
        future.append("queue raised " + type(e).__name__)
    obs["queue"] = future
    return obs


def _obs_diff(x, y):
    """first key on which two _xobs dicts differ"""
    for k in sorted(set(x) | set(y)):
        if x.get(k) != y.get(k):
            return "%s (%s)" % (k, _deep_diff(json.loads(json.dumps(x.get(k))), json.loads(json.dumps(y.get(k))), k))
    return None


NSPEC = 6


def _spec_info(css, case):
    """What get_specification_rules() of this searcher hands back: nothing, an exception, or the rules - with, on word
    universes, the per-instance verdicts on the CombinatorialSpecification built from them (exactly these, nothing
    more): the constructor accepts them, no class has two rules, every class reachable from the start class has a
    rule (get_rule), and for every such class the specification counts as many objects of size n < NSPEC as brute
    force finds (start class: n < 8).  MUTATES the searcher (RuleDBForgetStrategy labels classes): call it last."""
    from comb_spec_searcher import CombinatorialSpecification
    from comb_spec_searcher.exception import SpecificationNotFound

    table = case["kind"] == "table"
    random.seed(case.get("tree_seed", 0))
    try:
        rules = list(css.ruledb.get_specification_rules())
    except SpecificationNotFound:
        return {"kind": "none"}
    except Exception as e:  # pylint: disable=broad-except
        if not table:
            raise
        return {"kind": "error:" + type(e).__name__}      # nonsense table universes may break the extraction
    info = {"kind": "rules",
            "rules": sorted(([str(r.comb_class), [str(c) for c in r.children], str(r.strategy)] for r in rules), key=_sortkey)}
    if table:
        return info
    bad = []
    lhs = [r.comb_class for r in rules]
    if len(set(lhs)) != len(lhs):
        bad.append("two rules for one class")
    spec = CombinatorialSpecification(css.start_class, rules)
    info["counts"] = [spec.count_objects_of_size(n) for n in range(8)]
    seen, todo = {spec.root}, [spec.root]
    while todo:
        c = todo.pop()
        try:
            rule = spec.get_rule(c)
        except Exception as e:  # pylint: disable=broad-except
            bad.append("no rule for %s (%s)" % (c, type(e).__name__))
            continue
        got = [rule.count_objects_of_size(n) for n in range(NSPEC)]
        want = W.true_counts(c, NSPEC - 1)
        if got != want:
            bad.append("class %s counted %r, brute force %r" % (c, got, want))
        for k in rule.children:
            if k not in seen:
                seen.add(k)
                todo.append(k)
    info["nclasses"] = len(seen)
    info["bad"] = bad
    return info


def _recompute_idem_problem(css):
    """Searcher/Cache.v's contract on the real code: filling the _pruned_dict cache twice in a row finds the
    same dictionary, answers the same and leaves the observable equivalence database as it is"""
    db = css.ruledb
    if "_pruned_dict" not in vars(db) or not hasattr(type(db), "pruned_dict"):   # (hasattr on the instance would fill the cache)
        return None
    c = pickle.loads(pickle.dumps(css))
    a1 = bool(c.has_specification())
    d1 = {k: set(v) for k, v in c.ruledb.pruned_dict.items()}
    o1 = _equiv_obs(c)
    c.ruledb._pruned_dict = None  # pylint: disable=protected-access
    a2 = bool(c.has_specification())
    d2 = {k: set(v) for k, v in c.ruledb.pruned_dict.items()}
    o2 = _equiv_obs(c)
    if a1 != a2:
        return "has_specification() answers %s with the cached pruned dictionary and %s after dropping the cache" % (a1, a2)
    if d1 != d2 or o1 != o2:
        return "recomputing the pruned dictionary right after computing it gives a different dictionary / equivalence database"
    return None


class _Stop(BaseException):
    pass


ERR = {"KeyError": 1, "IndexError": 6, "StrategyDoesNotApply": 7}


class _Hooks:
    """instance-level wrappers of Part A (closures: removed before the searcher is pickled)"""

    def __init__(self, fake, blind=False):
        self.fake = fake
        self.blind = blind
        self.cur = {"ds": [], "pts": None, "ans": None, "marks": None, "state": None, "members": None, "full": None,
                    "real_ans": []}
        self.events = []          # ("hand" | "isv" | "exp", label[, answer]) for the lost-packet accounting
        self.css = None

    def install(self, css):
        self.css = css
        self.fake.css = css
        cur, fake, events = self.cur, self.fake, self.events
        orig_has = css.has_specification

        def has_spec():
            cur["pts"].append(css.classqueue.handed)
            cur["marks"].append(len(css.classqueue.ctx.events))
            # the state the call leaves behind, before a specification is extracted from it
            cur["state"] = _state(css)
            cur["members"] = _members(css) if css.classqueue.ctx.table else None
            cur["full"] = _full_members(css) if css.classqueue.ctx.table else None
            fake.extra += cur["ds"].pop(0) if cur["ds"] else 0
            a = bool(orig_has())
            cur["real_ans"].append(a)
            if self.blind:
                a = False
            cur["ans"].append(a)
            return a

        css.has_specification = has_spec
        # every work packet taken from the queue must be processed (expanded, or skipped because its
        # class is verified): an interruption may only fall BETWEEN packets
        css.classqueue.events = events
        orig_expand, orig_isv = css._expand, css.ruledb.is_verified  # pylint: disable=protected-access

        def log_expand(comb_class, label, strategies, inferral):
            events.append(("exp", label))
            return orig_expand(comb_class, label, strategies, inferral)

        def log_isv(label):
            a = orig_isv(label)
            events.append(("isv", label, bool(a)))
            return a

        css._expand = log_expand  # pylint: disable=protected-access
        css.ruledb.is_verified = log_isv

    def remove(self):
        css = self.css
        if css is None:
            return
        css.__dict__.pop("has_specification", None)
        css.__dict__.pop("_expand", None)
        css.ruledb.__dict__.pop("is_verified", None)
        css.classqueue.events = None
        self.css = None


def _sevents(ctx, events):
    """[20 ..] / [21] markers + searcher-level events -> the sevents of Searcher/Step.v"""
    out = []
    for e in events:
        if e[0] == 20:
            out.append([0, e[1], e[2], e[3], []])
        elif e[0] == 21:
            out.append([1])
        elif e[0] in (0, 1, 2, 3, 4):
            if out and out[-1][0] == 0:
                out[-1][4].append(e)
            else:
                out.append([9, e])        # an event outside any packet: never matches the model
    return out


def _table_part(case, answers):
    from harness.props import c04 as P04

    u = case["universe"]
    mode = {"base": 0, "forget": 0, "forest_noreverse": 1, "forest": 2}[case["ruledb"]]
    empty, strats, ver, sym = P04._enc_universe(u)  # pylint: disable=protected-access
    p = u["pack"]
    return [[mode, int(bool(case.get("expand_verified"))), 2 * u["ncls"] + 12, u["start"], int(case["ruledb"] == "forget")],
            empty, strats, ver, sym,
            list(p["inferral"]), list(p["initial"]), [list(x) for x in p["expansion"]], list(answers)]


def _hyp_bits(case, step_calls):
    """the table hypotheses of C17_resumed_search_gives_add_hist / _find_rule_total / _emptiness_truthful decided in
    Python (harness/props/hyps.py: the predicates of c04.py) on the universe of the case and the packets the real queue
    handed out in the compared calls - the same ten bits Searcher/SlicingRun.v hyps_c17 prints:
    [mode0 && table_hyps, mode0 && find_rule_hyps, mode0, pe, sym, sym_unary, items_plain, packets_in, cap, reversible]"""
    from harness.props import hyps

    mode0 = int(case["ruledb"] in ("base", "forget"))
    packets = [[e[1], e[2], e[3]] for c in step_calls for e in c[3] if e[0] == 0]
    b = hyps.bits(case["universe"], packets)
    table_ok = int(bool(b[2] and b[3] and b[4] and b[5]))
    return [int(bool(mode0 and table_ok)), int(bool(mode0 and table_ok and b[7] and b[8])), mode0] + b[2:]


def _uninterrupted(case, points, total, crashed):
    """ONE _expand_classes_for run (no slices, no time limit, no second call), consulting has_specification at
    the packet counts `points`, stopped after `total` packets.  Returns (events, state, answers, exception name)."""
    from comb_spec_searcher.exception import StrategyDoesNotApply

    ctx = TraceCtx(case["kind"] == "table")
    ref = _make(case, ctx)
    n_init = len(ctx.events)
    pts = list(points)
    ans = []

    def before_next(q):
        while pts and pts[0] == q.handed:
            pts.pop(0)
            ans.append(bool(ref.has_specification()))
        if q.handed >= total and not pts:
            raise _Stop()

    ref.classqueue.before_next = before_next
    exc = None
    try:
        ref._expand_classes_for(1e18, None, 0, 0)  # pylint: disable=protected-access
    except _Stop:
        pass
    except (KeyError, IndexError, StrategyDoesNotApply) as e:
        if not crashed:
            raise
        exc = type(e).__name__
    ref.classqueue.before_next = None
    while pts and exc is None:
        pts.pop(0)
        ans.append(bool(ref.has_specification()))
    return [e for e in ctx.events[n_init:] if e[0] != 21], _state(ref), ans, exc


def _run_calls(case, css, ctx, fake, ci0, out, ship=False):
    """Part A proper: the calls case["calls"][ci0:] made on `css` under the fake clock, with the searcher saved and
    restored between two calls when the case says so.  Used by impl() from the first call on, and - with ship -
    by the child interpreter (_child_main) from the call after the pickling point on.  -> dict"""
    import comb_spec_searcher.comb_spec_searcher as mod
    from comb_spec_searcher.exception import ExceededMaxtimeError, SpecificationNotFound, StrategyDoesNotApply

    table = case["kind"] == "table"
    hooks = _Hooks(fake, bool(case.get("blind")))
    hooks.install(css)
    cur = hooks.cur
    real_time = mod.time
    R = {"results": [], "model_calls": [], "step_calls": [], "all_points": [], "n_avail": 10 ** 6, "final_spec_counts": None,
         "crashed": None, "end_mark": len(ctx.events), "job": None, "job_at": None, "facts": []}
    try:
        mod.time = fake
        ncalls = len(case["calls"])
        for ci in range(ci0, ncalls):
            maxt, ds = case["calls"][ci]
            cur["ds"], cur["pts"], cur["ans"], cur["marks"] = list(ds), [], [], []
            ev0 = len(ctx.events)
            try:
                rules = css._auto_search_rules(  # pylint: disable=protected-access
                    max_expansion_time=None if maxt < 0 else maxt, perc=case["perc"]
                )
                code = 0
                if not table:
                    from comb_spec_searcher import CombinatorialSpecification

                    spec = CombinatorialSpecification(css.start_class, rules)
                    R["final_spec_counts"] = [spec.count_objects_of_size(n) for n in range(8)]
                else:
                    list(rules)
            except ExceededMaxtimeError:
                code = 1
            except SpecificationNotFound:
                code = 2
                R["n_avail"] = css.classqueue.handed
            except (KeyError, IndexError, StrategyDoesNotApply) as e:
                # a table universe that breaks the strategy contracts kills the expansion; the model dies the same way
                if not table or cur["ans"][-1:] == [True]:
                    if not table:
                        raise
                    code = 0
                    out["problems"].append("table extraction: %s" % type(e).__name__)
                else:
                    code = 4
                    R["crashed"] = type(e).__name__
            except (RuntimeError, ValueError, AssertionError) as e:
                if not table:
                    raise
                code = 0  # found, but concrete rules cannot be re-created in this table universe
                out["problems"].append("table extraction: %s" % type(e).__name__)
            if css.classqueue.dry_at is not None:
                R["n_avail"] = css.classqueue.dry_at
            k = cur["pts"][-1] if cur["pts"] else css.classqueue.handed
            if code == 4:
                k = css.classqueue.handed
                R["end_mark"] = len(ctx.events)
                cur["state"], cur["members"], cur["full"] = _state(css), _members(css), _full_members(css)
            else:
                R["end_mark"] = cur["marks"][-1] if cur["marks"] else len(ctx.events)
                R["results"].append([code, k, list(cur["pts"])])
            R["all_points"].extend(cur["pts"])
            R["model_calls"].append([maxt, list(ds), [int(a) for a in cur["ans"]], int(code == 4)])
            R["step_calls"].append([code, k, list(cur["pts"]), _sevents(ctx, ctx.events[ev0:R["end_mark"]])])
            if code in (0, 2, 4):
                break
            if case.get("pickle_between") and ci + 1 < ncalls:
                # an interrupted search is saved and restored: the next call is made on the COPY
                hooks.remove()
                blob = pickle.dumps(css)
                copy_ = pickle.loads(blob)
                prob, facts = _copy_problem(css, copy_, "between two calls (after %d packets)" % css.classqueue.handed)
                R["facts"].extend(facts)
                if prob:
                    out["problems"].append(prob)
                if ship and R["job"] is None:
                    # ... and, in a fraction of the cases, ALSO in a fresh interpreter, from the same bytes
                    R["job"] = {"part": "A", "blob": blob, "ci": ci + 1, "extra": fake.extra, "mark": len(ctx.events),
                                "uid": _uid_of(css)}
                    R["job_at"] = {"results": len(R["results"]), "handed": css.classqueue.handed}
                css = copy_
                ctx = css.classqueue.ctx
                hooks.install(css)
    finally:
        mod.time = real_time
        hooks.remove()
    R["css"], R["ctx"], R["cur"], R["hook_events"] = css, ctx, cur, hooks.events
    return R


def _child_env(case):
    import comb_spec_searcher

    env = dict(os.environ)
    here = os.path.dirname(os.path.dirname(os.path.dirname(os.path.abspath(__file__))))
    repo = os.path.dirname(os.path.dirname(os.path.abspath(comb_spec_searcher.__file__)))
    env["PYTHONPATH"] = repo + os.pathsep + here            # as ./check sets it
    env["PYTHONHASHSEED"] = str(int(case.get("xseed", 1)) or 1)
    env["PYTHONDONTWRITEBYTECODE"] = "1"
    return env


CHILD_TIMEOUT = 600


def _spawn_child(case, jobs):
    """Load the pickled searchers of `jobs` in a FRESH interpreter (another PYTHONHASHSEED) and continue them there
    with the same scripted calls.  -> list of results (one per job) or {"error": ...}"""
    import base64
    import subprocess
    import sys

    payload = {"case": case, "jobs": [dict(j, blob=base64.b64encode(j["blob"]).decode()) for j in jobs]}
    try:
        p = subprocess.run([sys.executable, "-c", "from harness.props import c17; c17._child_main()"],
                           input=json.dumps(payload).encode(), capture_output=True, timeout=CHILD_TIMEOUT,
                           env=_child_env(case), check=False)
    except subprocess.TimeoutExpired:
        return {"error": "the fresh interpreter did not finish within %ds" % CHILD_TIMEOUT}
    if p.returncode != 0:
        return {"error": "exit %d: %s" % (p.returncode, p.stderr.decode(errors="replace")[-600:])}
    try:
        return json.loads(p.stdout.decode().strip().splitlines()[-1])
    except Exception as e:  # pylint: disable=broad-except
        return {"error": "unreadable answer (%s): %s" % (e, p.stdout.decode(errors="replace")[-300:])}


def _uid_of(css):
    """table universes: the key under which the classes of this searcher look their table up (harness/universes/table.py)"""
    return getattr(css.classdb.get_class(css.start_label), "uid", None)


def _child_main():
    """entry point of the fresh interpreter: stdin = JSON {case, jobs}, stdout = one JSON line"""
    import base64
    import logging
    import sys

    sys.setrecursionlimit(100000)
    try:
        import logzero

        logzero.loglevel(logging.ERROR)
        logging.getLogger().setLevel(logging.ERROR)
    except Exception:  # pylint: disable=broad-except
        pass
    payload = json.loads(sys.stdin.buffer.read().decode())
    case = payload["case"]
    # what unpickling needs to find: the logging subclasses, and the table the classes of a table universe refer to
    _queue_class()
    _classdb_class()
    _db_class(case["ruledb"])
    answers = []
    for job in payload["jobs"]:
        try:
            if case["kind"] == "table":
                u = dict(case["universe"])
                u["uid"] = job["uid"]
                T.register(u)
            css = pickle.loads(base64.b64decode(job["blob"]))
            answers.append(_continue_job(case, css, job))
        except BaseException as e:  # pylint: disable=broad-except
            import traceback

            answers.append({"exception": "%s: %s" % (type(e).__name__, e), "trace": traceback.format_exc()[-800:]})
    sys.stdout.write("\n" + json.dumps({"hashseed": os.environ.get("PYTHONHASHSEED"), "pid": os.getpid(), "answers": answers}) + "\n")


def _continue_job(case, css, job):
    """continue a restored searcher with the scripted calls and describe what happened (same code in the parent
    for the searcher continued in-process and in the child for the one restored from the bytes)"""
    if job["part"] == "A":
        fake = _FakeTime()
        fake.extra = job["extra"]
        out = {"problems": []}
        R = _run_calls(case, css, css.classqueue.ctx, fake, job["ci"], out)
        return _obs_A(case, R, job["mark"], 0, out)
    n0, res = _continue_B(css, job["n"], job["pending"])
    return _obs_B(case, css, res, job["mark"])


def _obs_A(case, R, mark, first_result, out):
    css, ctx = R["css"], R["ctx"]
    raw = [R["results"][first_result:], ctx.events[mark:R["end_mark"]], R["cur"]["state"] or _state(css)]
    return {"raw": raw, "x": dict(_xobs(css, ctx.events[mark:R["end_mark"]]), results=R["results"][first_result:],
                                  counts=R["final_spec_counts"], crashed=R["crashed"]),
            "problems": [p for p in out["problems"] if p.startswith("failing input")]}


def _continue_B(x, n, pending_query):
    if pending_query and x.has_specification():
        return n, (n, x.ruledb.log, _state(x), True)
    return n, _drive(x, n)


def _obs_B(case, x, res, mark):
    ev = x.classqueue.ctx.events[mark:]
    obs = _xobs(x, ev)
    spec = _spec_info(x, case)
    return {"raw": [res[0], res[1], res[2], res[3], ev], "x": dict(obs, packets=res[0], found=res[3]), "spec": spec}


def _judge_child(out, what, mine, theirs):
    """the searcher continued here vs the one restored in the fresh interpreter"""
    if "exception" in theirs:
        out["problems"].append("failing input: %s: the searcher restored in a fresh interpreter (PYTHONHASHSEED=%s) "
                               "failed: %s" % (what, out.get("xseed"), theirs["exception"]))
        return
    for p in theirs.get("problems", []):
        out["problems"].append(p + " [in the fresh interpreter, %s]" % what)
    d = _obs_diff(json.loads(json.dumps(mine["x"])), theirs["x"])
    if d:
        out["problems"].append("failing input: %s: restored in a fresh interpreter (PYTHONHASHSEED=%s) the search does not "
                               "go on as it does here: %s" % (what, out.get("xseed"), d))
        return
    if "spec" in mine:
        ms, ts = mine["spec"], theirs["spec"]
        if ms["kind"] != ts["kind"] or ms.get("counts") != ts.get("counts") or ts.get("bad"):
            out["problems"].append("failing input: %s: the specification returned in the fresh interpreter: %s %s %s, here: %s %s"
                                   % (what, ts["kind"], ts.get("counts"), ts.get("bad"), ms["kind"], ms.get("counts")))
            return
        out["xfacts"].append("xspec_same_rules" if ms.get("rules") == ts.get("rules") else "xspec_other_rules")
    out["xfacts"].append("xproc_exact" if json.loads(json.dumps(mine["raw"])) == theirs["raw"] else "xproc_same_up_to_order")


def impl(case):
    from comb_spec_searcher.exception import StrategyDoesNotApply

    out = {"problems": [], "facts": [], "xfacts": [], "eq_blind": [], "xseed": case.get("xseed")}
    table = case["kind"] == "table"
    jobs, mine = [], []          # searchers shipped to the fresh interpreter / what their twins did here
    # ---------------- Part A: control flow and event trace under the fake clock
    random.seed(case.get("tree_seed", 0))
    ctx = TraceCtx(table)
    try:
        css = _make(case, ctx)
    except (KeyError, IndexError, StrategyDoesNotApply) as e:
        if not table:
            raise
        # a table universe that breaks the strategy contracts already in __init__: nothing to interrupt or pickle
        out.update({"out": [], "model_in": [0, 1, []], "results": [], "crashed": "init:" + type(e).__name__,
                    "final_counts": None, "truth": None, "packets": 0, "pickled_at": [], "total_packets_A": 0})
        return out
    n_init = len(ctx.events)
    init_events = [e for e in ctx.events if e[0] in (0, 1, 2, 3, 4)]
    fake = _FakeTime()
    R = _run_calls(case, css, ctx, fake, 0, out, ship=bool(case.get("xproc")))
    css, ctx, cur = R["css"], R["ctx"], R["cur"]
    results, crashed, end_mark = R["results"], R["crashed"], R["end_mark"]
    out["facts"].extend(R["facts"])
    if R["job"] is not None:
        jobs.append(R["job"])
        mine.append(("the searcher pickled between two calls after %d packets" % R["job_at"]["handed"],
                     _obs_A(case, R, R["job"]["mark"], R["job_at"]["results"], {"problems": []})))
    lost = _lost_packets(R["hook_events"], bool(case.get("expand_verified")))
    if lost is not None and crashed is None:
        out["problems"].append(
            "failing input: work packet %d (label %d) was taken from the queue but never processed "
            "(an interruption fell inside a packet: the resumed search does not continue from where it stopped)" % lost
        )
    total = css.classqueue.handed
    # A3: one uninterrupted run with the same has_specification() consultations
    sliced = [e for e in ctx.events[n_init:end_mark] if e[0] != 21]
    ref_events, ref_state, ref_ans, ref_exc = _uninterrupted(case, R["all_points"], total, crashed is not None)
    if crashed is None:
        flat_ans = list(cur["real_ans"])
        if ref_events != sliced:
            i = next((j for j, (x, y) in enumerate(zip(ref_events, sliced)) if x != y), min(len(ref_events), len(sliced)))
            out["problems"].append(
                "failing input: the event traces of the %d calls, concatenated, differ from the trace of the uninterrupted "
                "run at event %d (%r instead of %r): the sliced search does not go through the same work"
                % (len(R["step_calls"]), i, sliced[i] if i < len(sliced) else None, ref_events[i] if i < len(ref_events) else None)
            )
        elif ref_state != (cur["state"] or _state(css)):
            out["problems"].append("failing input: the searcher after the interrupted calls differs from the uninterrupted run (class database / expanded sets)")
        elif ref_ans != flat_ans:
            out["problems"].append("failing input: has_specification answers %r in the sliced run and %r in the uninterrupted run" % (flat_ans, ref_ans))
    elif ref_exc != crashed:
        out["problems"].append("the sliced run died with %s, the uninterrupted run with %s" % (crashed, ref_exc))
    out["model_in"] = [R["n_avail"], 100 // case["perc"], R["model_calls"]]
    if table:
        final = [ERR.get(crashed, 0) if crashed else 0, 0] + (cur["members"] or _members(css)) + (cur["full"] or _full_members(css))
        # last element: the verdict of the theorems' table hypotheses, compared by the core with what the extracted
        # deciders (Searcher/Deciders.v, evaluated by run_c17 on the table part) print
        out["hyp"] = _hyp_bits(case, R["step_calls"])
        out["out"] = [results, [init_events, R["step_calls"], final, out["hyp"]]]
        out["model_in"].append(_table_part(case, ctx.answers))
    else:
        out["out"] = results
    out["results"] = results
    out["crashed"] = crashed
    out["final_counts"] = R["final_spec_counts"]
    out["truth"] = W.true_counts(W.start(case["start"]), 7) if case["kind"] == "word" else None

    # ---------------- Part B: pickle at k, continue both, compare with the uninterrupted run
    ref = _make(case, TraceCtx(table))
    try:
        npk, ref_trace, ref_state, ref_spec = _drive(ref, 0)
    except (KeyError, IndexError, StrategyDoesNotApply):
        if not table:
            raise
        out["packets"] = total
        out["pickled_at"] = []
        out["total_packets_A"] = total
        _ship(case, out, jobs, mine)
        return out
    ref_events_B = list(ref.classqueue.ctx.events)
    out["packets"] = npk
    # pickling points beyond the end of a short search are folded back into it
    ks = sorted({k if k <= npk else k % (npk + 1) for k in case["pickle_at"]})
    if case.get("every_k"):
        ks = list(range(npk + 1))
    out["pickled_at"] = ks
    # the specification finally returned is extracted and judged for the cases restored in a fresh interpreter and
    # for a third of the others (the extraction - minimisation in the forest flavours - costs as much as the search)
    spec_done = not (case.get("xproc") or case.get("tree_seed", 0) % 3 == 0 or case.get("every_k"))
    probed = False
    for k in ks:
        a = _make(case, TraceCtx(table))
        # the same call pattern up to packet k (k <= npk: no True answer before)
        n = 0
        while n < k and _one_packet(a):
            n += 1
            if n % 7 == 0 and n < k:
                a.has_specification()
        pending_query = n % 7 == 0 and n > 0 and n == k
        mark = len(a.classqueue.ctx.events)
        blob = pickle.dumps(a)
        b = pickle.loads(blob)
        prob, facts = _copy_problem(a, b, "after %d packets" % k)
        out["facts"].extend(facts)
        if prob:
            out["problems"].append(prob)
            continue
        if _state(a) != _state(b):
            out["problems"].append("failing input: state differs right after unpickling at %d" % k)
            continue
        if not out["eq_blind"] and not probed and k > 0:
            probed = True                      # once per case: it is a fact about the library's ==, not about this k
            eb = _eq_blind_probe(a, blob)
            if eb:
                out["eq_blind"].append("after %d packets: %s" % (k, eb))
        ip = _recompute_idem_problem(a)
        if ip:
            out["problems"].append("failing input: after %d packets: %s" % (k, ip))
        copies = [a, b]
        if getattr(a.ruledb, "_pruned_dict", None) is not None:
            # a third copy, without the derived cache: answers must not depend on its presence
            c = pickle.loads(blob)
            c.ruledb._pruned_dict = None  # pylint: disable=protected-access
            copies.append(c)
        res_ab = []
        for x in copies:
            r = _continue_B(x, n, pending_query)[1]
            res_ab.append(tuple(r) + (x.classqueue.ctx.events,))
        ra, rb = res_ab[0], res_ab[1]
        if ra != rb:
            what = ["packets", "ruledb.add trace", "class database / expanded sets", "has_specification()", "event trace"]
            out["problems"].append("failing input: original and unpickled copy diverge after pickling at %d (%s)"
                                   % (k, ", ".join(w for w, x, y in zip(what, ra, rb) if x != y)))
            continue
        if len(res_ab) > 2 and res_ab[2] != ra:
            out["problems"].append("failing input: a copy made after %d packets without the _pruned_dict cache diverges from the original (answers depend on the cache)" % k)
            continue
        if ra != (npk, ref_trace, ref_state, ref_spec, ref_events_B):
            out["problems"].append(
                "failing input: run pickled at %d differs from the uninterrupted run (packets %s, trace %s, state %s, spec %s, events %s)"
                % (k, ra[0] == npk, ra[1] == ref_trace, ra[2] == ref_state, ra[3] == ref_spec, ra[4] == ref_events_B)
            )
            continue
        # ... and at the END of the continuation the two are still the same searcher, member by member
        d = _deep_diff(_deep(a, SKIP_AFTER_WORK, UNORDERED_AFTER_WORK), _deep(b, SKIP_AFTER_WORK, UNORDERED_AFTER_WORK))
        if d is None and _cache_picture(a) != _cache_picture(b):
            d = "searcher.ruledb._pruned_dict"
        if d:
            out["problems"].append("failing input: original and copy unpickled after %d packets have gone through the same "
                                   "calls (%d packets) but are no longer the same searcher: %s" % (k, ra[0], d))
            continue
        ship = bool(case.get("xproc")) and len(jobs) < 3
        if ship:
            jobs.append({"part": "B", "blob": blob, "n": n, "pending": pending_query, "mark": mark, "uid": _uid_of(a)})
            mine.append(("the searcher pickled after %d packets" % k, _obs_B(case, b, rb, mark)))
        if ra[3] and (ship or not spec_done):
            # the specification finally returned by the original and by the restored searcher
            spec_done = True
            sa = _spec_info(a, case)
            sb = mine[-1][1]["spec"] if ship else _spec_info(b, case)
            if sa["kind"] != sb["kind"] or sa.get("counts") != sb.get("counts"):
                out["problems"].append("failing input: pickled after %d packets and continued, the original returns %s %s, the restored searcher %s %s"
                                       % (k, sa["kind"], sa.get("counts"), sb["kind"], sb.get("counts")))
            for who, si in (("original", sa), ("restored searcher", sb)):
                if si.get("bad"):
                    out["problems"].append("failing input: pickled after %d packets and continued, the specification the %s returns: %s" % (k, who, "; ".join(si["bad"][:3])))
                elif si.get("counts") is not None and si["counts"] != out["truth"]:
                    out["problems"].append("failing input: pickled after %d packets and continued, the specification the %s returns counts %r, brute force %r" % (k, who, si["counts"], out["truth"]))
            out["facts"].append("spec_same_rules" if sa.get("rules") == sb.get("rules") else "spec_other_rules")
            out["facts"].append("spec_checked:" + sa["kind"].split(":")[0])
    out["total_packets_A"] = total
    _ship(case, out, jobs, mine)
    return out


def _ship(case, out, jobs, mine):
    if not jobs:
        return
    ans = _spawn_child(case, jobs)
    out["xproc_jobs"] = len(jobs)
    if "error" in ans:
        out["problems"].append("failing input: restoring the pickled searcher in a fresh interpreter (PYTHONHASHSEED=%s): %s"
                               % (case.get("xseed"), ans["error"]))
        return
    out["child"] = [ans.get("hashseed"), ans.get("pid")]
    if str(ans.get("hashseed")) == str(os.environ.get("PYTHONHASHSEED")) or ans.get("pid") == os.getpid():
        out["problems"].append("harness: the fresh interpreter is not fresh (hash seed %s, pid %s)" % (ans.get("hashseed"), ans.get("pid")))
    for (what, m), t in zip(mine, ans["answers"]):
        _judge_child(out, what, m, t)


def _lost_packets(events, expand_verified):
    """(index, label) of the first packet handed out by the queue that was neither expanded nor
    skipped because its class is verified; None when every packet was processed."""
    npk = 0
    i = 0
    while i < len(events):
        ev = events[i]
        if ev[0] != "hand":
            i += 1
            continue
        npk += 1
        label = ev[1]
        j = i + 1
        processed = False
        while j < len(events) and events[j][0] != "hand":
            e = events[j]
            if e[0] == "exp" and e[1] == label:
                processed = True
                break
            if not expand_verified and e[0] == "isv" and e[1] == label and e[2]:
                processed = True     # skipped: the class is verified
                break
            j += 1
        if not processed:
            return (npk, label)
        i += 1
    return None


def encode_with(case, res):
    return res.get("model_in", [0, 1, []])


# what a table universe that breaks the strategy contracts makes the engine raise (anything else - and any timeout -
# is reported)
TABLE_EXCEPTIONS = ("KeyError", "IndexError", "StrategyDoesNotApply", "AssertionError", "RuntimeError", "ValueError",
                    "RecursionError")


def oracle(case, res):
    if "exception" in res:
        if case["kind"] == "table" and res["exception"].split(":")[0] in TABLE_EXCEPTIONS:
            return None  # nonsense table universes may break the engine before anything is returned
        return "search raised " + res["exception"]
    for p in res["problems"]:
        if p.startswith("failing input") or p.startswith("harness:"):
            return p
    hb = res.get("hyp")
    if hb and not (hb[7] and hb[6]):
        # hold BY CONSTRUCTION on this stream: the packets come from the real DefaultQueue (packets_in is the theorem
        # search_in_pack of the queue model, which is why the C17 theorems do not assume it), and the table generators
        # let factories hide plain strategies only.  The contracts and sym_unary are broken on purpose by a share of
        # the universes (weak / wild regimes, factories used as symmetries): tags only.
        return ("harness: %s violated, which holds by construction of the queue / the table generators (hypothesis of "
                "C17_resumed_search_gives_add_hist)" % ("packets_in" if not hb[7] else "items_plain"))
    # control-flow facts decided directly on the real run
    n_avail, mult, calls = res["model_in"][:3]
    prev_k = 0
    for (code, k, pts), (maxt, ds, ans) in zip(res["results"], [c[:3] for c in calls]):
        if any(p < prev_k for p in pts) or pts != sorted(pts):
            return "decision points %r go backwards (previous call stopped at %d)" % (pts, prev_k)
        if code == 0 and not (ans and ans[-1] == 1 and not any(ans[:-1])):
            return "specification reported although has_specification answers were %r" % ans
        if code in (1, 2) and any(ans):
            return "call ended with code %d although has_specification answered True" % code
        if code == 1 and maxt < 0:
            return "ExceededMaxtimeError without a time limit"
        prev_k = k
    if res.get("final_counts") is not None and res["final_counts"] != res["truth"]:
        return "specification returned after interruptions counts %r, brute force %r" % (
            res["final_counts"], res["truth"])
    # last, so that it never hides anything else: the library's == as a notion of `equals the original`
    if res.get("eq_blind"):
        return EQ_BLIND_WHY + res["eq_blind"][0]
    return None


EQ_BLIND_WHY = ("the library's == calls two searchers equal whose equivalence databases differ (same universe, same "
                "packets processed, one of them additionally asked has_specification()): ")


def finding_match(case, why):
    """the known finding (known_findings.json, kind open): RuleDBBase.__eq__ ignores the equivalence database"""
    return EQ_BLIND if str(why).startswith(EQ_BLIND_WHY) else None


def nontrivial(case, res):
    if res.get("packets", 0) < 8:
        return False
    inter = any(c[0] == 1 for c in res.get("results", []))
    inner = any(0 < k < res.get("packets", 0) for k in res.get("pickled_at", []))
    return inter or inner


def key(case):
    return json.dumps(case, sort_keys=True)


def classify(case, res):
    tags = [case["kind"], "db=" + case["ruledb"], "perc=%d" % case["perc"]]
    for c in res.get("results", []):
        tags.append({0: "found", 1: "exceeded", 2: "notfound"}.get(c[0], "other"))
    if case.get("pickle_between") and len(res.get("results", [])) > 1:
        tags.append("pickled_between_calls")
    if res.get("crashed"):
        tags.append("expansion_died:" + str(res["crashed"]))
    if case["kind"] == "table" and isinstance(res.get("out"), list) and len(res["out"]) == 2:
        tags.append("step_machine_compared")
        npk = sum(1 for c in res["out"][1][1] for e in c[3] if e[0] == 0)
        tags.append("step_packets<=5" if npk <= 5 else "step_packets<=20" if npk <= 20 else "step_packets>20")
    hb = res.get("hyp")
    if hb:
        from harness.props import hyps

        b9 = [0, 0] + hb[3:]
        m0 = [("mode 0 (pruning database)", bool(hb[2]))]
        tags.append(hyps.verdict_tag("C17_resumed_search_gives_add_hist", b9, "search", also=m0))
        tags.append(hyps.verdict_tag("C17_resumed_search_find_rule_total", b9, "find_rule", also=m0))
        tags.append(hyps.verdict_tag("C17_resumed_search_emptiness_truthful", b9, "contracts"))
    tags.append("pickle_points=%d" % len(res.get("pickled_at", [])))
    for f in sorted(set(res.get("facts", []) + res.get("xfacts", []))):
        tags.append(f)
    if res.get("xproc_jobs"):
        tags.append("restored_in_fresh_interpreter")
    if res.get("eq_blind"):
        tags.append("library_eq_blind_to_equivdb")
    return tags


PICKLE_HOOKS = ("__getstate__", "__setstate__", "__reduce__", "__reduce_ex__", "__getnewargs__", "__getnewargs_ex__",
                "__deepcopy__", "__copy__")


def _pickle_hooks_in_package(root=None):
    """AST scan of every module of the package for anything that changes what pickle writes or reads for an instance:
    a method or class-level assignment named like a pickling / copying hook (PICKLE_HOOKS), any use of the copyreg
    module (import, copyreg.pickle, dispatch tables), a setattr(cls, "<hook>", ...) or a string naming a hook used
    as an attribute name.  Searcher/Pickle.v's dump/load (`pickle writes the instance __dict__s and reads them
    back`) describes the package only while this finds nothing.  -> (hits, number of files scanned, problems)"""
    import ast

    import comb_spec_searcher

    root = root or os.path.dirname(comb_spec_searcher.__file__)
    hits, nfiles, problems = [], 0, []
    for d, _, files in sorted(os.walk(root)):
        for f in sorted(files):
            if not f.endswith(".py"):
                continue
            path = os.path.join(d, f)
            rel = os.path.relpath(path, root)
            nfiles += 1
            try:
                with open(path, encoding="utf-8") as fh:
                    tree = ast.parse(fh.read(), filename=path)
            except (SyntaxError, OSError, UnicodeDecodeError) as e:
                problems.append("%s: cannot be parsed (%s)" % (rel, type(e).__name__))
                continue

            def hit(node, what, rel=rel):
                hits.append("%s:%d: %s" % (rel, getattr(node, "lineno", 0), what))

            class V(ast.NodeVisitor):
                def __init__(self):
                    self.cls = []

                def visit_ClassDef(self, node):
                    self.cls.append(node.name)
                    self.generic_visit(node)
                    self.cls.pop()

                def _fn(self, node):
                    if node.name in PICKLE_HOOKS:
                        hit(node, "%s defines %s" % (".".join(self.cls) or "<module>", node.name))
                    self.generic_visit(node)

                visit_FunctionDef = _fn
                visit_AsyncFunctionDef = _fn

                def visit_Assign(self, node):
                    for t in node.targets:
                        for n in ast.walk(t):
                            if (isinstance(n, ast.Name) and n.id in PICKLE_HOOKS) or (isinstance(n, ast.Attribute) and n.attr in PICKLE_HOOKS):
                                hit(node, "%s assigns %s" % (".".join(self.cls) or "<module>", getattr(n, "id", getattr(n, "attr", "?"))))
                    self.generic_visit(node)

                def visit_AnnAssign(self, node):
                    n = node.target
                    if (isinstance(n, ast.Name) and n.id in PICKLE_HOOKS) or (isinstance(n, ast.Attribute) and n.attr in PICKLE_HOOKS):
                        hit(node, "%s assigns %s" % (".".join(self.cls) or "<module>", getattr(n, "id", getattr(n, "attr", "?"))))
                    self.generic_visit(node)

                def visit_Import(self, node):
                    for a in node.names:
                        if a.name.split(".")[0] == "copyreg":
                            hit(node, "imports copyreg")

                def visit_ImportFrom(self, node):
                    if (node.module or "").split(".")[0] == "copyreg":
                        hit(node, "imports from copyreg")

                def visit_Name(self, node):
                    if node.id == "copyreg":
                        hit(node, "uses copyreg")

                def visit_Attribute(self, node):
                    if node.attr in ("dispatch_table", "reducer_override"):
                        hit(node, "uses %s" % node.attr)
                    self.generic_visit(node)

                def visit_Constant(self, node):
                    if isinstance(node.value, str) and node.value in PICKLE_HOOKS:
                        hit(node, "names %s in a string (setattr / getattr?)" % node.value)

            V().visit(tree)
    return hits, nfiles, problems


def _scan_selftest():
    """the scanner itself: it must see each kind of hook in a small synthetic package and nothing in a clean one"""
    import shutil
    import tempfile

    d = tempfile.mkdtemp(prefix="c17scan")
    try:
        samples = {
            "a.py": "class A:\n    def __getstate__(self):\n        return {}\n",
            "b.py": "import copyreg\n",
            "c.py": "class C:\n    __reduce__ = None\n",
            "d.py": "class D:\n    pass\nsetattr(D, '__setstate__', lambda s, st: None)\n",
            "e.py": "class E:\n    def __deepcopy__(self, memo):\n        return self\n",
            "clean.py": "class F:\n    def __init__(self):\n        self.x = 1\n    def getstate(self):\n        return 1\n",
        }
        for n, src in samples.items():
            with open(os.path.join(d, n), "w") as fh:
                fh.write(src)
        hits, n, problems = _pickle_hooks_in_package(d)
        seen = {h.split(":")[0] for h in hits}
        return seen == {"a.py", "b.py", "c.py", "d.py", "e.py"} and n == 6 and not problems, sorted(seen)
    finally:
        shutil.rmtree(d, ignore_errors=True)


def extra_checks(ctx):
    """every tier: the pickling-hook scan (a verdict), what the fresh interpreters saw; thorough tier: pickle at EVERY
    prefix length for a few universes"""
    res = []
    ok_self, seen = _scan_selftest()
    res.append(("the pickling-hook scanner sees every kind of hook in a synthetic package and none in a clean module",
                ok_self, "flagged: %s" % seen))
    hits, nfiles, problems = _pickle_hooks_in_package()
    # A verdict: Searcher/Pickle.v reads pickle as `writes the instance __dict__s, reads them back`; a class that
    # customises pickling (or copying) makes that premise void, whether or not the customisation is harmful - the tie
    # between C17_pickle_roundtrip / C17_pickle_commutes and the code is then broken and only the oracle (Part B, the
    # pickling between calls, the fresh interpreter) speaks about pickling.
    results = [r[0] if isinstance(r, tuple) else r for r in ctx.impl_res]        # core keeps (result, verdict, nontrivial)
    failing = [w for c, r in zip(ctx.cases, results) for w in [oracle(c, r)] if w and finding_match(c, w) is None]
    detail = "AST scan of %d modules for %s, copyreg, dispatch tables: nothing" % (nfiles, ", ".join(PICKLE_HOOKS))
    if hits or problems:
        detail = ("the premise of Searcher/Pickle.v (`pickle writes the instance __dict__s`) no longer describes the package: "
                  + "; ".join((hits + problems)[:6]))
        detail += (" - a failing input was found by the oracle (see the failing-input replay)" if failing else
                   " - the oracle found no input on which a restored searcher misbehaves")
    res.append(("no class of the package customises pickling or copying (the model's reading of pickle applies)",
                not (hits or problems), detail))
    # the restores in a fresh interpreter: how many, and how close to the in-process continuation they were
    jobs = sum(int(r.get("xproc_jobs", 0)) for r in results if isinstance(r, dict))
    xf = {}
    for r in results:
        for f in (r.get("xfacts", []) if isinstance(r, dict) else []):
            xf[f] = xf.get(f, 0) + 1
    res.append(("information: searchers restored in a fresh interpreter (other PYTHONHASHSEED) among the retained cases",
                True, "%d searchers; %s" % (jobs, ", ".join("%s=%d" % kv for kv in sorted(xf.items())) or "-")))
    # coverage of the composed theorems: compared table runs (state machine compared) on which the extracted deciders
    # say the hypotheses hold
    from harness.props import hyps

    hbs = [r["hyp"] for r in results if isinstance(r, dict) and r.get("hyp")]
    nm0 = sum(1 for hb in hbs if hb[2])
    why_not = {}
    for hb in hbs:
        if hb[2]:
            for m in hyps.missing([0, 0] + hb[3:], "search")[:1]:
                why_not[m] = why_not.get(m, 0) + 1
    res.append(hyps.coverage_check(
        "C17_resumed_search_gives_add_hist", [bool(hb[0]) for hb in hbs], MIN_COVERED_ADD_HIST, "compared table runs",
        "%d of them with mode 0 (pruning database: the hypothesis mode =? 0; the forest databases are outside the "
        "theorem); among the mode-0 runs not covered because of: %s; C17_resumed_search_find_rule_total: %d covered"
        % (nm0, why_not or "-", sum(1 for hb in hbs if hb[1]))))
    res.append(hyps.coverage_check(
        "C17_resumed_search_emptiness_truthful", [bool(hb[3] and hb[4]) for hb in hbs], MIN_COVERED_EMPTINESS,
        "compared table runs", "every database mode; verdicts = the extracted deciders on the table part of the case, "
        "equal to the Python predicates on every case (part of the compared output); packets_in (a theorem here, not a "
        "hypothesis) true on all %d runs" % sum(1 for hb in hbs if hb[7])))
    if ctx.tier != "thorough":
        return res
    rng = random.Random(ctx.seed + 17)
    n = 0
    for case in gen(rng, "thorough"):
        n += 1
        if n > 24:
            break
        case["every_k"] = True
        case["xproc"] = False
        case["calls"] = [[-1, [0]]]
        try:
            r = impl(case)
        except Exception as e:  # pylint: disable=broad-except
            if case["kind"] == "table":
                continue
            res.append(("every-k pickling", False, "failing input: %s raised %r" % (key(case)[:200], e)))
            continue
        bad = [p for p in r["problems"] if p.startswith("failing input")]
        if bad:
            res.append(("every-k pickling", False, bad[0] + " case " + key(case)[:300]))
    res.append(("pickled at every prefix length for %d universes" % (n - 1), True, ""))
    return res


TECHNIQUE = (
    "Coq proof (the searcher as a packet-level state machine built from the C04/C15/C16 models; its time-sliced "
    "drivers, under a clock that counts packets and advances by scripted non-negative amounts at has_specification "
    "calls, equal the uninterrupted iteration; the control-flow model is the state machine's control flow; fuel bounds; "
    "the C04 conclusions for every sliced run) + extracted-model/implementation correspondence of event traces and "
    "full final state across interruptions + pickle/resume oracle with a harness-side deep comparison and restores in "
    "a fresh interpreter; the table hypotheses (and mode 0) of the composed theorems C17_resumed_search_* are decided per "
    "compared table run by extracted deciders (verdict compared with the harness's predicates; covered fraction "
    "reported and enforced)"
)
LEVEL_TEXT = (
    "State transformation (Searcher/Step.v, proofs StepProofs.v, Resume.v): `step` = one turn of the loop of _expand_classes_for "
    "(next of the C16 queue model, get_class, the is_verified gate, _expand of the C04 model, the queue calls of the "
    "packet applied to the queue); _expand_classes_for (with its last_label cache) and _auto_search_rules are "
    "transcribed on top with the clock of Slicing.v. For every strategy table, database mode, pack, expand_verified, "
    "perc, every script of successive auto_search calls (time limits, clock advances, has_specification answers), "
    "every is_verified answer stream and every state satisfying the C04 invariant (C17_reachable: every state "
    "reachable from __init__): C17_slicing_independent (the state after the calls, whatever they return or raise, is "
    "`iterate step n` of the state before and the concatenated events of the calls are the events of that "
    "uninterrupted iteration, n = number of next(queue) calls), C17_no_packet_lost, C17_packet_count, "
    "C17_dry_is_stable, C17_notfound_means_dry, C17_resume_composes / C17_calls_compose, C17_queue_total, "
    "C17_state_is_members (true by construction of step). NEW: C17_control_flow_is_state_machine (a call of the state "
    "machine that does not die in the expansion returns exactly what the control-flow model Slicing.auto_search returns "
    "for the n_avail that describes its queue) and C17_state_machine_control_flow (hence decisions only between packets "
    "at counts in [k, k + packets processed], Found only at the first true answer, Exceeded only past a set limit, "
    "NotFound only at the queue's own exhaustion point right after a dry turn - statements about the state machine, no "
    "longer about a parameter); C17_auto_search_fuel (fuel > n_avail - k excludes OutOfFuel of the control-flow model; "
    "the bound is tight) and C17_run_calls_fuel (for the state machine: if the queue can hand out at most N more "
    "packets and every call's script has at least N - 1 has_specification answers, no call answers OutOfFuel; "
    "C17_packets_bounded_when_dry supplies N), so the control-flow theorems are no longer conditional on an unbounded "
    "fuel; C17_resumed_search_rules_from_table / C17_resumed_from_any_state_rules_from_table / "
    "C17_resumed_search_labels / C17_resumed_search_emptiness_truthful (the conclusions of C04 - every ruledb.add and every "
    "stored key justified by the strategy table w.r.t. the final class database, labels injective and stable, under the "
    "table contracts truthful emptiness and exact keys - for EVERY script of calls, i.e. for every interrupted / resumed "
    "run; C04 states them for one uninterrupted packet list; that the packets carry strategies of the pack, a hypothesis "
    "of C04's theorems, is here a theorem about the C16 queue model: Searcher/QueuePack.v); C17_resumed_search_gives_add_hist "
    "and C17_resumed_search_find_rule_total (COMPOSITION with C14/C02, pruning databases, tables honouring the contracts, "
    "unary symmetries, faithful rule objects: after EVERY script of calls the class database and the key sets of the two rule "
    "stores are those of a RuleDB state reached by an add_hist history, the emptiness cache is truthful, and C02's model of "
    "SpecificationRuleExtractor._find_rule turns every key of rule_to_strategy and of eqv_rule_to_strategy back into a rule "
    "filed under that key - C04_search_gives_add_hist / C02_search_find_rule_total for interrupted and resumed searches; "
    "the three *_decided corollaries restate them with the table hypotheses replaced by the booleans run_c17 prints for "
    "the table part of every compared table run (last element of the state-machine output, compared with the plugin's "
    "Python verdict): they cover " + F17A + " (add_hist / find_rule_total: mode 0 AND contracts; " + F17M0 + " have mode 0) and " +
    F17E + " (emptiness_truthful) of the compared table runs and no word run; "
    "ghost predicate Gres of Searcher/ResumeHist.v, which unlike C04's does not mention the trace the state machine "
    "forgets between packets). Control flow (Slicing.v): C17_resume_from / "
    "C17_notfound_only_when_exhausted (about the parameter n_avail) / C17_exceeded_only_past_limit. Pickle.v / Cache.v: "
    "C17_pickle_roundtrip / C17_pickle_commutes (dump/load on the members: load(dump s) = of_members(members_of s), = s "
    "on the normal states step produces; true by construction, NOT tied to pickle), C17_cache_transparent / "
    "C17_cache_invariant (an abstract invalidate-on-add cache). The state machine is tied to the code by running the "
    "real _auto_search_rules under the fake clock on TABLE universes and comparing, call by call, decision points, "
    "outcomes, the event trace and, at the end, every member of the model state (class database, the three sets, both "
    "rule stores' keys, _already_empty, the complete queue); word universes tie the control-flow triple only."
)
LEVEL_NOTE = (
    "Correspondence / oracle only, and nothing more: (1) PICKLING. Searcher/Pickle.v is the identity on the members; it "
    "is not extracted and not run against pickle. What is checked is per instance: after every unpickling original and "
    "copy are compared member by member by the harness (not by the library's __eq__, which for RuleDB / "
    "RuleDBForgetStrategy ignores the equivalence database - a known finding reported by this check, see "
    "findings/c17_eq_ignores_equivdb.py), they are continued side by side, and in a fraction of the cases the bytes are "
    "restored in a fresh interpreter with another hash seed; the AST scan decides whether a class customises pickling. "
    "(2) ruledb.is_verified and has_specification are inputs of the models (answer streams): for the pruning databases "
    "has_specification() marks labels verified, so the state is not a function of the packet count alone; the theorems "
    "say `given the same answers`, i.e. they ASSUME that a restored rule database answers as the original; that it does "
    "is the oracle's verdict (verified set and equivalence classes compared directly after unpickling and at the end). "
    "(3) C17_cache_transparent is about ABSTRACT engines (recompute, root_in), never instantiated with the C05/C06 models; the "
    "idempotence contract is checked on the real code at every pickling point, and a copy without the cache is run "
    "alongside. (4) `WHATEVER SPECIFICATION IT FINALLY RETURNS SATISFIES C01/C02`: a theorem only for ONE ingredient of C02 - "
    "C17_resumed_search_find_rule_total: on the rule database an interrupted / resumed search leaves (pruning flavours, "
    "table-level hypotheses), _find_rule is total and files every rule under its key. There is NO theorem that the "
    "specification extracted from such a state is closed / has one rule per class / is productive (C02_closed speaks about "
    "`extract` under a find_path contract, C02's constructor theorems about wf_input; neither is derived from a reachable "
    "searcher state), none for the forest flavours, and none for C01 (C01_spec_correct needs per-specification "
    "hypotheses genuine / local / pumps). What is "
    "checked for those is per instance, word universes only: the specification returned after interruptions (Part A), and by the "
    "original and the restored searcher after pickling (Part B sample, fresh-interpreter cases), is accepted by the "
    "CombinatorialSpecification constructor, has one rule per class, a rule for every class reachable from the start class, "
    "and counts every such class as brute force does (n < 6; start class n < 8). Table universes: only that original and "
    "restored searcher end the extraction the same way (rules / same exception). (5) An expansion that dies with an "
    "exception (table universes breaking the strategy contracts) is followed by the state machine up to that point "
    "(outcome Crashed); the control-flow model skips such a call; a universe on which already "
    "CombinatorialSpecificationSearcher.__init__ raises (a `symmetry` mapping an empty class to a non-empty one makes "
    "RuleDBForest._add_empty_rule call EmptyStrategy on a non-empty class: StrategyDoesNotApply) has nothing to interrupt or "
    "pickle and is recorded as crashed = init:... (6) The clock family is packets + scripted "
    "non-negative integer advances at has_specification calls; every slicing into slices of >= 1 packet is reachable "
    "that way, other clocks are not modelled. Trusted: Coq kernel, extraction, harness, the fake clock, the logging "
    "subclasses, the child-process protocol."
)
