"""C17 — a search pickled or interrupted at any point resumes faithfully."""
import json
import pickle
import random

from harness.universes import runs
from harness.universes import table as T
from harness.universes import words_ext as W

ID = "C17"
TITLE = "pickled / interrupted searches resume faithfully"
COQ_PROPS = "Props/C17.v"
COQ_RUN = ("Searcher.SlicingRun", "run_c17")
GEN_TARGETS = []
N = {"quick": 3000, "thorough": 15000}
CASE_CPU_SECONDS = 30
RULE = (
    "a universe (word universe with any pack, or random table universe), a rule database (RuleDB, "
    "RuleDBForgetStrategy, RuleDBForest with/without reverse), perc, and a script of successive auto-search calls "
    "(time limit, clock advance per has_specification call). Part A: the real _auto_search_rules runs under a fake "
    "clock (packets processed + scripted advances); the packet counts at which has_specification is consulted and "
    "the outcome of every call (found / ExceededMaxtimeError / SpecificationNotFound) are compared with the model. "
    "Part B (oracle): for several prefix lengths k the searcher is pickled after exactly k packets, the copy must "
    "equal the original, both are continued with identical calls and must produce identical ruledb.add traces, class "
    "databases and answers, equal to the uninterrupted run; in thorough tier every k. Specifications finally "
    "returned after interruptions are counted against brute force (word universes). Non-trivial: at least one "
    "interruption or pickling point strictly inside the run and >= 8 packets; distinct = distinct case."
)
TRUSTED = [
    "modelled, not verified: comb_spec_searcher.py _auto_search_rules/_expand_classes_for control flow — "
    "Searcher/Slicing.v tied by Part A; the fake clock replaces time.time in that module only",
    "pickle's object-graph fidelity (shared lists in ClassDB, ruledb->searcher back reference) is Python runtime "
    "behaviour outside any Gallina model: covered by Part B only",
]
ASSUMPTIONS = [
    "the searcher's state after k packets is a deterministic function of the universe, the database flavour and the "
    "history of has_specification() calls (pruning databases mark labels verified when asked) — validated by Part B",
]

PERCS = [1, 2, 5, 10, 20, 25, 50, 100]


def gen(rng, tier):
    while True:
        case = runs.gen_case(rng, table_fraction=0.45)
        case["perc"] = rng.choice(PERCS)
        ncalls = rng.randint(1, 4)
        calls = []
        for _ in range(ncalls):
            maxt = rng.choice([-1, -1, 0, 1, 2, 3, 5, 8, 13, 30])
            ds = [rng.choice([0, 0, 1, 1, 2, 3]) for _ in range(rng.randint(1, 12))]
            calls.append([maxt, ds])
        calls.append([-1, [0] * 6])  # a last unlimited call
        case["calls"] = calls
        case["pickle_at"] = sorted({rng.randint(0, 40) for _ in range(3)})
        yield case


# ------------------------------------------------------------------ instrumented classes
def _queue_class():
    from comb_spec_searcher.class_queue import DefaultQueue

    global CountingQueue
    try:
        return CountingQueue
    except NameError:
        pass

    class CountingQueue(DefaultQueue):  # pylint: disable=redefined-outer-name
        def __init__(self, pack):
            super().__init__(pack)
            self.handed = 0
            self.dry_at = None
            self.events = None      # Part A: list of ("hand" | "isv" | "exp", label[, answer])

        def __next__(self):
            try:
                p = super().__next__()
            except StopIteration:
                self.dry_at = self.handed
                raise
            self.handed += 1
            if self.events is not None:
                self.events.append(("hand", p[0]))
            return p

    CountingQueue.__module__ = __name__
    CountingQueue.__qualname__ = "CountingQueue"
    return CountingQueue


def _db_class(name):
    from comb_spec_searcher.rule_db import RuleDB, RuleDBForest, RuleDBForgetStrategy

    key = "LogDB_" + name
    if key in globals():
        return globals()[key]
    base = {"base": RuleDB, "forget": RuleDBForgetStrategy, "forest": RuleDBForest, "forest_noreverse": RuleDBForest}[name]

    class LogDB(base):
        def __init__(self, *a, **k):
            super().__init__(*a, **k)
            self.log = []

        def add(self, start, ends, rule):
            self.log.append([start, list(ends), str(rule.strategy)])
            super().add(start, ends, rule)

        def get_specification_rules(self, **kwargs):
            kwargs["minimization_time_limit"] = 0
            return super().get_specification_rules(**kwargs)

    LogDB.__module__ = __name__
    LogDB.__qualname__ = key
    LogDB.__name__ = key
    globals()[key] = LogDB
    return LogDB


def _make(case):
    from comb_spec_searcher import CombinatorialSpecificationSearcher

    dbc = _db_class(case["ruledb"])
    db = dbc(reverse=(case["ruledb"] == "forest")) if case["ruledb"].startswith("forest") else dbc()
    if case["kind"] == "word":
        start, pack = W.start(case["start"]), W.PACKS[case["pack"]]()
    else:
        u = dict(case["universe"])
        u.pop("uid", None)
        uid = T.register(u)
        start, pack = T.start_class(uid, case.get("compressed", False)), T.make_pack(uid)
    return CombinatorialSpecificationSearcher(
        start, pack, ruledb=db, classqueue=_queue_class()(pack), expand_verified=bool(case.get("expand_verified"))
    )


class _FakeTime:
    """stands for the `time` module inside comb_spec_searcher.comb_spec_searcher"""

    def __init__(self):
        self.css = None
        self.extra = 0

    def time(self):
        return float(self.css.classqueue.handed + self.extra)


def _one_packet(css):
    return css._expand_classes_for(-1, None, 0, 0)[0]  # pylint: disable=protected-access


def _state(css):
    cdb = css.classdb
    return [
        [str(cdb.get_class(l)) for l in range(len(cdb.comb_class_list))],
        [None if e is None else int(e) for e in cdb.empty_list],
        sorted(css.tried_to_verify),
        sorted(css.symmetry_expanded),
        sorted(css.inferral_expanded),
        css.classqueue.handed,
    ]


PACKET_LIMIT = 120


def _drive(css, n0):
    """Continue a searcher that has processed n0 packets with a FIXED call pattern (a
    has_specification() query after every 7th packet, stop at the first True answer, at
    queue exhaustion or after PACKET_LIMIT packets in total).  Returns (packets, trace,
    state, has_spec)."""
    n = n0
    found = False
    while n < PACKET_LIMIT and not found:
        if not _one_packet(css):
            break
        n += 1
        if n % 7 == 0:
            found = bool(css.has_specification())
    return n, css.ruledb.log, _state(css), bool(css.has_specification())


def impl(case):
    import comb_spec_searcher.comb_spec_searcher as mod
    from comb_spec_searcher.exception import ExceededMaxtimeError, SpecificationNotFound

    out = {"problems": []}
    # ---------------- Part A: control flow under the fake clock
    random.seed(case.get("tree_seed", 0))
    css = _make(case)
    fake = _FakeTime()
    fake.css = css
    points, answers_all = [], []
    orig_has = css.has_specification
    cur = {"ds": [], "pts": None, "ans": None}

    def has_spec():
        cur["pts"].append(css.classqueue.handed)
        fake.extra += cur["ds"].pop(0) if cur["ds"] else 0
        a = bool(orig_has())
        cur["ans"].append(a)
        return a

    css.has_specification = has_spec
    # every work packet taken from the queue must be processed (expanded, or skipped because its
    # class is verified): an interruption may only fall BETWEEN packets
    events = css.classqueue.events = []
    orig_expand, orig_isv = css._expand, css.ruledb.is_verified  # pylint: disable=protected-access

    def log_expand(comb_class, label, strategies, inferral):
        events.append(("exp", label))
        return orig_expand(comb_class, label, strategies, inferral)

    def log_isv(label):
        a = orig_isv(label)
        events.append(("isv", label, bool(a)))
        return a

    css._expand = log_expand  # pylint: disable=protected-access
    css.ruledb.is_verified = log_isv
    real_time = mod.time
    results, model_calls = [], []
    n_avail = 10 ** 6
    final_spec_counts = None
    try:
        mod.time = fake
        for maxt, ds in case["calls"]:
            cur["ds"], cur["pts"], cur["ans"] = list(ds), [], []
            try:
                rules = css._auto_search_rules(  # pylint: disable=protected-access
                    max_expansion_time=None if maxt < 0 else maxt, perc=case["perc"]
                )
                code = 0
                if case["kind"] == "word":
                    from comb_spec_searcher import CombinatorialSpecification

                    spec = CombinatorialSpecification(css.start_class, rules)
                    final_spec_counts = [spec.count_objects_of_size(n) for n in range(8)]
                else:
                    list(rules)
            except ExceededMaxtimeError:
                code = 1
            except SpecificationNotFound:
                code = 2
                n_avail = css.classqueue.handed
            except (RuntimeError, ValueError, AssertionError) as e:
                if case["kind"] != "table":
                    raise
                code = 0  # found, but concrete rules cannot be re-created in this table universe
                out["problems"].append("table extraction: %s" % type(e).__name__)
            if css.classqueue.dry_at is not None:
                n_avail = css.classqueue.dry_at
            k = cur["pts"][-1] if cur["pts"] else css.classqueue.handed
            results.append([code, k, list(cur["pts"])])
            model_calls.append([maxt, list(ds), [int(a) for a in cur["ans"]]])
            if code in (0, 2):
                break
    finally:
        mod.time = real_time
        del css.has_specification
        del css._expand  # pylint: disable=protected-access
        del css.ruledb.is_verified
        css.classqueue.events = None
    lost = _lost_packets(events, bool(case.get("expand_verified")))
    if lost is not None:
        out["problems"].append(
            "failing input: work packet %d (label %d) was taken from the queue but never processed "
            "(an interruption fell inside a packet: the resumed search does not continue from where it stopped)" % lost
        )
    out["out"] = results
    out["model_in"] = [n_avail, 100 // case["perc"], model_calls]
    out["final_counts"] = final_spec_counts
    out["truth"] = W.true_counts(W.start(case["start"]), 7) if case["kind"] == "word" else None
    total = css.classqueue.handed

    # ---------------- Part B: pickle at k, continue both, compare with the uninterrupted run
    ref = _make(case)
    npk, ref_trace, ref_state, ref_spec = _drive(ref, 0)
    out["packets"] = npk
    ks = [k for k in case["pickle_at"] if k <= npk]
    if case.get("every_k"):
        ks = list(range(npk + 1))
    out["pickled_at"] = ks
    for k in ks:
        a = _make(case)
        # the same call pattern up to packet k (k <= npk: no True answer before)
        n = 0
        while n < k and _one_packet(a):
            n += 1
            if n % 7 == 0 and n < k:
                a.has_specification()
        pending_query = n % 7 == 0 and n > 0 and n == k
        b = pickle.loads(pickle.dumps(a))
        if not b == a:
            out["problems"].append("failing input: searcher unpickled after %d packets is != the original" % k)
            continue
        if _state(a) != _state(b):
            out["problems"].append("failing input: state differs right after unpickling at %d" % k)
            continue
        res_ab = []
        for x in (a, b):
            if pending_query and x.has_specification():
                res_ab.append((n, x.ruledb.log, _state(x), True))
            else:
                res_ab.append(_drive(x, n))
        ra, rb = res_ab
        if ra != rb:
            out["problems"].append("failing input: original and unpickled copy diverge after pickling at %d" % k)
        elif ra != (npk, ref_trace, ref_state, ref_spec):
            out["problems"].append(
                "failing input: run pickled at %d differs from the uninterrupted run (packets %s, trace %s, state %s, spec %s)"
                % (k, ra[0] == npk, ra[1] == ref_trace, ra[2] == ref_state, ra[3] == ref_spec)
            )
    out["total_packets_A"] = total
    return out


def _lost_packets(events, expand_verified):
    """(index, label) of the first packet handed out by the queue that was neither expanded nor
    skipped because its class is verified; None when every packet was processed."""
    npk = 0
    i = 0
    while i < len(events):
        ev = events[i]
        if ev[0] != "hand":
            i += 1
            continue
        npk += 1
        label = ev[1]
        j = i + 1
        processed = False
        while j < len(events) and events[j][0] != "hand":
            e = events[j]
            if e[0] == "exp" and e[1] == label:
                processed = True
                break
            if not expand_verified and e[0] == "isv" and e[1] == label and e[2]:
                processed = True     # skipped: the class is verified
                break
            j += 1
        if not processed:
            return (npk, label)
        i += 1
    return None


def encode_with(case, res):
    return res.get("model_in", [0, 1, []])


def oracle(case, res):
    if "exception" in res:
        if case["kind"] == "table" and "CaseTimeout" not in res["exception"]:
            return None  # nonsense table universes may break the engine before anything is returned
        return "search raised " + res["exception"]
    for p in res["problems"]:
        if p.startswith("failing input"):
            return p
    # control-flow facts decided directly on the real run
    n_avail, mult, calls = res["model_in"]
    prev_k = 0
    for (code, k, pts), (maxt, ds, ans) in zip(res["out"], calls):
        if any(p < prev_k for p in pts) or pts != sorted(pts):
            return "decision points %r go backwards (previous call stopped at %d)" % (pts, prev_k)
        if code == 0 and not (ans and ans[-1] == 1 and not any(ans[:-1])):
            return "specification reported although has_specification answers were %r" % ans
        if code in (1, 2) and any(ans):
            return "call ended with code %d although has_specification answered True" % code
        if code == 1 and maxt < 0:
            return "ExceededMaxtimeError without a time limit"
        prev_k = k
    if res.get("final_counts") is not None and res["final_counts"] != res["truth"]:
        return "specification returned after interruptions counts %r, brute force %r" % (
            res["final_counts"], res["truth"])
    return None


def nontrivial(case, res):
    if res.get("packets", 0) < 8:
        return False
    inter = any(c[0] == 1 for c in res.get("out", []))
    inner = any(0 < k < res.get("packets", 0) for k in res.get("pickled_at", []))
    return inter or inner


def key(case):
    return json.dumps(case, sort_keys=True)


def classify(case, res):
    tags = [case["kind"], "db=" + case["ruledb"], "perc=%d" % case["perc"]]
    for c in res.get("out", []):
        tags.append({0: "found", 1: "exceeded", 2: "notfound"}.get(c[0], "other"))
    tags.append("pickle_points=%d" % len(res.get("pickled_at", [])))
    return tags


def extra_checks(ctx):
    """thorough tier: pickle at EVERY prefix length for a few universes"""
    if ctx.tier != "thorough":
        return []
    res = []
    rng = random.Random(ctx.seed + 17)
    n = 0
    for case in gen(rng, "thorough"):
        n += 1
        if n > 24:
            break
        case["every_k"] = True
        case["calls"] = [[-1, [0]]]
        try:
            r = impl(case)
        except Exception as e:  # pylint: disable=broad-except
            if case["kind"] == "table":
                continue
            res.append(("every-k pickling", False, "failing input: %s raised %r" % (key(case)[:200], e)))
            continue
        bad = [p for p in r["problems"] if p.startswith("failing input")]
        if bad:
            res.append(("every-k pickling", False, bad[0] + " case " + key(case)[:300]))
    res.append(("pickled at every prefix length for %d universes" % (n - 1), True, ""))
    return res


TECHNIQUE = "Coq proof (control flow of the sliced search under an arbitrary clock: decisions only between packets, resumption from the packet count reached) + pickle/resume correspondence at the event-trace level"
LEVEL_TEXT = (
    "C17_resume_from / C17_notfound_only_when_exhausted / C17_exceeded_only_past_limit prove, for every clock script, "
    "time limit, perc and answer sequence, that _auto_search_rules consults has_specification only between work "
    "packets at non-decreasing packet counts starting where the previous call stopped, reports a specification only "
    "on (and at the first) true answer, raises SpecificationNotFound only once the queue is dry and "
    "ExceededMaxtimeError only past the limit. The model is tied to the code by running the real method under a fake "
    "clock. That a pickled searcher equals the original and continues through the same work is established by "
    "pickling after k packets (sampled k in quick, every k in thorough), comparing equality, ruledb.add traces, class "
    "database and answers of original, copy and uninterrupted run — a correspondence, not a theorem."
)
LEVEL_NOTE = (
    "Partial by nature: pickle's fidelity on the object graph is Python runtime behaviour no Gallina model can exhibit. "
    "The searcher state is abstracted to the number of packets processed; its determinism is what Part B checks. "
    "Trusted: Coq kernel, extraction, harness, the fake clock."
)
