"""C17 — a search pickled or interrupted at any point resumes faithfully."""
import json
import pickle
import random

from harness.universes import runs
from harness.universes import table as T
from harness.universes import words_ext as W

ID = "C17"
TITLE = "pickled / interrupted searches resume faithfully"
COQ_PROPS = "Props/C17.v"
COQ_RUN = ("Searcher.SlicingRun", "run_c17")
GEN_TARGETS = []
N = {"quick": 6000, "thorough": 24000}
CASE_CPU_SECONDS = 30
RULE = (
    "a universe (word universe with any pack, or table universe: random_universe, or - 85% - the best connected of "
    "three rich_universe tables with at most one strategy-verified class; 70% of the table runs are `blind`: the real "
    "has_specification is called, side effects included, but the search is told `not yet`, so that the whole "
    "universe is worked through to queue exhaustion), a rule database (RuleDB, RuleDBForgetStrategy, RuleDBForest with/without reverse), perc, and a "
    "script of successive auto-search calls (time limit, clock advance per has_specification call), with or without "
    "pickling the searcher between two calls. Part A: the real _auto_search_rules runs under a fake clock (packets "
    "processed + scripted advances); (1) the packet counts at which has_specification is consulted and the outcome "
    "of every call (found / ExceededMaxtimeError / SpecificationNotFound) are compared with the control-flow model; "
    "(2) table universes: the EVENT TRACE of every call (packets handed out by the real DefaultQueue, and per packet "
    "the ruledb.add calls, searcher-issued classdb.set_empty, classqueue.add/set_not_inferrable/set_stop_yielding) "
    "and the final class database / tried_to_verify / symmetry_expanded / inferral_expanded are compared with the "
    "packet-level state machine (Searcher/Step.v: C04 model + C16 queue model) run on the same table, the same "
    "script and the recorded is_verified / has_specification answers; (3) oracle, all universes: the concatenated "
    "traces of the slices equal the trace of ONE uninterrupted _expand_classes_for run that consults "
    "has_specification at the same packet counts, and so do the final states; every packet handed out is "
    "processed. Part B (oracle): for several prefix lengths k the searcher is pickled after exactly k packets, the "
    "copy must equal the original and have the sharing of the original object graph, original, copy and a copy "
    "whose _pruned_dict cache was dropped are continued with identical calls and must produce identical ruledb.add "
    "traces, class databases and answers, equal to the uninterrupted run; in thorough tier every k. Specifications "
    "finally returned after interruptions are counted against brute force (word universes). Non-trivial: at least "
    "one interruption or pickling point strictly inside the run and >= 8 packets; distinct = distinct case."
)
TRUSTED = [
    "modelled, not verified: comb_spec_searcher.py _auto_search_rules/_expand_classes_for (control flow: "
    "Searcher/Slicing.v; state transformation: Searcher/Step.v on top of the C04, C15 and C16 models) tied by Part A; "
    "the fake clock replaces time.time in that module only",
    "the logging subclasses of this plugin (CountingQueue, LogDB_*, LogClassDB) and the instance-level wrappers of "
    "has_specification / _expand / ruledb.is_verified",
    "pickle's object-graph fidelity (shared lists in ClassDB, ruledb->searcher back reference) is Python runtime "
    "behaviour outside any Gallina model (Searcher/Pickle.v makes the sharing explicit and shows the value-level "
    "model cannot see it): covered by Part B and by the identity checks after every unpickling only",
    "ruledb.is_verified and has_specification are not modelled: their answers are recorded from the real run and "
    "replayed (the theorems quantify over all answer sequences); the engines behind RuleDBBase's _pruned_dict cache "
    "are abstract in Searcher/Cache.v, their idempotence contract is checked on the real code at every pickling point",
]
ASSUMPTIONS = [
    "the searcher's state after k packets is a deterministic function of the universe, the database flavour and the "
    "history of has_specification() calls (pruning databases mark labels verified when asked) — validated by Parts A3 and B",
    "C17_cache_transparent assumes that recomputing the pruned dictionary twice in a row changes nothing observable "
    "(recompute_idem) — checked on the real code at every pickling point",
    "no class of the package customises pickling (__getstate__/__setstate__/__reduce__/__reduce_ex__/__getnewargs__): "
    "grepped on every run and reported in the evidence (extra_checks, information only); with such a hook the model's "
    "dump/load is no longer a description of what pickle writes and only Part B / the pickling between calls decide",
]

PERCS = [1, 2, 5, 10, 20, 25, 50, 100]


def _reach(u):
    """number of classes the table lets a search reach from the start class (workable expanding strategies only)"""
    p = u["pack"]
    sids = list(p["initial"]) + list(p["inferral"]) + [x for l in p["expansion"] for x in l]
    seen, todo = {u["start"]}, [u["start"]]
    while todo:
        c = todo.pop()
        for sid in sids:
            st = u["strats"][sid]
            ents = []
            if st["kind"] == "F":
                for it in st["apply"].get(str(c), []):
                    e = u["strats"][it["sid"]]["apply"].get(str(c if it["on"] is None else it["on"]))
                    if e is not None and u["strats"][it["sid"]]["flags"][3]:
                        ents.append(e)
            elif str(c) in st["apply"] and st["flags"][3]:
                ents.append(st["apply"][str(c)])
            for e in ents:
                for k in e["children"]:
                    if k not in seen and not u["empty"][k]:
                        seen.add(k)
                        todo.append(k)
    return len(seen)


def gen(rng, tier):
    while True:
        case = runs.gen_case(rng, table_fraction=0.45)
        if case["kind"] == "table" and rng.random() < 0.85:
            from harness.universes import table_c04 as R

            x = rng.random()
            regime = "strong" if x < 0.85 else "weak" if x < 0.95 else "wild"
            # of three candidates the one where most classes can be reached from the start class
            u = max((R.rich_universe(rng, regime=regime, ncls=rng.randint(4, 10)) for _ in range(3)), key=_reach)
            # long searches: few classes are verified by a strategy (none at all in 40% of the universes), so
            # that a specification is found late or never and the queue is worked through
            for v in u["pack"]["ver"]:
                ap = u["strats"][v]["apply"]
                if u["strats"][v]["kind"] != "V":
                    continue
                keep = [] if rng.random() < 0.4 else rng.sample(sorted(ap), min(len(ap), 1))
                for c in list(ap):
                    if c not in keep:
                        del ap[c]
            if rng.random() < 0.15:
                u["pack"]["iterative"] = 1
            case["universe"] = u
        if case["kind"] == "table" and rng.random() < 0.7:
            # the search is told "no specification yet" whatever the database answers (the real has_specification is
            # still called, with its side effects): the control flow and the state machine are driven through the
            # whole universe, to queue exhaustion, instead of stopping at the first specification
            case["blind"] = True
        case["pickle_between"] = rng.random() < 0.4
        case["perc"] = rng.choice(PERCS)
        ncalls = rng.randint(1, 4)
        calls = []
        for _ in range(ncalls):
            maxt = rng.choice([-1, -1, 0, 1, 2, 3, 5, 8, 13, 30])
            ds = [rng.choice([0, 0, 1, 1, 2, 3]) for _ in range(rng.randint(1, 12))]
            calls.append([maxt, ds])
        calls.append([-1, [0] * 6])  # a last unlimited call
        case["calls"] = calls
        case["pickle_at"] = sorted({rng.randint(0, 40) for _ in range(3)})
        yield case


# ------------------------------------------------------------------ instrumented classes
class TraceCtx:
    """One event log shared by the queue, the rule database and the class database of ONE searcher
    (and of its unpickled copy: pickle keeps identities inside one dump).  Events, C04 numbering:
      [0, start, ends, sid, parent]  ruledb.add          [1, label, v]  classdb.set_empty by the searcher
      [2, l] classqueue.add   [3, l] set_not_inferrable  [4, l] set_stop_yielding   [10, l] set_verified
      [20, label, sids, inferral]  packet handed out by next(queue)      [21]  next(queue) raised StopIteration
    In table universes strategies / classes are their table ids, otherwise their str()."""

    def __init__(self, table):
        self.table = table
        self.events = []
        self.answers = []     # ruledb.is_verified answers, in call order (not those has_specification asks for)

    def __eq__(self, other):
        return isinstance(other, TraceCtx) and vars(self) == vars(other)

    __hash__ = None


def _sid(ctx, strategy):
    return getattr(strategy, "sid", -1) if ctx.table else str(strategy)


def _queue_class():
    from comb_spec_searcher.class_queue import DefaultQueue

    global CountingQueue
    try:
        return CountingQueue
    except NameError:
        pass

    class CountingQueue(DefaultQueue):  # pylint: disable=redefined-outer-name
        def __init__(self, pack):
            super().__init__(pack)
            self.handed = 0
            self.dry_at = None
            self.events = None      # Part A: list of ("hand" | "isv" | "exp", label[, answer])
            self.ctx = None
            self.inside = 0         # calls the queue makes on itself are not observations
            self.before_next = None

        def __next__(self):
            if self.before_next is not None:
                self.before_next(self)
            self.inside += 1
            try:
                p = super().__next__()
            except StopIteration:
                self.dry_at = self.handed
                if self.ctx is not None:
                    self.ctx.events.append([21])
                raise
            finally:
                self.inside -= 1
            self.handed += 1
            if self.events is not None:
                self.events.append(("hand", p[0]))
            if self.ctx is not None:
                self.ctx.events.append([20, p.label, [_sid(self.ctx, x) for x in p.strategies], int(bool(p.inferral))])
            return p

        def _obs(self, tag, label):
            if self.ctx is not None and not self.inside:
                self.ctx.events.append([tag, label])

        def add(self, label):
            self._obs(2, label)
            super().add(label)

        def set_not_inferrable(self, label):
            self._obs(3, label)
            super().set_not_inferrable(label)

        def set_stop_yielding(self, label):
            self._obs(4, label)
            self.inside += 1
            try:
                super().set_stop_yielding(label)
            finally:
                self.inside -= 1

        def set_verified(self, label):
            self._obs(10, label)
            self.inside += 1
            try:
                super().set_verified(label)
            finally:
                self.inside -= 1

    CountingQueue.__module__ = __name__
    CountingQueue.__qualname__ = "CountingQueue"
    return CountingQueue


def _classdb_class():
    from comb_spec_searcher.class_db import ClassDB

    global LogClassDB
    try:
        return LogClassDB
    except NameError:
        pass

    class LogClassDB(ClassDB):  # pylint: disable=redefined-outer-name
        """logs the set_empty calls that come from outside (not those is_empty makes itself)"""

        def __init__(self, cls):
            super().__init__(cls)
            self.ctx = None
            self.depth = 0

        def is_empty(self, comb_class, label=None):
            self.depth += 1
            try:
                return super().is_empty(comb_class, label)
            finally:
                self.depth -= 1

        def set_empty(self, key, empty=True):
            if self.ctx is not None and self.depth == 0:
                self.ctx.events.append([1, key, int(bool(empty))])
            return super().set_empty(key, empty)

    LogClassDB.__module__ = __name__
    LogClassDB.__qualname__ = "LogClassDB"
    return LogClassDB


def _db_class(name):
    from comb_spec_searcher.rule_db import RuleDB, RuleDBForest, RuleDBForgetStrategy

    key = "LogDB_" + name
    if key in globals():
        return globals()[key]
    base = {"base": RuleDB, "forget": RuleDBForgetStrategy, "forest": RuleDBForest, "forest_noreverse": RuleDBForest}[name]

    class LogDB(base):
        def __init__(self, *a, **k):
            super().__init__(*a, **k)
            self.log = []
            self.ctx = None
            self.quiet = 0

        def add(self, start, ends, rule):
            self.log.append([start, list(ends), str(rule.strategy)])
            if self.ctx is not None:
                cls = rule.comb_class
                self.ctx.events.append([0, start, list(ends), _sid(self.ctx, rule.strategy),
                                        cls.n if self.ctx.table else str(cls)])
            super().add(start, ends, rule)

        def is_verified(self, label):
            a = super().is_verified(label)
            if self.ctx is not None and not self.quiet:
                self.ctx.answers.append(int(bool(a)))
            return a

        def has_specification(self):
            self.quiet += 1
            try:
                return super().has_specification()
            finally:
                self.quiet -= 1

        def get_specification_rules(self, **kwargs):
            kwargs["minimization_time_limit"] = 0
            self.quiet += 1
            try:
                return super().get_specification_rules(**kwargs)
            finally:
                self.quiet -= 1

    LogDB.__module__ = __name__
    LogDB.__qualname__ = key
    LogDB.__name__ = key
    globals()[key] = LogDB
    return LogDB


def _make(case, ctx=None):
    from comb_spec_searcher import CombinatorialSpecificationSearcher

    dbc = _db_class(case["ruledb"])
    db = dbc(reverse=(case["ruledb"] == "forest")) if case["ruledb"].startswith("forest") else dbc()
    if case["kind"] == "word":
        start, pack = W.start(case["start"]), W.PACKS[case["pack"]]()
    else:
        u = dict(case["universe"])
        u.pop("uid", None)
        uid = T.register(u)
        start, pack = T.start_class(uid, case.get("compressed", False)), T.make_pack(uid)
    queue = _queue_class()(pack)
    kwargs = {}
    if ctx is not None:
        classdb = _classdb_class()(type(start))
        classdb.ctx = db.ctx = queue.ctx = ctx
        kwargs["classdb"] = classdb
    return CombinatorialSpecificationSearcher(
        start, pack, ruledb=db, classqueue=queue, expand_verified=bool(case.get("expand_verified")), **kwargs
    )


class _FakeTime:
    """stands for the `time` module inside comb_spec_searcher.comb_spec_searcher"""

    def __init__(self):
        self.css = None
        self.extra = 0

    def time(self):
        return float(self.css.classqueue.handed + self.extra)


def _one_packet(css):
    return css._expand_classes_for(-1, None, 0, 0)[0]  # pylint: disable=protected-access


def _state(css):
    cdb = css.classdb
    return [
        [str(cdb.get_class(l)) for l in range(len(cdb.comb_class_list))],
        [None if e is None else int(e) for e in cdb.empty_list],
        sorted(css.tried_to_verify),
        sorted(css.symmetry_expanded),
        sorted(css.inferral_expanded),
        css.classqueue.handed,
    ]


def _members(css):
    """table universes: the members the model's final summary shows"""
    cdb = css.classdb
    return [[cdb.get_class(i).n for i in range(len(cdb.comb_class_list))],
            [-1 if e is None else int(bool(e)) for e in cdb.empty_list],
            sorted(css.tried_to_verify), sorted(css.symmetry_expanded), sorted(css.inferral_expanded)]


PACKET_LIMIT = 120


def _drive(css, n0):
    """Continue a searcher that has processed n0 packets with a FIXED call pattern (a
    has_specification() query after every 7th packet, stop at the first True answer, at
    queue exhaustion or after PACKET_LIMIT packets in total).  Returns (packets, trace,
    state, has_spec)."""
    n = n0
    found = False
    while n < PACKET_LIMIT and not found:
        if not _one_packet(css):
            break
        n += 1
        if n % 7 == 0:
            found = bool(css.has_specification())
    return n, css.ruledb.log, _state(css), bool(css.has_specification())


def _sharing_problem(css):
    """the sharing of the object graph a searcher is born with (None = intact); attributes a refactoring
    may rename are looked up defensively"""
    cdb = css.classdb
    for name in ("comb_class_list", "label_dict", "empty_list"):
        objs = [getattr(o, name, None) for o in (cdb, getattr(cdb, "class_to_info", None), getattr(cdb, "label_to_info", None))]
        objs = [o for o in objs if o is not None]
        if any(o is not objs[0] for o in objs[1:]):
            return "ClassDB.%s is no longer ONE object shared by the class database and its two views" % name
    back = getattr(css.ruledb, "_searcher", css)
    if back is not css:
        return "ruledb._searcher no longer refers to the searcher the rule database belongs to"
    for name in ("_rule_to_strategy", "_eqv_rule_to_strategy"):
        d = getattr(css.ruledb, name, None)
        linked = getattr(d, "_classdb", None)
        if linked is not None and linked is not cdb:
            return "the class database of ruledb.%s is a different object from searcher.classdb" % name
    return None


def _equiv_obs(css):
    """what can be observed of a pruning database's equivalence database: the partition of the labels and
    the verified set"""
    eq = getattr(css.ruledb, "equivdb", None)
    if eq is None:
        return None
    labels = range(len(css.classdb.comb_class_list))
    part = sorted(sorted(l2 for l2 in labels if eq.equivalent(l, l2)) for l in labels)
    return [part, [int(bool(eq.is_verified(l))) for l in labels]]


def _recompute_idem_problem(css):
    """Searcher/Cache.v's contract on the real code: filling the _pruned_dict cache twice in a row finds the
    same dictionary, answers the same and leaves the observable equivalence database as it is"""
    db = css.ruledb
    if "_pruned_dict" not in vars(db) or not hasattr(type(db), "pruned_dict"):   # (hasattr on the instance would fill the cache)
        return None
    c = pickle.loads(pickle.dumps(css))
    a1 = bool(c.has_specification())
    d1 = {k: set(v) for k, v in c.ruledb.pruned_dict.items()}
    o1 = _equiv_obs(c)
    c.ruledb._pruned_dict = None  # pylint: disable=protected-access
    a2 = bool(c.has_specification())
    d2 = {k: set(v) for k, v in c.ruledb.pruned_dict.items()}
    o2 = _equiv_obs(c)
    if a1 != a2:
        return "has_specification() answers %s with the cached pruned dictionary and %s after dropping the cache" % (a1, a2)
    if d1 != d2 or o1 != o2:
        return "recomputing the pruned dictionary right after computing it gives a different dictionary / equivalence database"
    return None


class _Stop(BaseException):
    pass


ERR = {"KeyError": 1, "IndexError": 6, "StrategyDoesNotApply": 7}


class _Hooks:
    """instance-level wrappers of Part A (closures: removed before the searcher is pickled)"""

    def __init__(self, fake, blind=False):
        self.fake = fake
        self.blind = blind
        self.cur = {"ds": [], "pts": None, "ans": None, "marks": None, "state": None, "members": None, "real_ans": []}
        self.events = []          # ("hand" | "isv" | "exp", label[, answer]) for the lost-packet accounting
        self.css = None

    def install(self, css):
        self.css = css
        self.fake.css = css
        cur, fake, events = self.cur, self.fake, self.events
        orig_has = css.has_specification

        def has_spec():
            cur["pts"].append(css.classqueue.handed)
            cur["marks"].append(len(css.classqueue.ctx.events))
            # the state the call leaves behind, before a specification is extracted from it
            cur["state"] = _state(css)
            cur["members"] = _members(css) if css.classqueue.ctx.table else None
            fake.extra += cur["ds"].pop(0) if cur["ds"] else 0
            a = bool(orig_has())
            cur["real_ans"].append(a)
            if self.blind:
                a = False
            cur["ans"].append(a)
            return a

        css.has_specification = has_spec
        # every work packet taken from the queue must be processed (expanded, or skipped because its
        # class is verified): an interruption may only fall BETWEEN packets
        css.classqueue.events = events
        orig_expand, orig_isv = css._expand, css.ruledb.is_verified  # pylint: disable=protected-access

        def log_expand(comb_class, label, strategies, inferral):
            events.append(("exp", label))
            return orig_expand(comb_class, label, strategies, inferral)

        def log_isv(label):
            a = orig_isv(label)
            events.append(("isv", label, bool(a)))
            return a

        css._expand = log_expand  # pylint: disable=protected-access
        css.ruledb.is_verified = log_isv

    def remove(self):
        css = self.css
        if css is None:
            return
        css.__dict__.pop("has_specification", None)
        css.__dict__.pop("_expand", None)
        css.ruledb.__dict__.pop("is_verified", None)
        css.classqueue.events = None
        self.css = None


def _sevents(ctx, events):
    """[20 ..] / [21] markers + searcher-level events -> the sevents of Searcher/Step.v"""
    out = []
    for e in events:
        if e[0] == 20:
            out.append([0, e[1], e[2], e[3], []])
        elif e[0] == 21:
            out.append([1])
        elif e[0] in (0, 1, 2, 3, 4):
            if out and out[-1][0] == 0:
                out[-1][4].append(e)
            else:
                out.append([9, e])        # an event outside any packet: never matches the model
    return out


def _table_part(case, answers):
    from harness.props import c04 as P04

    u = case["universe"]
    mode = {"base": 0, "forget": 0, "forest_noreverse": 1, "forest": 2}[case["ruledb"]]
    empty, strats, ver, sym = P04._enc_universe(u)  # pylint: disable=protected-access
    p = u["pack"]
    return [[mode, int(bool(case.get("expand_verified"))), 2 * u["ncls"] + 12, u["start"]], empty, strats, ver, sym,
            list(p["inferral"]), list(p["initial"]), [list(x) for x in p["expansion"]], list(answers)]


def _uninterrupted(case, points, total, crashed):
    """ONE _expand_classes_for run (no slices, no time limit, no second call), consulting has_specification at
    the packet counts `points`, stopped after `total` packets.  Returns (events, state, answers, exception name)."""
    from comb_spec_searcher.exception import StrategyDoesNotApply

    ctx = TraceCtx(case["kind"] == "table")
    ref = _make(case, ctx)
    n_init = len(ctx.events)
    pts = list(points)
    ans = []

    def before_next(q):
        while pts and pts[0] == q.handed:
            pts.pop(0)
            ans.append(bool(ref.has_specification()))
        if q.handed >= total and not pts:
            raise _Stop()

    ref.classqueue.before_next = before_next
    exc = None
    try:
        ref._expand_classes_for(1e18, None, 0, 0)  # pylint: disable=protected-access
    except _Stop:
        pass
    except (KeyError, IndexError, StrategyDoesNotApply) as e:
        if not crashed:
            raise
        exc = type(e).__name__
    ref.classqueue.before_next = None
    while pts and exc is None:
        pts.pop(0)
        ans.append(bool(ref.has_specification()))
    return [e for e in ctx.events[n_init:] if e[0] != 21], _state(ref), ans, exc


def impl(case):
    import comb_spec_searcher.comb_spec_searcher as mod
    from comb_spec_searcher.exception import ExceededMaxtimeError, SpecificationNotFound, StrategyDoesNotApply

    out = {"problems": []}
    table = case["kind"] == "table"
    # ---------------- Part A: control flow and event trace under the fake clock
    random.seed(case.get("tree_seed", 0))
    ctx = TraceCtx(table)
    css = _make(case, ctx)
    n_init = len(ctx.events)
    init_events = [e for e in ctx.events if e[0] in (0, 1, 2, 3, 4)]
    fake = _FakeTime()
    hooks = _Hooks(fake, bool(case.get("blind")))
    hooks.install(css)
    cur = hooks.cur
    real_time = mod.time
    results, model_calls, step_calls = [], [], []
    all_points = []
    n_avail = 10 ** 6
    final_spec_counts = None
    crashed = None
    end_mark = n_init
    try:
        mod.time = fake
        ncalls = len(case["calls"])
        for ci, (maxt, ds) in enumerate(case["calls"]):
            cur["ds"], cur["pts"], cur["ans"], cur["marks"] = list(ds), [], [], []
            ev0 = len(ctx.events)
            try:
                rules = css._auto_search_rules(  # pylint: disable=protected-access
                    max_expansion_time=None if maxt < 0 else maxt, perc=case["perc"]
                )
                code = 0
                if not table:
                    from comb_spec_searcher import CombinatorialSpecification

                    spec = CombinatorialSpecification(css.start_class, rules)
                    final_spec_counts = [spec.count_objects_of_size(n) for n in range(8)]
                else:
                    list(rules)
            except ExceededMaxtimeError:
                code = 1
            except SpecificationNotFound:
                code = 2
                n_avail = css.classqueue.handed
            except (KeyError, IndexError, StrategyDoesNotApply) as e:
                # a table universe that breaks the strategy contracts kills the expansion; the model dies the same way
                if not table or cur["ans"][-1:] == [True]:
                    if not table:
                        raise
                    code = 0
                    out["problems"].append("table extraction: %s" % type(e).__name__)
                else:
                    code = 4
                    crashed = type(e).__name__
            except (RuntimeError, ValueError, AssertionError) as e:
                if not table:
                    raise
                code = 0  # found, but concrete rules cannot be re-created in this table universe
                out["problems"].append("table extraction: %s" % type(e).__name__)
            if css.classqueue.dry_at is not None:
                n_avail = css.classqueue.dry_at
            k = cur["pts"][-1] if cur["pts"] else css.classqueue.handed
            if code == 4:
                k = css.classqueue.handed
                end_mark = len(ctx.events)
                cur["state"], cur["members"] = _state(css), _members(css)
            else:
                end_mark = cur["marks"][-1] if cur["marks"] else len(ctx.events)
                results.append([code, k, list(cur["pts"])])
            all_points.extend(cur["pts"])
            model_calls.append([maxt, list(ds), [int(a) for a in cur["ans"]], int(code == 4)])
            step_calls.append([code, k, list(cur["pts"]), _sevents(ctx, ctx.events[ev0:end_mark])])
            if code in (0, 2, 4):
                break
            if case.get("pickle_between") and ci + 1 < ncalls:
                # an interrupted search is saved and restored: the next call is made on the COPY
                hooks.remove()
                copy_ = pickle.loads(pickle.dumps(css))
                if not copy_ == css:
                    out["problems"].append("failing input: searcher unpickled between two calls (after %d packets) is != the original" % css.classqueue.handed)
                sp = _sharing_problem(copy_)
                if sp:
                    out["problems"].append("failing input: after unpickling (%d packets): %s" % (css.classqueue.handed, sp))
                css = copy_
                ctx = css.classqueue.ctx
                hooks.install(css)
    finally:
        mod.time = real_time
        hooks.remove()
    lost = _lost_packets(hooks.events, bool(case.get("expand_verified")))
    if lost is not None and crashed is None:
        out["problems"].append(
            "failing input: work packet %d (label %d) was taken from the queue but never processed "
            "(an interruption fell inside a packet: the resumed search does not continue from where it stopped)" % lost
        )
    total = css.classqueue.handed
    # A3: one uninterrupted run with the same has_specification() consultations
    sliced = [e for e in ctx.events[n_init:end_mark] if e[0] != 21]
    ref_events, ref_state, ref_ans, ref_exc = _uninterrupted(case, all_points, total, crashed is not None)
    if crashed is None:
        flat_ans = list(cur["real_ans"])
        if ref_events != sliced:
            i = next((j for j, (x, y) in enumerate(zip(ref_events, sliced)) if x != y), min(len(ref_events), len(sliced)))
            out["problems"].append(
                "failing input: the event traces of the %d calls, concatenated, differ from the trace of the uninterrupted "
                "run at event %d (%r instead of %r): the sliced search does not go through the same work"
                % (len(step_calls), i, sliced[i] if i < len(sliced) else None, ref_events[i] if i < len(ref_events) else None)
            )
        elif ref_state != (cur["state"] or _state(css)):
            out["problems"].append("failing input: the searcher after the interrupted calls differs from the uninterrupted run (class database / expanded sets)")
        elif ref_ans != flat_ans:
            out["problems"].append("failing input: has_specification answers %r in the sliced run and %r in the uninterrupted run" % (flat_ans, ref_ans))
    elif ref_exc != crashed:
        out["problems"].append("the sliced run died with %s, the uninterrupted run with %s" % (crashed, ref_exc))
    out["model_in"] = [n_avail, 100 // case["perc"], model_calls]
    if table:
        final = [ERR.get(crashed, 0) if crashed else 0, 0] + (cur["members"] or _members(css))
        out["out"] = [results, [init_events, step_calls, final]]
        out["model_in"].append(_table_part(case, ctx.answers))
    else:
        out["out"] = results
    out["results"] = results
    out["crashed"] = crashed
    out["final_counts"] = final_spec_counts
    out["truth"] = W.true_counts(W.start(case["start"]), 7) if case["kind"] == "word" else None

    # ---------------- Part B: pickle at k, continue both, compare with the uninterrupted run
    ref = _make(case)
    try:
        npk, ref_trace, ref_state, ref_spec = _drive(ref, 0)
    except (KeyError, IndexError, StrategyDoesNotApply):
        if not table:
            raise
        out["packets"] = total
        out["pickled_at"] = []
        out["total_packets_A"] = total
        return out
    out["packets"] = npk
    # pickling points beyond the end of a short search are folded back into it
    ks = sorted({k if k <= npk else k % (npk + 1) for k in case["pickle_at"]})
    if case.get("every_k"):
        ks = list(range(npk + 1))
    out["pickled_at"] = ks
    for k in ks:
        a = _make(case)
        # the same call pattern up to packet k (k <= npk: no True answer before)
        n = 0
        while n < k and _one_packet(a):
            n += 1
            if n % 7 == 0 and n < k:
                a.has_specification()
        pending_query = n % 7 == 0 and n > 0 and n == k
        b = pickle.loads(pickle.dumps(a))
        if not b == a:
            out["problems"].append("failing input: searcher unpickled after %d packets is != the original" % k)
            continue
        if _state(a) != _state(b):
            out["problems"].append("failing input: state differs right after unpickling at %d" % k)
            continue
        sp = _sharing_problem(b)
        if sp:
            out["problems"].append("failing input: after unpickling at %d: %s" % (k, sp))
            continue
        ip = _recompute_idem_problem(a)
        if ip:
            out["problems"].append("failing input: after %d packets: %s" % (k, ip))
        copies = [a, b]
        if getattr(a.ruledb, "_pruned_dict", None) is not None:
            # a third copy, without the derived cache: answers must not depend on its presence
            c = pickle.loads(pickle.dumps(a))
            c.ruledb._pruned_dict = None  # pylint: disable=protected-access
            copies.append(c)
        res_ab = []
        for x in copies:
            if pending_query and x.has_specification():
                res_ab.append((n, x.ruledb.log, _state(x), True))
            else:
                res_ab.append(_drive(x, n))
        ra, rb = res_ab[0], res_ab[1]
        if ra != rb:
            out["problems"].append("failing input: original and unpickled copy diverge after pickling at %d" % k)
        elif len(res_ab) > 2 and res_ab[2] != ra:
            out["problems"].append("failing input: a copy made after %d packets without the _pruned_dict cache diverges from the original (answers depend on the cache)" % k)
        elif ra != (npk, ref_trace, ref_state, ref_spec):
            out["problems"].append(
                "failing input: run pickled at %d differs from the uninterrupted run (packets %s, trace %s, state %s, spec %s)"
                % (k, ra[0] == npk, ra[1] == ref_trace, ra[2] == ref_state, ra[3] == ref_spec)
            )
    out["total_packets_A"] = total
    return out


def _lost_packets(events, expand_verified):
    """(index, label) of the first packet handed out by the queue that was neither expanded nor
    skipped because its class is verified; None when every packet was processed."""
    npk = 0
    i = 0
    while i < len(events):
        ev = events[i]
        if ev[0] != "hand":
            i += 1
            continue
        npk += 1
        label = ev[1]
        j = i + 1
        processed = False
        while j < len(events) and events[j][0] != "hand":
            e = events[j]
            if e[0] == "exp" and e[1] == label:
                processed = True
                break
            if not expand_verified and e[0] == "isv" and e[1] == label and e[2]:
                processed = True     # skipped: the class is verified
                break
            j += 1
        if not processed:
            return (npk, label)
        i += 1
    return None


def encode_with(case, res):
    return res.get("model_in", [0, 1, []])


def oracle(case, res):
    if "exception" in res:
        if case["kind"] == "table" and "CaseTimeout" not in res["exception"]:
            return None  # nonsense table universes may break the engine before anything is returned
        return "search raised " + res["exception"]
    for p in res["problems"]:
        if p.startswith("failing input"):
            return p
    # control-flow facts decided directly on the real run
    n_avail, mult, calls = res["model_in"][:3]
    prev_k = 0
    for (code, k, pts), (maxt, ds, ans) in zip(res["results"], [c[:3] for c in calls]):
        if any(p < prev_k for p in pts) or pts != sorted(pts):
            return "decision points %r go backwards (previous call stopped at %d)" % (pts, prev_k)
        if code == 0 and not (ans and ans[-1] == 1 and not any(ans[:-1])):
            return "specification reported although has_specification answers were %r" % ans
        if code in (1, 2) and any(ans):
            return "call ended with code %d although has_specification answered True" % code
        if code == 1 and maxt < 0:
            return "ExceededMaxtimeError without a time limit"
        prev_k = k
    if res.get("final_counts") is not None and res["final_counts"] != res["truth"]:
        return "specification returned after interruptions counts %r, brute force %r" % (
            res["final_counts"], res["truth"])
    return None


def nontrivial(case, res):
    if res.get("packets", 0) < 8:
        return False
    inter = any(c[0] == 1 for c in res.get("results", []))
    inner = any(0 < k < res.get("packets", 0) for k in res.get("pickled_at", []))
    return inter or inner


def key(case):
    return json.dumps(case, sort_keys=True)


def classify(case, res):
    tags = [case["kind"], "db=" + case["ruledb"], "perc=%d" % case["perc"]]
    for c in res.get("results", []):
        tags.append({0: "found", 1: "exceeded", 2: "notfound"}.get(c[0], "other"))
    if case.get("pickle_between") and len(res.get("results", [])) > 1:
        tags.append("pickled_between_calls")
    if res.get("crashed"):
        tags.append("expansion_died:" + str(res["crashed"]))
    if case["kind"] == "table" and isinstance(res.get("out"), list) and len(res["out"]) == 2:
        tags.append("step_machine_compared")
        npk = sum(1 for c in res["out"][1][1] for e in c[3] if e[0] == 0)
        tags.append("step_packets<=5" if npk <= 5 else "step_packets<=20" if npk <= 20 else "step_packets>20")
    tags.append("pickle_points=%d" % len(res.get("pickled_at", [])))
    return tags


PICKLE_HOOKS = ("__getstate__", "__setstate__", "__reduce__", "__reduce_ex__", "__getnewargs__", "__getnewargs_ex__", "copyreg")


def _pickle_hooks_in_package():
    """source lines of the package that customise pickling (the model's dump/load = "pickle writes the instance
    __dict__s" describes the code only while there are none)"""
    import os
    import re

    import comb_spec_searcher

    root = os.path.dirname(comb_spec_searcher.__file__)
    pat = re.compile(r"\b(" + "|".join(PICKLE_HOOKS) + r")\b")
    hits = []
    for d, _, files in os.walk(root):
        for f in files:
            if f.endswith(".py"):
                with open(os.path.join(d, f)) as fh:
                    for i, line in enumerate(fh, 1):
                        if pat.search(line) and not line.lstrip().startswith("#"):
                            hits.append("%s:%d: %s" % (os.path.relpath(os.path.join(d, f), root), i, line.strip()[:80]))
    return hits


def extra_checks(ctx):
    """every tier: no class customises pickling; thorough tier: pickle at EVERY prefix length for a few universes"""
    res = []
    hits = _pickle_hooks_in_package()
    # information, not a verdict: a harmless hook would not break the property; Part B and the pickling between
    # calls are what decides.  Reported so that the evidence says whether Searcher/Pickle.v's reading of pickle
    # ("writes the instance __dict__s") still describes the package.
    res.append((
        "information: classes of the package that customise pickling (none = Searcher/Pickle.v's dump/load "
        "describes what pickle writes)",
        True,
        ("FOUND: " + "; ".join(hits[:5])) if hits else "grep for %s: nothing" % ", ".join(PICKLE_HOOKS),
    ))
    if ctx.tier != "thorough":
        return res
    rng = random.Random(ctx.seed + 17)
    n = 0
    for case in gen(rng, "thorough"):
        n += 1
        if n > 24:
            break
        case["every_k"] = True
        case["calls"] = [[-1, [0]]]
        try:
            r = impl(case)
        except Exception as e:  # pylint: disable=broad-except
            if case["kind"] == "table":
                continue
            res.append(("every-k pickling", False, "failing input: %s raised %r" % (key(case)[:200], e)))
            continue
        bad = [p for p in r["problems"] if p.startswith("failing input")]
        if bad:
            res.append(("every-k pickling", False, bad[0] + " case " + key(case)[:300]))
    res.append(("pickled at every prefix length for %d universes" % (n - 1), True, ""))
    return res


TECHNIQUE = (
    "Coq proof (the searcher as a packet-level state machine built from the C04/C15/C16 models; its time-sliced "
    "drivers under an arbitrary clock equal the uninterrupted iteration; control flow of the sliced search) + "
    "extracted-model/implementation event-trace correspondence across interruptions and pickling + pickle/resume oracle"
)
LEVEL_TEXT = (
    "State transformation (Searcher/Step.v, proofs StepProofs.v): `step` = one turn of the loop of _expand_classes_for "
    "(next of the C16 queue model, get_class, the is_verified gate, _expand of the C04 model, the queue calls of the "
    "packet applied to the queue); _expand_classes_for (with its last_label cache) and _auto_search_rules are "
    "transcribed on top with the clock of Slicing.v. For every strategy table, database mode, pack, expand_verified, "
    "perc, every script of successive auto_search calls (time limits, clock advances, has_specification answers), "
    "every is_verified answer stream and every state satisfying the C04 invariant (C17_reachable: every state "
    "reachable from __init__): C17_slicing_independent (the state after the calls, whatever they return or raise, is "
    "`iterate step n` of the state before and the concatenated events of the calls are the events of that "
    "uninterrupted iteration, n = number of next(queue) calls), C17_no_packet_lost (at every point of the sliced run "
    "a packet handed out by the queue is followed by its complete processing and the application of its queue "
    "calls), C17_packet_count (the clock's packet counter advances by exactly the number of packets among the events), "
    "C17_dry_is_stable (a turn that finds the queue dry changes nothing from then on), C17_notfound_means_dry "
    "(SpecificationNotFound only right after a next(queue) that found the queue dry), C17_resume_composes / "
    "C17_calls_compose (iterate (k1+k2) = iterate k2 after iterate k1; a script split "
    "anywhere), C17_queue_total, C17_state_is_members (step gives the same result on states with the same members "
    "and its result is nothing but members - true by construction of step, made meaningful by the correspondence), "
    "C17_pickle_roundtrip / C17_pickle_commutes (dump/load on the members, with the sharing of the object graph "
    "explicit: load(dump s) = s, step and iterate commute with it at every point of a run), C17_cache_transparent / "
    "C17_cache_invariant (RuleDBBase's _pruned_dict: histories of add / has_specification / is_verified that differ "
    "only in where the cache was dropped answer the same, given that recomputing the dictionary is idempotent). "
    "Control flow (Slicing.v): C17_resume_from / C17_notfound_only_when_exhausted / C17_exceeded_only_past_limit as "
    "before. The models are tied to the code by running the real _auto_search_rules under a fake clock on table "
    "universes and comparing, call by call, decision points, outcomes, the event trace (packets of the real queue, "
    "ruledb.add, set_empty, queue calls) and the final members with the extracted state machine; an oracle compares "
    "the sliced (and pickled-between-calls) run with one uninterrupted run and pickles at sampled (thorough: all) k."
)
LEVEL_NOTE = (
    "Correspondence-only, by nature: (1) the fidelity of CPython's pickle on the object graph - that "
    "pickle.loads(pickle.dumps(x)) rebuilds objects with the same __dict__s AND the same sharing (ClassDB's three lists "
    "each shared by the ClassDB, its ClassToInfo and its LabelToInfo; ruledb._searcher pointing back at the searcher). "
    "Searcher/Pickle.v models dump/load as the identity on the members with the sharing explicit, proves "
    "load(dump s) = s and that step commutes with it (trivial in Gallina - which is the point) and shows by an Example "
    "that the value-level model cannot distinguish a shared list from three equal copies; the harness checks object "
    "identity after every unpickling and that original, copy and uninterrupted run go through the same work. (2) "
    "ruledb.is_verified and has_specification are inputs of the model (answer streams): for the pruning databases "
    "has_specification() marks labels verified, so the state is not a function of the packet count alone; the "
    "theorems say `given the same answers`. The equivalence database / forest tables are therefore represented by "
    "what ruledb.add is handed (events) and by the answers read back, not as data. (3) C17_cache_transparent is a "
    "statement about the invalidate-on-add discipline over ABSTRACT engines (recompute, root_in); the idempotence "
    "contract is checked on the real code at every pickling point, and a copy without the cache is run alongside "
    "original and pickled copy. C17_state_is_members and the pickle theorems are true by construction of the model. "
    "That the specification finally returned satisfies C01/C02 is those properties' theorems (they hold for every "
    "reachable state); here the returned specification of word universes is counted against brute force. "
    "An expansion that dies with an exception (table universes breaking the strategy contracts) is followed by the "
    "model up to that point (outcome Crashed), the control-flow model skips such a call. "
    "Trusted: Coq kernel, extraction, harness, the fake clock, the logging subclasses."
)
