"""C01 — a specification returned by the searcher enumerates the root class correctly."""
import json

from harness.props.c09 import _Names, _canon, _kids_desc
from harness.universes import runs
from harness.universes import words_ext as W
from harness.universes import words_onefactor as OF

ID = "C01"
TITLE = "returned specifications count the start class correctly"
COQ_PROPS = "Props/C01.v"
COQ_RUN = ("Spec.CountRunDec", "run_c01d")   # = run_c01 + the verdicts of the deciders (C01_run_extends)
GEN_TARGETS = ["compositions", "quotient_parent_shift"]
N = {"quick": 6000, "thorough": 30000}
CASE_CPU_SECONDS = 240
NMAX = 8
RULE = (
    "88% of the cases: real searches over the word universes (harness/universes/words_ext.py: 28 fixed start classes x "
    "18 named packs + the parametric one-way family `ow3|..` — symmetries, inferral, factories with ready and "
    "foreign-parent rules, non-atom verification with a pack, one-way unary rules, two expansion sets, iterative, "
    "letterwise — x RuleDB / RuleDBForgetStrategy / RuleDBForest with and without reverse rules x expand_verified x "
    "smallest (never with forest/iterative) x proof-tree seed x number of work packets between two has_specification() "
    "calls; the search loop is the harness's replica of auto_search, harness/universes/runs.py). "
    "12%: searches over word classes WITH STATISTICS (harness/universes/c08_stats.py; statistics kept, summed, "
    "dropped, merged, and added along an equivalence path) through the repository's own auto_search(), default RuleDB "
    "and the two statistics packs only (no symmetries / reverse rules / forest / forget / smallest / iterative there). "
    "Each returned specification is turned into one descriptor per class (constructor form, extra_parameters "
    "dictionaries, minimum sizes, declared shifts) and evaluated bottom-up by the extracted model (C09 constructors, "
    "order dictated by the declared shifts); every class's terms for n <= 8 and all parameter values are compared with "
    "the implementation's get_terms and, by the oracle, with brute-force enumeration. "
    "Non-trivial: a specification with >= 4 rules and a non-eventually-constant count; distinct = distinct case."
)
TRUSTED = [
    "modelled, not verified: specification.py/rule.py evaluation (Rule.get_terms/_ensure_level through the children's "
    "get_terms). The EXTRACTED evaluator (Spec/CountRun.v rounds, bottom-up in the order the declared shifts allow) is "
    "proved to compute Spec/Eval.v `eval` of the specification srule_of(descriptors) on every level it computes "
    "(C01_rounds_is_eval: a refinement theorem, no longer an appeal to uniqueness) and, under the per-form contracts, "
    "the true tables (C01_rounds_correct / C01_run_correct); that `eval` transcribes the recursion of the code "
    "is tied to the code only through this correspondence (the model's tables vs get_terms of every class, n <= 8)",
    "conversion of Python rule objects into descriptors (harness/props/c01.py describe/_classify_rule/_deps, c09.py): "
    "which constructor form a rule has, the labels, the dictionaries and the declared shifts are read off the real "
    "rule objects by trusted Python; for an EquivalencePathRule the declared dependency is written as (last class, "
    "shift 0) instead of rule.shifts(), for an EquivalenceRule whose shifts() has the wrong length the original "
    "rule's shift is used. The internal consistency of what it produces (dependencies = children in order, declared "
    "shifts within the regenerated shift functions, dictionaries / arities / index ranges) is no longer trusted: the "
    "extracted deciders deps_shapeb and contract_shapeb judge every descriptor of every case (see ASSUMPTIONS)",
]
ASSUMPTIONS = [
    "theorems about run_c01 (C01_run_correct, C01_rounds_correct) assume per descriptor (1) deps_shape — the declared "
    "dependencies are the rule's children in order and every declared shift is at most the one the regenerated shift "
    "functions compute — and (2) rule_contract. Both are now EVALUATED ON EVERY COMPARED CASE by the extracted model "
    "(run_c01d = run_c01 + verdicts, C01_run_extends): deps_shapeb (C01_deps_shape_decided: an EXACT decider, verdict 0 means deps_shape is false) on every descriptor — the "
    "harness claims verdict 1 for every descriptor describe() builds, the verdicts are part of the compared output, so "
    "a descriptor outside deps_shape is a model/implementation mismatch on that case — and contract_shapeb, the "
    "DECIDABLE PART of rule_contract (C01_rule_contract_from_parts: well-formed extra_parameters dictionaries "
    "kid_wf/flip_ok/wf_dict of the composed path dictionary, arities npar of the class / the original parent / every "
    "child against len(extra_parameters) sent by the harness, idx in range and the flipped child being the class "
    "itself, >= 1 resp. >= 2 children, minimum sizes >= 0, the vpos/kpos flag conditions for the candidate flags_of, "
    "shape of a verified class's table), counted by extra_checks (`covered_by_theorem: k of n`, with a required "
    "minimum). MEASURED (quick tier, seeds 0-2): deps_shapeb = 1 on every descriptor and contract_shapeb = 1 on every class of 5837 of 5837 / 5839 of 5839 / 5844 of 5844 compared specifications (70470 / 69891 / 70295 classes; forms 0, 1, 3, 4, 6, 7 and one Complement; the excluded shapes listed in the next item did not occur); extra_checks requires 97% of the specifications and 99% of the classes of the retained cases (all cases of the quick tier, the first 20000 of the thorough tier; the deps_shapeb verdicts are compared on every case of both tiers). "
    "What stays a HYPOTHESIS is the SEMANTIC part of rule_contract (contract_sem; C01_rule_contract_semantic_part shows "
    "the split loses nothing): the TRUE tables satisfy the constructor's identity (union_genuine / product_genuine), "
    "the minimum_size/is_atom contract (Vanish), the siblings of a Quotient have an object at their minimum sizes "
    "(hprod <> 0), a verified class's table MEANS the true one; plus T_ok and canonical true tables. Nobody proves a "
    "strategy genuine: on the word universes the semantic part is implied only by the oracle's comparison of every "
    "class's terms with brute force (n <= 8), on every case",
    "not covered by rule_contract (would stay hypotheses): a Quotient whose parent has no parameter while a child has "
    "one; a Complement/Quotient with a sibling that is itself counted by a Complement (entry-wise assertion of the "
    "model on raw tables); constructors other than DisjointUnion/CartesianProduct and their reverses",
    "C01_spec_correct / _unique_solution / _choice_independent / pipeline theorems: productivity (pumps) of the keys "
    "of the RETURNED (grouped) specification is a hypothesis except along the forest pipeline. The pipeline's Hfound "
    "hypothesis is now the form ForestRuleExtractor.rules() really guarantees (Spec/EvalDrop.v `drops`): every "
    "extracted key has a rule in the (UNGROUPED) specification whose declared children-with-shifts are the key's "
    "children minus children that are EMPTY classes - rules() hands out rule.to_equivalence_rule() for a union whose "
    "other children are empty and leaves the rule of an empty class to be added lazily. Replayed on 2000 forest / "
    "forest_noreverse searches of this generator (1989 found): the old literal form (same children) fails on 232, "
    "the new form on none, every dropped child is an empty class with its own child-less extracted key. It is still a "
    "hypothesis (no theorem derives it from the C11 models of _find_rule/rules(), which are over other key types) and "
    "it is NOT evaluated by this check; the grouped object is related to the ungrouped keys by C02 "
    "(C02_object_root_pumps, C02_descriptors_declare_R1, C02_object_counts_partial). Inside C01 the only per-instance "
    "productivity signal is the model's status `stuck` (C01_stuck_not_productive_partial: no exception, non-negative "
    "declared shifts => a stuck class does not pump)",
    "verified classes: the table handed to the model is the rule's own get_terms (oracle by hypothesis); the oracle "
    "compares it with brute force",
]


def _rand_word(rng, alph, lo, hi):
    return "".join(rng.choice(alph) for _ in range(rng.randint(lo, hi)))


def _gen_stats(rng):
    """a word class WITH STATISTICS (harness/universes/c08_stats.py: letter counts kept, summed over a
    product, dropped when identically 0, merged when duplicated, and — start class tracking fewer
    statistics than the classes it is equivalent to — ADDED along an equivalence path), searched with the
    repository's own searcher.  Seed C01c needed an equivalence path ending in a class that tracks a
    statistic the start class does not."""
    alph = "ab" if rng.random() < 0.85 else "abc"
    pats = sorted({_rand_word(rng, alph, 1, 3) for _ in range(rng.choice([0, 1, 1, 2, 2]))})
    if rng.random() < 0.3:
        pats = sorted(set(pats) | {rng.choice(alph)})
    prefix = _rand_word(rng, alph, 0, 2) if rng.random() < 0.2 else ""
    if any(q in prefix for q in pats):
        prefix = ""
    r = rng.random()
    stats = [rng.choice(alph) for _ in range(1 if r < 0.45 else 2 if r < 0.8 else 3)]
    add = 0
    if rng.random() < 0.3:
        stats, add = stats[: rng.randint(0, 1)], 1     # AddStat in the pack: statistics appear along a path
    case = {"kind": "stats", "cls": [prefix, pats, alph, stats], "add": add, "ruledb": "base", "pack": "stats"}
    if stats != sorted(stats) and rng.random() < 0.6:
        case["of1"] = 1     # + words_onefactor.SortStats: a one-factor product that renames the parameters
    return case


def gen(rng, tier):
    while True:
        if rng.random() < 0.12:
            yield _gen_stats(rng)
            continue
        c = OF.maybe_onefactor(rng, W.random_cfg(rng))   # 13%: a pack with one-factor products (fix 25e10f1)
        c["kind"] = "word"
        yield c


def _classify_rule(rule):
    from comb_spec_searcher.strategies.constructor import CartesianProduct, Complement, DisjointUnion, Quotient
    from comb_spec_searcher.strategies.rule import (
        EquivalencePathRule,
        EquivalenceRule,
        ReverseRule,
        VerificationRule,
    )

    if isinstance(rule, VerificationRule):
        return 7, None, 0
    if isinstance(rule, EquivalencePathRule):
        return 6, None, 0
    if isinstance(rule, EquivalenceRule):
        orig = rule.original_rule
        if isinstance(orig, ReverseRule):
            return 5, orig.original_rule, orig.idx
        return 4, orig, 0
    if isinstance(rule, ReverseRule):
        base = rule.original_rule
        cons = rule.constructor
        if isinstance(cons, Complement):
            return 2, base, rule.idx
        if isinstance(cons, Quotient):
            return 3, base, rule.idx
        raise ValueError("unknown reverse constructor %r" % type(cons))
    cons = rule.constructor
    if isinstance(cons, DisjointUnion):
        return 0, rule, 0
    if isinstance(cons, CartesianProduct):
        return 1, rule, 0
    raise ValueError("unknown constructor %r" % type(cons))


def _first_nonempty(children):
    for i, c in enumerate(children):
        if not c.is_empty():
            return i
    return 0


def _deps(rule, lab):
    sh = list(rule.shifts())
    ch = list(rule.children)
    if len(sh) != len(ch):  # EquivalenceRule: one child, the original rule's shifts
        orig = rule.original_rule
        ci = _first_nonempty(orig.children)
        sh = [list(orig.shifts())[ci]]
    return [[lab[c], s] for c, s in zip(ch, sh)]


def describe(spec):
    """-> (descs, classes) one descriptor per class of the specification"""
    from comb_spec_searcher.strategies.rule import EquivalenceRule, ReverseRule

    classes, lab = [], {}

    def label(c):
        if c not in lab:
            lab[c] = len(classes)
            classes.append(c)
        return lab[c]

    label(spec.root)
    i = 0
    while i < len(classes):
        r = spec.get_rule(classes[i])
        for c in r.children:
            label(c)
        i += 1
    nm = _Names()
    descs = []
    for c in classes:
        rule = spec.get_rule(c)
        form, base, idx = _classify_rule(rule)
        if form == 7:
            descs.append([7, 0, [], [], 0, [], [], rule, [], 0])  # table filled in below
        elif form == 6:
            steps, shift = [], 0
            for r in rule.rules:
                orig = r.original_rule if isinstance(r, EquivalenceRule) else r
                rev = isinstance(orig, ReverseRule)
                b = orig.original_rule if rev else orig
                steps.append([int(rev), [nm(x) for x in b.comb_class.extra_parameters], _kids_desc(b, nm),
                              orig.idx if rev else 0])
            last = label(rule.children[0])
            descs.append([6, 0, [], [], 0, [], [[last, 0]], [], steps, last])
        else:
            pn = [nm(x) for x in base.comb_class.extra_parameters]
            descs.append([form, idx, pn, _kids_desc(base, nm), label(base.comb_class),
                          [label(k) for k in base.children], _deps(rule, lab), [], [], 0])
    # rules with negative shifts (reverse rules) read their children beyond the requested size
    extra = min(12, sum(max(0, -s) for d in descs for _, s in d[6]))
    for d in descs:
        if d[0] == 7:
            rule = d[7]
            d[7] = [[[list(p), v] for p, v in rule.get_terms(n).items()] for n in range(NMAX + extra + 1)]
    return descs, classes, extra


def _stats_search(case):
    from comb_spec_searcher.exception import SpecificationNotFound
    from harness.universes import c08_stats

    p, pats, alph, stats = case["cls"]
    try:
        return (OF if case.get("of1") else c08_stats).stat_spec(p, pats, alph, stats, add=bool(case.get("add")))
    except SpecificationNotFound:
        return None


def _truth(c, n):
    """true terms of class c at size n by brute force (parameter tuple -> number of objects)"""
    acc = {}
    for o in c.objects_of_size(n):
        k = tuple(c.get_parameters(o)) if getattr(c, "extra_parameters", ()) else ()
        acc[k] = acc.get(k, 0) + 1
    return sorted([[int(x) for x in k], v] for k, v in acc.items())


def impl(case):
    if case["kind"] == "stats":
        spec = _stats_search(case)
    else:
        spec = runs.search(case)["spec"]
    out = {"found": spec is not None}
    if spec is None:
        out["out"] = [[], [], []]
        out["descs"] = []
        return out
    descs, classes, extra = describe(spec)
    out["descs"] = descs
    out["extra"] = extra
    # number of statistics of every class (npar of the contracts; input of the decider contract_shapeb)
    out["npar"] = [len(getattr(c, "extra_parameters", ())) for c in classes]
    levels, status, truth, errors = [], [], [], []
    for c in classes:
        rule = spec.get_rule(c)
        lv = []
        try:
            for n in range(NMAX + 1):
                lv.append(_canon(rule.get_terms(n)))
            status.append([0, 0])
        except Exception as e:  # pylint: disable=broad-except
            errors.append("%s: %s" % (type(e).__name__, str(e)[:100]))
            status.append([2, 1])
        levels.append(lv)
        truth.append([_truth(c, n) for n in range(NMAX + 1)])
    # third field: the verdicts of deps_shapeb CLAIMED for the descriptors describe() built (all 1); the extracted
    # decider's verdicts are compared with it on every case, so a descriptor outside deps_shape is a mismatch
    out["out"] = [levels, status, [1] * len(classes)]
    out["truth"] = truth
    out["errors"] = errors
    # with statistics count_objects_of_size wants a value for every parameter: the total is the sum of the terms
    root_rule = spec.get_rule(spec.root)
    out["root_counts"] = [sum(root_rule.get_terms(n).values()) for n in range(NMAX + 1)] if getattr(
        spec.root, "extra_parameters", ()) else [spec.count_objects_of_size(n) for n in range(NMAX + 1)]
    out["root_truth"] = [sum(1 for _ in spec.root.objects_of_size(n)) for n in range(NMAX + 1)]
    out["nrules"] = len(classes)
    out["onefactor"] = OF.onefactor_census(spec)
    return out


def encode_with(case, res):
    return [NMAX, NMAX + res.get("extra", 0), res.get("descs", []), res.get("npar", [])]


def canon_model(mo):
    levels, status, deps_bits = mo[0], mo[1], mo[2]
    # the model marks errors with the constructor's code; the implementation side only says "raised"
    status = [[2, 1] if s[0] == 2 else s for s in status]
    # mo[3] (contract_shapeb per class) and mo[4], mo[5] (the flag candidate) are not compared: a class outside the
    # decidable part of rule_contract is a case C01_run_correct is not claimed for; extra_checks counts them
    return [levels, status, deps_bits]


def oracle(case, res):
    if "exception" in res:
        return "search or counting raised " + res["exception"]
    if not res["found"]:
        return None
    if res["errors"]:
        return "counting from the returned specification raised " + res["errors"][0]
    if res["root_counts"] != res["root_truth"]:
        return "the specification counts %r for the start class, brute force gives %r" % (
            res["root_counts"], res["root_truth"])
    for i, (lv, tr) in enumerate(zip(res["out"][0], res["truth"])):
        if lv != tr:
            return "class %d of the specification: terms %r, brute force %r" % (i, lv, tr)
    return None


# ---------------------------------------------------------------- coverage of the theorems about run_c01
# C01_run_correct(_decided) is claimed for a compared specification only if the extracted deciders say 1 for every
# descriptor: deps_shapeb (compared on every case through `out`) and contract_shapeb (counted here).  The minimum is
# the measured fraction (seeds 0-2) with a margin: a generator drifting away from the theorem fails the check.
MIN_COVERED_SPECS = 0.97
MIN_COVERED_CLASSES = 0.99
_FORM_NAMES = {0: "union", 1: "product", 2: "complement", 3: "quotient", 4: "equiv", 5: "equiv_of_reverse", 6: "path",
               7: "verified"}


def _theorem_coverage(ctx):
    """re-runs the extracted run_c01d on every retained case with a specification and reads the verdict fields
    (field 2: deps_shapeb per descriptor, field 3: contract_shapeb per class)"""
    import multiprocessing as mp
    import os

    from harness import core

    name = "covered_by_theorem C01_run_correct_decided (deps_shapeb and contract_shapeb = 1 on every class)"
    binary = os.path.join(core.WORK, ID, "ocaml", "model")
    if not os.path.exists(binary):
        return [(name, False, "no extracted model")]
    idx, encs = [], []
    for i, (case, (r, _, _)) in enumerate(zip(ctx.cases, ctx.impl_res)):
        if isinstance(r, dict) and r.get("found") and r.get("descs") and "exception" not in r:
            idx.append(i)
            encs.append(encode_with(case, r))
    if not encs:
        return [(name, False, "no specification among the retained cases")]
    with mp.get_context("fork").Pool(core.NCPU) as pool:
        got = core.run_model(binary, encs, pool)
    n_spec = n_cov = n_cls = n_cls_cov = n_deps_bad = 0
    by_form, first_bad, first_deps_bad = {}, None, None
    for i, mo in zip(idx, got):
        if isinstance(mo, dict) or len(mo) < 4:
            return [(name, False, "the model printed no verdicts: %r, failing input %s" % (
                str(mo)[:200], json.dumps(ctx.cases[i])[:300]))]
        descs = ctx.impl_res[i][0]["descs"]
        n_spec += 1
        n_cls += len(mo[3])
        n_cls_cov += sum(mo[3])
        if not all(mo[2]):
            n_deps_bad += 1
            first_deps_bad = first_deps_bad or (i, mo[2].index(0))
        if all(mo[2]) and all(mo[3]):
            n_cov += 1
        for c, b in enumerate(mo[3]):
            if not b:
                f = _FORM_NAMES.get(descs[c][0], str(descs[c][0]))
                by_form[f] = by_form.get(f, 0) + 1
                first_bad = first_bad or (i, c, f)
    detail = ("covered_by_theorem: %d of %d compared specifications (%.1f%%), %d of %d classes (%.2f%%); classes outside "
              "the decidable part of rule_contract by form: %s" % (
                  n_cov, n_spec, 100.0 * n_cov / n_spec, n_cls_cov, n_cls, 100.0 * n_cls_cov / n_cls,
                  json.dumps(by_form, sort_keys=True)))
    if first_bad:
        i, c, f = first_bad
        detail += "; first: class %d (%s) of %s" % (c, f, json.dumps(ctx.cases[i])[:260])
    ok = n_cov >= MIN_COVERED_SPECS * n_spec and n_cls_cov >= MIN_COVERED_CLASSES * n_cls
    res = [(name, ok, detail if ok else detail + "; required: %.0f%% of the specifications, %.0f%% of the classes" % (
        100 * MIN_COVERED_SPECS, 100 * MIN_COVERED_CLASSES))]
    d2 = "deps_shapeb = 1 on every descriptor of %d of %d specifications" % (n_spec - n_deps_bad, n_spec)
    if first_deps_bad:
        i, c = first_deps_bad
        d2 += "; class %d, failing input %s" % (c, json.dumps(ctx.cases[i])[:400])
    res.append(("deps_shape holds on every descriptor describe() built (extracted deps_shapeb)", n_deps_bad == 0, d2))
    return res


def extra_checks(ctx):
    return _theorem_coverage(ctx)


def nontrivial(case, res):
    if not res.get("found") or res.get("nrules", 0) < 4:
        return False
    rc = res.get("root_counts", [])
    return len(set(rc[-3:])) > 1


def key(case):
    return json.dumps(case, sort_keys=True)


def classify(case, res):
    tags = ["db=" + case["ruledb"], "pack=" + case["pack"], "found" if res.get("found") else "no_spec"]
    if case["kind"] == "stats":
        tags.append("statistics: %d tracked by the start class%s" % (len(case["cls"][3]), ", added along a path" if case.get("add") else ""))
    if case.get("of1"):
        tags.append("statistics listed in order by a one-factor product (SortStats)")
    forms = {d[0] for d in res.get("descs", [])}
    for f, name in ((2, "complement"), (3, "quotient"), (4, "equiv"), (5, "equiv_of_reverse"), (6, "path")):
        if f in forms:
            tags.append("has_" + name)
    # product rules with a single factor (fix 25e10f1): steps of an equivalence path, forwards (CartesianProduct with
    # one child) / backwards (Quotient with one child), or lone rules of form 1 / 3
    for k, name in (("path_fwd", "one-factor-product in a path"), ("path_rev", "one-factor-product-reverse in a path"),
                    ("lone_fwd", "one-factor-product lone"), ("lone_rev", "one-factor-product-reverse lone")):
        if res.get("onefactor", {}).get(k):
            tags.append(name)
    return tags


TECHNIQUE = (
    "Coq proofs (unique solution of a productive specification with genuine, local rules; adapter from rule descriptors "
    "to such rules with `local` derived from C10 and `genuine` from C09; refinement and correctness of the extracted "
    "bottom-up evaluator) + extracted evaluator / implementation correspondence on real searches"
)
LEVEL_TEXT = (
    "About the abstract evaluator `eval` (Spec/Eval.v; any term type, any rule operators): C01_spec_correct — if every "
    "forest key considered belongs to a rule of the specification, rules are genuine and local w.r.t. their declared "
    "shifts and a class pumps w.r.t. those keys (C03's notion), `eval` returns the true terms of that class for every "
    "size and parameter value once the fuel is large enough; C01_unique_solution / C01_choice_independent: no other "
    "solution, so two specifications satisfying the hypotheses count identically. C01_forest_pipeline_correct / "
    "_unique / _total chain C03 and C11 for RuleDBForest: a pumping answer of the (total) table-method model on the "
    "inserted keys and the extractor's result discharge the productivity hypothesis, under Hfound in the form rules() "
    "guarantees (each extracted key has a rule whose children are the key's minus EMPTY classes: `drops`, "
    "Spec/EvalDrop.v; the keys/specification tie of C01_spec_correct & co. is weakened to inclusion accordingly). "
    "C01_drop_form_genuine / _local + C01_forest_pipeline_total_original: the dropped children are irrelevant - if the "
    "operator of the rule handed out is the original operator fed with the empty table at the dropped positions "
    "(`drop_form`) and the dropped children are empty classes, genuine and local pass from the ORIGINAL rule to it. "
    "C01_forest_pipeline_constructors: the pipeline for descriptor lists of the library's constructors with NO abstract "
    "genuine/local hypothesis (deps_shape + rule_contract + `drops` only); C01_equivalence_form_contract / _shape / "
    "_drops: the drop-form contract discharged for the union constructor (form-0 contract + empty siblings => form-4 "
    "contract of rule.to_equivalence_rule(), by C09_equivalence). "
    "About the rules of the LIBRARY'S constructors (new): srule_of turns a rule descriptor as run_c01 receives it into "
    "such a rule whose operator is the C09 model's get_terms over providers. C01_srule_of_local: `local` w.r.t. the "
    "DECLARED shifts is a theorem for forms 0-7 (union, product, Complement, Quotient, both equivalence forms, path, "
    "verified), from a bridge lemma (the C09 term model reads only what the C10 reads model lists: "
    "C01_term_model_reads_what_the_reads_model_lists) and C10_reads_respect_declared_shifts over the regenerated shift "
    "functions. C01_srule_of_genuine_up_to_representation / C01_constructor_step_sound: under the per-form contract "
    "about the true tables (the hypotheses of C09_union, C09_product, C09_complement, C09_quotient_params, "
    "C09_quotient_parameter_free, C09_equivalence*, C09_path) the operator maps tables that MEAN the true ones to such "
    "a table and raises nothing; C01_canonical_form (teq a b -> tnorm a = tnorm b) turns this into Leibniz equality: "
    "C01_srule_ofN_local / C01_srule_ofN_genuine are the hypotheses of C01_spec_correct literally for the "
    "canonical-form operator, and C01_spec_correct_constructors is C01_spec_correct with only the contracts and "
    "productivity left. "
    "About the EXTRACTED function (new): C01_rounds_is_eval — every level the bottom-up evaluator computes (any fuel) "
    "equals `eval` of srule_of of the descriptors for all large fuel (raw tables, no hypothesis on the tables); "
    "C01_rounds_correct / C01_run_correct — under deps_shape and the contracts, whenever run_c01 reports a class "
    "complete (status 0) the levels 0..N it prints are the canonical true tables; C01_run_correct_decided — the same "
    "for the function the check extracts (run_c01d) with deps_shape and the decidable part of rule_contract replaced "
    "by `every verdict bit printed for this case is 1` (evaluated per case: 1 on every class of every one of the 5837-5844 specifications of a quick run, seeds 0-2; a case with a 0 "
    "verdict is a case these two theorems are not claimed for), leaving the semantic part contract_sem; C01_run_fuel_suffices — the fuel "
    "run_c01 uses reaches a fixed point; C01_stuck_not_productive_partial — with no exception and non-negative "
    "declared shifts a class reported stuck does not pump, and C01_productive_is_complete_partial — a class that pumps "
    "is reported complete (both partial: reverse product rules declare negative shifts). "
    "The executable evaluator is compared with get_terms of every class of every specification returned by real "
    "searches, and the oracle compares with brute force."
)
LEVEL_NOTE = (
    "What is NOT a theorem: that the returned specification's rules satisfy the contracts (genuineness of strategies is "
    "the documented contract, checked by brute force on the shipped universes only, n <= 8), that its classes pump "
    "outside the forest pipeline, that the rules handed out satisfy the weakened Hfound (`drops`; replayed offline, "
    "not evaluated per case), and that describe() reads the rule objects correctly (trusted Python). The C02 oracle "
    "runs on C02's own cases, not on C01's. Classes with extra statistics: 12% of the searches (c08_stats universes, "
    "default RuleDB only); the rest use the parameter-free word classes; C09's correspondence covers statistics at the "
    "rule level. Trusted: Coq kernel, extraction, harness."
)
