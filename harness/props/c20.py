"""C20 — equations and generating functions agree with the true enumeration."""
import json
import random as _random
from collections import Counter

from harness import core

ID = "C20"
TITLE = "equations and generating functions agree with the true enumeration"
COQ_PROPS = "Props/C20.v"
COQ_RUN = ("Count.EquationsRun", "run_c20")
GEN_TARGETS = ["product_shifts"]
N = {"quick": 2600, "thorough": 45000}
GENF_SHARE = {"quick": 0.18, "thorough": 0.25}   # share of the word specifications that run get_genf
RULE = (
    "two streams over REAL objects of /repo. (spec, 45%) specifications found by the searcher (auto_search's loop without "
    "its wall clock, so that parent and worker processes see the same specification) on the word classes of example.py "
    "with the packs of harness/universes/words_ext.py (symmetries, inferral, factories, verification packs, iterative) x "
    "{RuleDB, RuleDBForgetStrategy, RuleDBForest with and without reverse rules} x random proof-tree seeds, on word classes "
    "WITH statistics (harness/universes/words_stats_c20.py: letter counts, several names for one statistic, 1-3 statistics, "
    "indexed names k_1 k_2 .., names in both alphabetical orders; 16 packs: every rule keeps the names / permutes them "
    "cyclically / exchanges two / only some children permute / children list their statistics in another order / "
    "factors re-index k_i -> k_(i-1) / name-exchanging relabellings as equivalences (equivalence paths whose composed "
    "dictionary permutes names) / ready rules with a foreign parent used in reverse (fallback equation) / products "
    "with >= 3 factors / the LIBRARY's AtomStrategy on one-word classes with statistics, whose get_genf refuses: "
    "get_equations() then emits its placeholder equations inside a returned specification) and on plane trees (internal nodes of arities within a set, optionally WEIGHTED: a node of arity k "
    "carries w_k extra atoms; size = leaves + atoms), rooted plainly, at a node of given arity, or planted on j extra leaves: "
    "T = x + sum x^(w_k) T^k -- rational systems (arities (1,)), quadratic ones with square-root closed forms and two "
    "branches (arities within {1,2}: Catalan, Motzkin, Schroeder, ... 11 shapes), degree >= 3 (equations only). Every "
    "equation of get_equations() is walked structurally (func/args) into a canonical form and compared with the model's "
    "equation for the descriptor of the same rule, and both sides are evaluated on brute-force true series (model: order "
    "4-6, oracle: order 7-10, several variables included). PER RULE the oracle first evaluates the genuineness hypothesis "
    "of the theorems (union_genuine / product_genuine / atom / empty, by its own positional re-keying of brute-force term "
    "tables, all parameters, to the oracle's order; reverse rules: the original rule; paths: the composed dictionary) and "
    "records child parameters nobody is mapped to as 'zero' (0 on every object) or 'genuine'. get_genf (>= 150 returned "
    "closed forms per quick run: every tree specification of degree <= 2, 18% of the univariate word specifications; "
    "check = 6, sometimes 3 or 9; planted j up to check (boundary) and check+1, check+2: the branch is then decided by a "
    "NON-root class only) is run as is and, when the solver listed >= 2 solutions, once more with that list reversed; then: (a) "
    "sympy.solve is re-run on the emitted system exactly as get_genf calls it (cached by the system) and the solutions "
    "whose root function is the returned one are taken; (b) on such a solution every class has a solved function and "
    "every emitted equation holds as an IDENTITY (sympy.simplify(lhs - rhs) == 0; if simplify cannot decide, exact "
    "series expansion to x^40 -- recorded which), every solved function is a power series with integer coefficients "
    "that vanishes below its class's minimum size and agrees with brute force on EVERY class to order 8; (c) the "
    "returned function's Taylor coefficients (exact truncated-series arithmetic over Q, harness) equal brute-force "
    "counts as far as brute force is affordable (n <= 7..14, recorded) and the counts of an independent recurrence of "
    "the harness (transfer recurrence for words, convolution recurrence for trees; no objects, no library) up to x^40; "
    "the library's own counts are only recorded; (d) C20_closed_form_criterion is INSTANTIATED: uspec_of turns the "
    "returned specification into the model's descriptor (one urule per rule, product factors with "
    "minimum_size_of_object(); keys = the rules' own shifts()), which is field 8 of the model input; run_c20 evaluates "
    "crit_okb on it (one rule per class, declared keys = regenerated shifts, urule_wf, minimum sizes consistent, the root "
    "pumps by the proved table method), checks that every descriptor rule's equation is the rule descriptor's equation, "
    "and evaluates genuine_u / the recurrences of to_srule / the minimum sizes on the brute-force tables; the harness "
    "computes the same verdicts independently (mismatch = broken tie) -- covered / outside:quotient / outside:verified; "
    "(e) the SELECTION step is compared with the model: the solver's lists as handed "
    "to get_genf (Taylor coefficients 0..check+6 of every class's function in every solution) and the specification's "
    "counts go into genf_select (Count/GenfSelect.v), whose choice must be the returned function (coefficients "
    "0..check+6) or IncorrectGeneratingFunctionError. With statistics get_genf must refuse (NotImplementedError). (rule, 55%) single "
    "rules built directly: union / product (2 factors, and >= 3 factors with the non-atom first, last, in the middle) / "
    "relabelling strategies with statistics in the modes keep, merge (several parent parameters -> one child parameter), "
    "rename to new names, NAME-PERMUTING modes in which a child parameter carries the name of a DIFFERENT parent "
    "parameter (cyclic shift, transposition, chains, merge onto another parent's name, reversed argument order, a "
    "different mode per child, explicit random injections), and ZERO statistics (a statistic that is 0 on every word: "
    "dropped by the child = an unmapped parent parameter; gained by the child = an unmapped child parameter that is "
    "identically 0); in every form: forward, reverse w.r.t. each child (Complement/Quotient own equation without "
    "parameters, fallback to the original equation with parameters), EquivalenceRule, its reverse (an equation only "
    "with the empty dictionary: zero statistics on either side; otherwise the placeholder), EquivalencePathRule over 1-3 "
    "relabelling steps forwards, backwards and mixed -- including paths whose END class tracks a statistic the start "
    "class does not (EquivalencePathRule.constructor: fixed_values = {k: 0}); the steps wrapped in EquivalenceRules or "
    "bare (as a specification holds one-child rules); products with a SINGLE factor (fix 25e10f1) in every form: "
    "forward, reverse, EquivalenceRule (a one-child union equation), its reverse (no constructor: placeholder), as path "
    "steps (composed like union / Complement steps; wrapped and reversed: the path has no constructor). The run fails "
    "unless all of these were reached -- including the shapes the fixes f1b2e4b / 7be1dfb repair: a child (of a "
    "union, a product, an equivalence, a path) that tracks one more GENUINE statistic nobody is mapped to, two and three "
    "parent parameters mapped to one child parameter of a product, roots planted beyond the compared terms. THE CODE "
    "STATE IS READ FROM THE SOURCE (code_state): on a tree with the fixes the model runs rule_equation / genf_select and "
    "nothing is tolerated; on a tree before a fix the model runs rule_equation_old / genf_select_old and exactly the "
    "repaired defect is tolerated, by mechanism (the rule is genuine and the equation written as the repaired method "
    "writes it is satisfied; the wrong-branch symptom) -- unless known_findings.json records the fix as a commit of "
    "/repo, in which case a tree without it fails the run. Non-trivial: spec case with >= 3 equations incl. a product, reverse "
    "or path equation, all evaluated; rule case whose equation is emitted and has >= 3 non-zero coefficients up to the "
    "model's order; distinct = distinct case descriptors."
)
TECHNIQUE = (
    "Coq proof (truncated multivariate power series as finite term lists; uniqueness through Spec/Eval.v; the "
    "closed-form criterion as a corollary; a boolean decider of the criterion's decidable hypotheses, proved sound, "
    "using the proved table-method decision for 'pumps') + extracted-model/implementation correspondence on the sympy objects of "
    "real specifications + per-instance check of the criterion's premise for get_genf (sympy.solve / simplify, exact "
    "series arithmetic, brute force, an independent counting recurrence)"
)
LEVEL_TEXT = (
    "Theorems C20_* (coq/theories/Props/C20.v), about the code WITH the fixes f1b2e4b / 7be1dfb. GROUP 1, for every "
    "truncation order N and every comparison variable set: the equation emitted for a union rule and for a product rule "
    "(substitution child variable := product of ALL parent variables mapped to it, := 1 when there is none: the "
    "statistic is summed out), for their reverses in the form the code emits (Sub "
    "directly; Div read as the cross-multiplied identity; with parameters: the fallback to the original rule's "
    "equation), for EquivalenceRule of a union rule or of a product rule with a single factor, for "
    "EquivalencePathRule (a one-child union with the composed dictionary), for atoms and empty classes, holds coefficient-wise up to order N when every F_label is read as the "
    "class's true series, PROVIDED (i) the rule is genuine -- a hypothesis: union_genuine on term tables (positional "
    "re-keying, as get_terms re-keys), product_genuine on series coefficients at the same N -- and (ii) the dictionaries "
    "are well formed (kid_wfd: distinct keys, from parameters of the parent to parameters of the child, distinct names "
    "none of which is x). NO cover and NO injectivity condition is left: this is the full first clause (an "
    "EquivalencePathRule with fixed_values = {k: 0} included). C20_equivalence_reverse_equation_satisfied: "
    "EquivalenceRule of a REVERSED union rule emits F_c = F_p only with the empty dictionary and that equation holds "
    "(both classes' parameters are then 0 on every object); C20_equivalence_reverse_with_parameters_has_no_equation: "
    "otherwise Complement.get_equation raises and, unlike ReverseRule, nothing falls back -- get_equations emits the "
    "placeholder F = NOTIMPLEMENTED(x), about which nothing is claimed. C20_without_parameters_every_rule_has_equation: "
    "a rule with only empty dictionaries gets no placeholder -- EXCEPT the two forms that never have an equation "
    "(rule_plain is False for them by definition): the EquivalenceRule of a reversed single-factor product and a path "
    "holding such a step wrapped, which get the placeholder whatever the parameters. Variables of the model are NAMES (sympy "
    "symbols are global by name) and the model's subs is the simultaneous substitution of subs(..., simultaneous=True). "
    "GROUP 2, univariate: C20_unique_series (two families that satisfy every emitted equation of a union / product / "
    "complement / atom / empty specification at every order and vanish below the declared minimum sizes coincide on "
    "every class that pumps w.r.t. the declared shifts), C20_unique_needs_minimum_sizes_refuted (not without the "
    "minimum-size condition), C20_true_counts_solution (if every rule is genuine in plain arithmetic -- union = sum, "
    "product = full Cauchy product -- the true counts are such a family), and C20_closed_form_criterion: if "
    "additionally a family G of coefficient sequences, one per class, satisfies every emitted equation at every order "
    "(i.e. identically as formal power series) and vanishes below the minimum sizes, then G's coefficients are the "
    "true counts at EVERY order. THE CRITERION MEETS THE REAL SPECIFICATION: C20_criterion_decided -- for a finite "
    "descriptor us (class, urule) and the keys ks the library declares, crit_okb us ks root = true (Count/"
    "SeriesCriterion.v: one rule per class; every declared key is its rule's key with the shifts REGENERATED from the "
    "minimum sizes, Gen/ProductShifts.v; urule_wf; minimum sizes >= 0 and a function of the class; pumpsb ks root = the "
    "proved table-method decision of Forest/, C03_total_sound_complete) implies keys_from_spec, urule_wf of every rule and "
    "pumps ks root, i.e. ALL decidable hypotheses of the criterion for uspec_of us; C20_closed_form_criterion_decided / "
    "C20_genf_selected_closed_form_decided -- the criterion / the selection corollary with those hypotheses replaced by "
    "the verdict (and sel_okb), the premises on W and G reduced to: every rule of us genuine for W, W and G zero below "
    "dmin_of us, G satisfies every equation; C20_table_checks_decided -- what the in-run table checks genuine_ub / "
    "recur_okb / low_okb mean (sizes 0..M only). run_c20 evaluates crit_okb on the descriptor uspec_of builds from the "
    "real specification of EVERY get_genf case that returned a closed form (extra_checks covered_by_theorem "
    "C20_closed_form_criterion: measured 290 of 293 = 0.99 on seed 0, required 0.95; the rest hold a Quotient rule or a "
    "user verification strategy). GROUP 3, the selection of get_genf (Count/GenfSelect.v; what sympy.solve returned is an "
    "input): C20_genf_selection -- the returned branch is the first of the solver's on which EVERY class's series (not "
    "only the root's) agrees with the specification's counts on the check+1 compared terms; "
    "C20_genf_selection_beyond_compared_terms_refuted -- that does not imply agreement at x^(check+1); "
    "C20_genf_selected_closed_form -- selection + identity check (per instance) = every order, the selection itself "
    "discharging the criterion's minimum-size premise. HISTORY (the code before the fixes, rule_equation_old / "
    "genf_select_old): C20_union_unmapped_refuted, C20_product_collision_refuted, "
    "C20_genf_selection_before_fix_refuted (genuine rules whose old equation is not satisfied and whose repaired one "
    "is; the old selection returning a wrong branch); C20_{union,product,path}_equation_before_fix_satisfied (where the "
    "old methods were right: unmapped child parameters 0 on every object, injective product dictionaries); "
    "C20_before_fix_same_equations (where both emit the same equation)."
)
LEVEL_NOTE = (
    "get_initial_conditions, taylor_expand and sympy.solve are in no model; of get_genf the SELECTION step is modelled "
    "(genf_select, with _all_classes_agree: every class's solved function must expand to that class's counts on "
    "check+1 terms) and tied by correspondence. The selection guarantees agreement on the compared terms only "
    "(C20_genf_selection); every order is the reduction C20_closed_form_criterion / C20_genf_selected_closed_form, "
    "whose DECIDABLE hypotheses are now decided by the extracted crit_okb on the descriptor of the real specification "
    "(C20_criterion_decided; that the descriptor IS the specification is the harness's uspec_of, tied in-run by: each "
    "descriptor rule's equation has the normal forms of the rule descriptor's equation, which is compared with the "
    "library's sympy equation; the keys are the rules' own shifts(); the minima are minimum_size_of_object()), and "
    "whose remaining premises are checked PER INSTANCE, as far as sympy allows: "
    "the returned function is the root's function in a solution of sympy.solve's that has a function for every "
    "class, satisfies every emitted equation identically (simplify; exact series to x^40 when simplify cannot decide) "
    "and consists of integer power series vanishing below the minimum sizes. The criterion's other hypotheses are "
    "checked per instance only to a finite order: genuineness of every rule in plain arithmetic (genuine_u, the premise "
    "of C20_true_counts_solution) and the recurrences of to_srule on the brute-force tables to the oracle's order (7-10) "
    "-- evaluated by the extracted run AND the harness, an oracle fact, not a proof --, nothing below the declared minimum "
    "sizes to that order, integer coefficients to order 8 (root: 40). STILL PREMISES per instance: the solved functions "
    "satisfy every equation identically (sympy simplify: trusted), genuineness beyond size M, and W = the "
    "specification's counts = the true counts (C01's conclusion, not composed here). The harness's own verdict "
    "(_criterion / crit_parts_py: Python value iteration for 'pumps') is only the second opinion compared with "
    "crit_okb. Specifications with a Quotient rule or a user verification strategy are "
    "outside the criterion (recorded as such; for them only the Taylor comparison to x^40 and the identity check "
    "stand). The Taylor comparison is against brute force (n <= 7..14) and beyond that against an independent "
    "recurrence of the harness, not against the library's counts. Trusted: Coq kernel, extraction + OCaml driver, "
    "sympy (solve, simplify, subs, expression trees), the harness (conversion of rule objects to descriptors, the "
    "canonical form of sympy trees, its series arithmetic and counting recurrences). Modelled not verified: the "
    "get_equation methods (tied by this correspondence). Genuineness of a rule is a hypothesis of every group-1 "
    "theorem and is concluded by no property (C09 assumes it as well, over other predicates)."
)
TRUSTED = [
    "sympy: solve/simplify/subs/expand/Poly (identity check of get_genf results; canonicalisation of sums and products "
    "inside the emitted equations); sympy.series only for expressions outside rational functions and square roots",
    "modelled, not verified: get_equation of DisjointUnion, Complement, CartesianProduct, Quotient, Rule, ReverseRule, "
    "EquivalenceRule, EquivalencePathRule, VerificationRule, AtomStrategy/EmptyStrategy.get_genf, "
    "CombinatorialSpecification.get_equations (Count/Equations.v), the selection loop of "
    "CombinatorialSpecification.get_genf with _all_classes_agree (Count/GenfSelect.v), tied by this correspondence; "
    "sympy.solve inside get_genf, get_initial_conditions and taylor_expand are in NO model (the solver's output and "
    "the Taylor coefficients are inputs of the selection model, computed by the harness's own series arithmetic)",
    "harness/props/c20.py code_state: which model (with / before the fixes) is run is decided by reading the source of "
    "the three methods",
    "translator harness/translate.py for Gen/ProductShifts.v (shifts used by C20_unique_series)",
    "harness/universes/words_stats_c20.py (classes with statistics, trees): brute-force truth through the classes' own "
    "objects_of_size / get_parameters; independent counting recurrences word_counts / tree_counts",
]
ASSUMPTIONS = [
    "rules are genuine: the parent's true term table is the positionally re-keyed sum / Cauchy product of the "
    "children's true term tables (strategy contract, a hypothesis of the theorems; evaluated by brute force for every "
    "rule of every generated case up to the oracle's order 7-10 -- a rule that is genuine up to that size only would pass)",
    "extra_parameters dictionaries map parent parameters to parameters of the child (checked per rule); "
    "DisjointUnion.fixed_values is read by neither get_equation nor the model; parameter names of one class are "
    "distinct and differ from x (checked per case; a statistic called x is not generated); NO assumption relates the "
    "names of the child to the names of the parent, child parameters may be unmapped, parent parameters may share a "
    "child parameter",
    "on a tree BEFORE fix f1b2e4b (old model): every child parameter is the image of some parent parameter or is 0 on "
    "every object of the child, and no two parent parameters of a product share a child parameter -- otherwise the "
    "old equation is wrong (C20_union_unmapped_refuted, C20_product_collision_refuted), which is tolerated there",
    "a placeholder equation F = NOTIMPLEMENTED(x) (EquivalenceRule of a reversed rule with a non-empty dictionary, "
    "equivalence path through a reversed merging rule, AtomStrategy with parameters) is a refusal: no claim; without "
    "parameters it occurs only for the EquivalenceRule of a reversed single-factor product, bare or as a wrapped path "
    "step (theorem C20_without_parameters_every_rule_has_equation under rule_plain, which excludes exactly these two "
    "forms; the oracle lets kinds 10/11 pass), and a specification handed back by the searcher never contains a bare "
    "EquivalenceRule (checked per case)",
    "C20_closed_form_criterion: univariate, union/product/complement/atom/empty rules only (no Quotient, no user "
    "verification strategy), integer Taylor coefficients, solutions vanish below the classes' minimum sizes; its "
    "decidable hypotheses are decided in-run (crit_okb) on the descriptor harness uspec_of builds -- that this descriptor "
    "is the specification (labels, rule forms, minimum_size_of_object, shifts()) is trusted harness code, tied by the "
    "in-run comparison of the descriptor rules' equations with the emitted ones",
    "C20_genf_selection speaks about the specification's OWN counts (rule.count_objects_of_size); that they are the true "
    "counts is C01's conclusion (the oracle compares with brute force and an independent recurrence instead)",
]

KINDS = {0: "union", 1: "product", 2: "rev_union", 3: "rev_product", 4: "equiv", 5: "equiv_rev", 6: "path",
         7: "atom", 8: "empty", 9: "verified", 10: "equiv_rev_product", 11: "path_without_constructor"}


# ----------------------------------------------------------------------------- universes
def _W():
    from harness.universes import words_ext

    return words_ext


def _S():
    from harness.universes import words_stats_c20

    return words_stats_c20


_CACHE = {}
_TRUTH = {}
_STATE = {}


def code_state():
    """Which of the two C20 fixes does the tree under test have?  Read from the SOURCE of the methods:
    eq   -- DisjointUnion.get_equation and CartesianProduct.get_equation set the variable of a child parameter
            nobody is mapped to to 1 and multiply the parents of one child parameter (fix f1b2e4b);
            True / False, or "mixed" when only one of the two methods has it;
    genf -- CombinatorialSpecification.get_genf asks _all_classes_agree (fix 7be1dfb).
    The model side runs rule_equation / genf_select for a repaired tree and rule_equation_old /
    genf_select_old otherwise."""
    if _STATE:
        return _STATE
    import inspect
    from comb_spec_searcher.specification import CombinatorialSpecification
    from comb_spec_searcher.strategies.constructor import CartesianProduct, DisjointUnion

    def has(fn, *marks):
        try:
            src = inspect.getsource(fn)
        except (OSError, TypeError):
            return False
        return all(m in src for m in marks)

    u = has(DisjointUnion.get_equation, "rhs_func.args")
    p = has(CartesianProduct.get_equation, "rhs_func.args") and not has(CartesianProduct.get_equation, "{child: parent for parent, child")
    _STATE["eq"] = True if (u and p) else False if not (u or p) else "mixed"
    _STATE["genf"] = hasattr(CombinatorialSpecification, "_all_classes_agree") and has(
        CombinatorialSpecification.get_genf, "_all_classes_agree")
    # the PROPOSED guard of the reverse constructors (findings/c20_reverse_equation_unmapped_child_parameter.diff)
    from comb_spec_searcher.strategies.constructor import Complement, Quotient

    gc, gq = has(Complement.get_equation, "func.args"), has(Quotient.get_equation, "func.args")
    _STATE["guard"] = bool(gc and gq)
    if gc != gq or (_STATE["guard"] and _STATE["eq"] is not True):
        _STATE["eq"] = "mixed"
    return _STATE


def fix_landed(which):
    """is the fix recorded in known_findings.json as a commit of /repo (kind fixed, a real hash)?  While the
    hash is still the placeholder FIXHASH_* a tree without the fix is simply the tree before the commit."""
    ids = {"eq": ("product-equation-parameter-collision", "union-equation-unmapped-child-parameter"),
           "genf": ("genf-selection-depends-on-solver-order",)}[which]
    for k in core.load_known():
        if k.get("property") == ID and k.get("match") in ids and k.get("kind") == "fixed" \
                and not str(k.get("commit", "FIXHASH")).startswith("FIXHASH"):
            return k.get("commit")
    return None


def truth(cls, n):
    k = (cls, n)
    if k not in _TRUTH:
        if len(_TRUTH) > 100000:
            _TRUTH.clear()
        _TRUTH[k] = Counter(cls.get_terms(n))
    return _TRUTH[k]


class Bundle:
    """the real objects of one case: rules (in equation order), sympy equations, labels"""

    def __init__(self, rules, eqs, label, spec=None, note=""):
        self.rules, self.eqs, self.label, self.spec, self.note = rules, eqs, label, spec, note
        classes = []
        for r in rules:
            for c in _rule_classes(r):
                if c not in classes:
                    classes.append(c)
        self.classes = classes
        names = sorted({p for c in classes for p in c.extra_parameters})
        self.vid = {"x": 0}
        for i, nm in enumerate(names):
            self.vid[nm] = i + 1


def _rule_classes(rule):
    from comb_spec_searcher.strategies.rule import EquivalenceRule, ReverseRule

    out = [rule.comb_class] + list(rule.children)
    for sub in getattr(rule, "rules", ()):      # EquivalencePathRule: the hidden classes name parameters too
        out += _rule_classes(sub)
    o = getattr(rule, "original_rule", None)
    while o is not None and isinstance(rule, (ReverseRule, EquivalenceRule)):
        out += [o.comb_class] + list(o.children)
        rule, o = o, getattr(o, "original_rule", None)
    return out


def _det_search(s, stride):
    """auto_search without its clock: expand `stride` queue items, then look for a specification
    (auto_search sizes its expansion bursts and the minimisation budget by wall-clock time, so two
    runs of it may return different specifications; the parent process and the worker must see the
    same one)"""
    from comb_spec_searcher.exception import SpecificationNotFound

    while True:
        if s.has_specification():
            return s.get_specification(minimization_time_limit=0)
        try:
            for _ in range(stride):
                label, strategies, inferral = next(s.classqueue)
                if s.expand_verified or not s.ruledb.is_verified(label):
                    s._expand(s.classdb.get_class(label), label, strategies, inferral)  # pylint: disable=protected-access
        except StopIteration:
            if s.has_specification():
                return s.get_specification(minimization_time_limit=0)
            raise SpecificationNotFound from None


def _search(case):
    cfg = case["cfg"]
    u = cfg["universe"]
    from comb_spec_searcher import CombinatorialSpecificationSearcher

    _random.seed(cfg.get("tree_seed", 0))
    if u == "words":
        s = _W().searcher(cfg)
    elif u == "stats":
        S = _S()
        s = CombinatorialSpecificationSearcher(S.stat_start(cfg["start"]), S.stat_pack(cfg.get("spack", "keep")), ruledb=_W().make_ruledb(cfg["ruledb"]))
    else:
        S = _S()
        s = CombinatorialSpecificationSearcher(_tree_start(cfg), S.tree_pack(), ruledb=_W().make_ruledb(cfg["ruledb"]))
    return _det_search(s, 1 + cfg.get("tree_seed", 0) % 3)


def _tree_start(cfg):
    """trees universe: root kind 'tree' | planted on j leaves | the trees whose root has arity k"""
    if cfg.get("planted"):
        kind = ("planted", cfg["planted"])
    elif cfg.get("node"):
        kind = ("node", cfg["node"])
    else:
        kind = "tree"
    return _S().Tree(tuple(cfg["arities"]), kind, tuple(cfg.get("weights", ())))


def _stat_class(d):
    return _S().StatWord(d["prefix"], d["patterns"], list(d["alphabet"]), False, [tuple(s) for s in d["stats"]])


def _build_rule(case):
    """single rule case -> (rule, note)"""
    from comb_spec_searcher.strategies.rule import EquivalencePathRule

    S = _S()
    r = case["rule"]
    parent = _stat_class(r["class"])
    strat = {"expansion": S.StatExpansion, "expansion_last": S.StatExpansionLast, "remove_front": S.StatRemoveFront,
             "relabel": S.StatRelabel, "unary_product": S.StatUnaryProduct,
             "remove_front_lw": lambda mode: S.StatRemoveFrontLW(mode, r.get("rest_pos", 0))}[r["strategy"]]
    form = r["form"]
    if form == "path":
        # forward chain c0 -> c1 -> .. -> ck of relabelling equivalences, then
        #   shape "fwd":   e1 .. ek                shape "rev":  rev(ek) .. rev(e1)
        #   shape "back":  e1 .. ek, rev(ek) .. (r["back"] < k of them)
        cur, fwd_rules = parent, []
        for mode in r["steps"]:
            # {"product": mode}: the step is a product with a single factor instead of a unary union
            st = S.StatUnaryProduct(mode["product"]) if isinstance(mode, dict) and "product" in mode else S.StatRelabel(mode)
            if st.decomposition_function(cur) is None:
                break
            # "bare": the rule itself is the step (how a specification holds a one-child rule), else wrapped in
            # an EquivalenceRule
            e = st(cur) if r.get("bare") else st(cur).to_equivalence_rule()
            fwd_rules.append(e)
            cur = e.children[0]
        if not fwd_rules:
            return None, "relabel does not apply"
        if r["shape"] == "fwd":
            chain = fwd_rules
        elif r["shape"] == "rev":
            chain = [e.to_reverse_rule(0) for e in reversed(fwd_rules)]
        else:
            back = min(r["back"], len(fwd_rules) - 1)
            chain = fwd_rules + [e.to_reverse_rule(0) for e in list(reversed(fwd_rules))[:back]]
        path = EquivalencePathRule(chain)
        if path.children[0] == path.comb_class:
            # the relabellings returned to the start: a class is never its own child in a specification
            # (sympy would fold F = F into True)
            return None, "path returns to its start"
        return path, ""
    st = strat(r["mode"])
    if st.decomposition_function(parent) is None:
        return None, "strategy does not apply"
    fwd = st(parent)
    if form == "fwd":
        return fwd, ""
    if form == "rev":
        if r["idx"] >= len(fwd.children):
            return None, "idx out of range"
        return fwd.to_reverse_rule(r["idx"]), ""
    if not fwd.is_equivalence():
        return None, "not an equivalence"
    eq = fwd.to_equivalence_rule()
    return (eq if form == "equiv" else eq.to_reverse_rule(0)), ""


def bundle(case):
    key = json.dumps(case, sort_keys=True)
    if key in _CACHE:
        return _CACHE[key]
    if len(_CACHE) > 400:
        _CACHE.clear()
    b = None
    try:
        if case["kind"] == "spec":
            spec = _search(case)
            rules = [r for _, r in sorted(spec.rules_dict.items(), key=lambda t: spec.get_label(t[0]))]
            try:
                eqs = list(spec.get_equations())
            except Exception as ex:  # pylint: disable=broad-except
                eqs = "get_equations raised %s: %s" % (type(ex).__name__, str(ex)[:120])
            if isinstance(eqs, str):
                b = Bundle([], [], None, spec, eqs)
                b.bad = True
            elif len(eqs) != len(rules):
                b = Bundle([], [], None, spec, "get_equations yielded %d equations for %d rules" % (len(eqs), len(rules)))
                b.bad = True
            else:
                b = Bundle(rules, eqs, spec.get_label, spec)
        else:
            try:
                rule, note = _build_rule(case)
            except AssertionError as ex:   # e.g. the reverse of a merging relabel is not an equivalence
                rule, note = None, "library refuses: %s" % str(ex)[:60]
            if rule is None:
                b = Bundle([], [], None, None, note)
            else:
                order = []

                def label(c):
                    if c not in order:
                        order.append(c)
                    return order.index(c)

                for c in _rule_classes(rule):
                    label(c)
                try:
                    eq = rule.get_equation(lambda c: c.get_function(label))
                except NotImplementedError:
                    import sympy

                    # what CombinatorialSpecification.get_equations does with such a rule
                    eq = sympy.Eq(rule.comb_class.get_function(label), sympy.Function("NOTIMPLEMENTED")(sympy.var("x")))
                b = Bundle([rule], [eq], label)
    except Exception as ex:  # pylint: disable=broad-except
        from comb_spec_searcher.exception import SpecificationNotFound

        if isinstance(ex, SpecificationNotFound):
            b = Bundle([], [], None, None, "no specification")
        else:
            raise
    _CACHE[key] = b
    return b


# ----------------------------------------------------------------------------- descriptors
def describe(rule, lab, vid):
    from comb_spec_searcher import AtomStrategy
    from comb_spec_searcher.strategies.constructor import CartesianProduct, Complement, DisjointUnion
    from comb_spec_searcher.strategies.rule import (
        EquivalencePathRule,
        EquivalenceRule,
        ReverseRule,
        Rule,
        VerificationRule,
    )
    from comb_spec_searcher.strategies.strategy import EmptyStrategy

    def ep(d):
        return [[vid[a], vid[b]] for a, b in d.items()]

    def orule(r):
        return [lab(r.comb_class), [lab(k) for k in r.children], [ep(d) for d in r.constructor.extra_parameters]]

    def ctor_kind(r):
        c = r.constructor
        if isinstance(c, DisjointUnion):
            return 0
        if isinstance(c, CartesianProduct):
            return 1
        raise ValueError("constructor not modelled: %s" % type(c).__name__)

    cc = rule.comb_class
    if isinstance(rule, VerificationRule):
        s = rule.strategy
        if isinstance(s, AtomStrategy):
            return [7, lab(cc), cc.minimum_size_of_object()]
        if isinstance(s, EmptyStrategy):
            return [8, lab(cc)]
        return [9, lab(cc)]
    if isinstance(rule, EquivalencePathRule):
        # per step: is its own constructor a Complement / Quotient (a reversed union / single-factor product)?
        # and its dictionary.  A step WITHOUT a constructor (EquivalenceRule of a reversed single-factor product)
        # leaves the whole path without one: kind 11
        from comb_spec_searcher.strategies.constructor import Quotient

        steps = []
        for r in rule.rules:
            try:
                c = r.constructor
            except NotImplementedError:
                return [11, lab(cc), lab(rule.children[0])]
            steps.append([int(isinstance(c, (Complement, Quotient))), ep(c.extra_parameters[0])])
        return [6, lab(cc), steps, lab(rule.children[0])]
    if isinstance(rule, EquivalenceRule):
        o = rule.original_rule
        if isinstance(o, ReverseRule):
            oo = o.original_rule
            if ctor_kind(oo) != 0:
                if len(oo.children) != 1:
                    raise ValueError("equivalence of a reversed product with several factors")
                return [10, lab(cc), lab(rule.children[0])]
            idx = oo.to_equivalence_rule().child_idx
            return [5, lab(cc), lab(rule.children[0]), ep(oo.constructor.extra_parameters[idx])]
        if ctor_kind(o) != 0 and len(o.children) != 1:
            raise ValueError("equivalence of a product with several factors")
        return [4] + orule(o) + [rule.child_idx]
    if isinstance(rule, ReverseRule):
        o = rule.original_rule
        return [2 + ctor_kind(o)] + orule(o) + [rule.idx]
    if isinstance(rule, Rule):
        return [ctor_kind(rule)] + orule(rule)
    raise ValueError("rule type not modelled: %s" % type(rule).__name__)


def order_of(case, b):
    if "N" in case:
        return case["N"]
    return 5


def _table(cls, N):
    out = []
    for n in range(N + 1):
        for params, cnt in sorted(truth(cls, n).items()):
            out.append([[n] + list(params), cnt])
    return out


def encode(case):
    b = bundle(case)
    if not b.rules:
        return [0, [0], [], [], [], [0, 0, 0], []]
    N = order_of(case, b)
    V = sorted(b.vid.values())
    classes, opaque, rules = [], [], []
    for c in b.classes:
        classes.append([b.label(c), [b.vid[p] for p in c.extra_parameters], _table(c, N)])
    for r in b.rules:
        d = describe(r, b.label, b.vid)
        rules.append(d)
        if d[0] == 9:
            c = r.comb_class
            pos = [V.index(b.vid[p]) for p in c.extra_parameters]
            ent = []
            for key, cnt in _table(c, N):
                e = [0] * len(V)
                e[0] = key[0]
                for j, p in enumerate(pos):
                    e[p] += key[1 + j]
                ent.append([e, cnt])
            opaque.append([b.label(c), ent])
    st = code_state()
    return [N, V, classes, opaque, rules, [int(st["eq"] is True), int(bool(st["genf"])), int(bool(st["guard"]))], []]


def encode_with(case, res):
    """encode(case) as computed next to the implementation run (worker process): the parent process does not
    repeat the search and the brute-force tables of every case serially"""
    if isinstance(res, dict) and "enc" in res:
        return res["enc"]
    if isinstance(res, dict) and "exception" in res:
        return [0, [0], [], [], [], [0, 0, 0], []]       # the implementation raised: reported by the oracle, nothing to model
    try:
        return encode(case)
    except Exception:  # pylint: disable=broad-except
        return [0, [0], [], [], [], [0, 0, 0], []]


# ----------------------------------------------------------------------------- canonical form of sympy trees
BAD = ((((9, 9), 1),), 1)


def _np_clean(d):
    return {k: v for k, v in d.items() if v != 0}


def _nm_mul(a, b):
    d = dict(a)
    for code, e in b:
        d[code] = d.get(code, 0) + e
    return tuple(sorted((c, e) for c, e in d.items() if e != 0))


def _np_mul(p, q):
    out = {}
    for m1, c1 in p.items():
        for m2, c2 in q.items():
            m = _nm_mul(m1, m2)
            out[m] = out.get(m, 0) + c1 * c2
    return _np_clean(out)


def _np_add(p, q):
    out = dict(p)
    for m, c in q.items():
        out[m] = out.get(m, 0) + c
    return _np_clean(out)


def _arg_code(p):
    if len(p) == 1:
        (m, c), = p.items()
        if c == 1 and all(len(code) == 2 and code[0] == 0 for code, _ in m):
            out = [len(m)]
            for code, e in m:
                out += [code[1], e]
            return out
    return [-1]


def nf_sym(e, vid, opaque_atom=None):
    """sympy expression -> {monomial: coeff}; monomial = sorted tuple of (atom code, exponent)"""
    import sympy
    from sympy.core.function import AppliedUndef

    if opaque_atom is not None:
        return {(((2, opaque_atom), 1),): 1}
    if isinstance(e, sympy.Symbol):
        if e.name not in vid:
            return {(((0, -7), 1),): 1}
        return {(((0, vid[e.name]), 1),): 1}
    if isinstance(e, sympy.Integer):
        return _np_clean({(): int(e)})
    if isinstance(e, AppliedUndef):
        name = e.func.__name__
        if name == "NOTIMPLEMENTED":
            lab = -1
        elif name.startswith("F_"):
            lab = int(name[2:])
        else:
            return dict([BAD])
        code = [1, lab]
        for a in e.args:
            code += _arg_code(nf_sym(a, vid))
        return {((tuple(code), 1),): 1}
    if isinstance(e, sympy.Add):
        out = {}
        for a in e.args:
            out = _np_add(out, nf_sym(a, vid))
        return out
    if isinstance(e, sympy.Mul):
        out = {(): 1}
        for a in e.args:
            out = _np_mul(out, nf_sym(a, vid))
        return out
    if isinstance(e, sympy.Pow) and isinstance(e.exp, sympy.Integer):
        base, k = nf_sym(e.base, vid), int(e.exp)
        if k < 0:
            if len(base) != 1:
                return dict([BAD])
            (m, c), = base.items()
            if c not in (1, -1):
                return dict([BAD])
            base, k = {tuple((code, -ex) for code, ex in m): c}, -k
        out = {(): 1}
        for _ in range(k):
            out = _np_mul(out, base)
        return out
    return dict([BAD])


def _np_list(p):
    return sorted([[[list(code), ex] for code, ex in m], c] for m, c in p.items())


# ----------------------------------------------------------------------------- evaluation on true series
def _series_poly(cls, args, M):
    """sum over the class's objects up to size M of  args[0]^size * prod args[1+j]^param_j"""
    import sympy

    terms = []
    for n in range(M + 1):
        for params, cnt in truth(cls, n).items():
            terms.append(sympy.Mul(sympy.Integer(cnt), args[0] ** n, *[a ** p for a, p in zip(args[1:], params)]))
    return sympy.Add(*terms)


def evaluate(b, eq, M):
    """(coeffs of lhs', coeffs of rhs') up to order M in x, as sorted [[exponents over V], coeff] lists;
    lhs' = lhs * denominators, rhs' = numerator (denominators = negative powers of class functions)"""
    import sympy
    from sympy.core.function import AppliedUndef

    x = sympy.var("x")
    bylabel = {b.label(c): c for c in b.classes}
    names = sorted(b.vid, key=lambda k: b.vid[k])
    syms = [sympy.var(nm) for nm in names]

    def repl(e):
        m = {}
        for f in e.atoms(AppliedUndef):
            name = f.func.__name__
            if name.startswith("F_") and int(name[2:]) in bylabel:
                m[f] = _series_poly(bylabel[int(name[2:])], f.args, M)
            else:
                m[f] = sympy.Integer(0)
        return e.xreplace(m)

    lhs, rhs = eq.lhs, eq.rhs
    dens, nums = [], []
    for f in (rhs.args if isinstance(rhs, sympy.Mul) else [rhs]):
        if isinstance(f, sympy.Pow) and isinstance(f.base, AppliedUndef) and f.exp.is_Integer and f.exp < 0:
            dens.append(f.base ** (-f.exp))
        else:
            nums.append(f)
    L = repl(sympy.Mul(lhs, *dens))
    R = repl(sympy.Mul(*nums))
    # a symbol that is no parameter of any class involved: compared as one more variable
    syms = syms + sorted((L.free_symbols | R.free_symbols) - set(syms), key=str)

    def coeffs(e):
        e = sympy.expand(e)
        if not e.is_polynomial(*syms):
            e = sympy.expand(sympy.series(e, x, 0, M + 1).removeO())
        if e == 0:
            return []
        p = sympy.Poly(e, *syms)
        out = []
        for exps, c in p.terms():
            if exps[0] <= M and c != 0:
                out.append([list(map(int, exps)), int(c)])
        return sorted(out)

    return coeffs(L), coeffs(R)


def _name_permuting(rule):
    """1 if some dictionary the equation of this rule is built from maps a parameter onto the name of a
    DIFFERENT parameter of the same parent which is itself re-named (swap, cycle, chain: replacing the names
    one after the other would re-write an already replaced name), else 0"""
    from comb_spec_searcher.strategies.rule import ReverseRule, VerificationRule

    if isinstance(rule, VerificationRule):
        return 0
    src = rule.original_rule if isinstance(rule, ReverseRule) else rule     # fallback: the original rule's maps
    try:
        eps = src.constructor.extra_parameters
    except Exception:  # pylint: disable=broad-except
        return 0
    for ep in eps:
        # p -> c where c is also the name of a parent parameter that is itself mapped to something else
        if any(c in ep and c != p and ep[c] != c for p, c in ep.items()):
            return 1
    return 0


def impl(case):
    import sympy

    b = bundle(case)
    res = {"out": [], "note": b.note, "status": [], "kinds": []}
    if getattr(b, "bad", False):
        res["out"] = {"bad": b.note}
        return res
    if not b.rules:
        return res
    N = order_of(case, b)
    out = []
    from comb_spec_searcher.strategies.rule import VerificationRule

    res["perm"] = []
    for r, eq in zip(b.rules, b.eqs):
        d = describe(r, b.label, b.vid)
        res["kinds"].append(d[0])
        res["perm"].append(_name_permuting(r))
        if not isinstance(eq, sympy.Equality):
            out.append([3, [], [], [0]])
            res["status"].append(3)
            continue
        status = 1 if any(f.func.__name__ == "NOTIMPLEMENTED" for f in eq.atoms(sympy.Function)) else 0
        res["status"].append(status)
        opaque = None
        if d[0] == 9 and isinstance(r, VerificationRule):
            # the right-hand side must be the strategy's own closed form
            own = r.strategy.get_genf(r.comb_class, None)
            opaque = d[1] if (eq.rhs == own or sympy.simplify(eq.rhs - own) == 0) else None
            rhs_nf = nf_sym(eq.rhs, b.vid, opaque) if opaque is not None else dict([BAD])
        else:
            rhs_nf = nf_sym(eq.rhs, b.vid)
        L, R = evaluate(b, eq, N)
        out.append([status, _np_list(nf_sym(eq.lhs, b.vid)), _np_list(rhs_nf), [1, L, R]])
    res["out"] = out
    # the model's input (descriptors of these very rule objects + brute-force tables), built in the worker
    # process: see encode_with
    res["enc"] = encode(case)
    if case.get("genf"):
        check = case.get("check", 6)
        res["genf"], runs = _run_genf(b, check)
        sel = _selection_input(b, check, res["genf"], runs)
        if sel is not None:
            res["enc"][6], extra = sel
            res["out"] = res["out"] + extra
        else:
            res["genf_model"] = "skipped"
        # the closed-form criterion on the REAL specification: descriptor -> model (field 8), harness verdict -> out
        if any("genf" in g for g in res["genf"]):
            cenc, centry, why = _criterion_input(b, check)
            if cenc is not None:
                while len(res["enc"]) < 8:
                    res["enc"].append([])
                res["enc"][7] = cenc
                res["out"] = res["out"] + [centry]
                res["crit"] = centry
            else:
                res["crit_outside"] = why
    return res


GENF_K = 6      # root coefficients compared between model and implementation: 0 .. check + GENF_K


def _selection_input(b, check, infos, runs):
    """The selection step of get_genf as an input/output pair for the model (Count/GenfSelect.v):
    input  [check, root, number of classes, the specification's counts per class, the solver's lists handed to
            get_genf (one per run; a solution = per class the Taylor coefficients 0..K of its function, [] when
            it has none), K];
    output per run [5, 1, Taylor coefficients 0..K of the function get_genf returned] or [5, 0, []]
           (IncorrectGeneratingFunctionError).
    None when the comparison is not possible (get_genf refused before solving; a non-integer coefficient)."""
    import sympy
    from comb_spec_searcher.utils import RecursionLimit

    spec = b.spec
    if not runs or len(runs) != len(infos) or any(r is None for r in runs):
        return None
    K = check + GENF_K
    classes = [r.comb_class for r in b.rules]
    if spec.root not in classes:
        return None
    funcs = [spec.get_function(c) for c in classes]
    counts = []
    with RecursionLimit((K + 2) * max(spec.number_of_rules(), 1) + 100):
        for c in classes:
            counts.append([int(spec.rules_dict[c].count_objects_of_size(n)) for n in range(check + 1)])
    enc_runs, out = [], []
    memo = {}
    for info, sols in zip(infos, runs):
        er = []
        for sol in sols:
            eb = []
            for f in funcs:
                if f not in sol:
                    eb.append([])
                    continue
                key = sympy.srepr(sol[f])
                if key not in memo:
                    memo[key] = _taylor(sol[f], K, integer=False)
                t = memo[key]
                if t is None:
                    eb.append([])
                elif any(not isinstance(x, int) for x in t):
                    return None
                else:
                    eb.append([1] + t)
            er.append(eb)
        enc_runs.append(er)
        if "genf" in info:
            t = _taylor(sympy.sympify(info["genf"]), K, integer=False)
            if t is None or any(not isinstance(x, int) for x in t):
                return None
            out.append([5, 1, t])
        elif info.get("exception") == "IncorrectGeneratingFunctionError":
            out.append([5, 0, []])
        else:
            return None
    return [check, classes.index(spec.root), len(classes), counts, enc_runs, K], out


# ----------------------------------------------------------------------------- genuineness of the rules
# The hypotheses union_genuine / product_genuine / atom_genuine / empty_genuine of the theorems
# (Count/EquationsRules.v), evaluated on brute-force tables for the rule objects of the case -- by the
# harness's own positional re-keying, not by the library's get_terms.
def _rekey(parent, child, ep, counter):
    """Coq `rk`: component q of the parent's key = value of the child parameter ep[q], 0 if q is not mapped;
    child parameters that are nobody's image are summed out"""
    cpos = {nm: i for i, nm in enumerate(child.extra_parameters)}
    out = Counter()
    for params, cnt in counter.items():
        out[tuple(params[cpos[ep[q]]] if q in ep else 0 for q in parent.extra_parameters)] += cnt
    return out


def _dict_wf(parent, child, ep):
    """kid_wf without its cover clause: keys are parent parameters, values are child parameters"""
    return set(ep) <= set(parent.extra_parameters) and set(ep.values()) <= set(child.extra_parameters)


def _unmapped(child, ep, M):
    """child parameters that no parent parameter is mapped to -> 'zero' (0 on every object up to size M:
    kid_wf0) or 'genuine' (takes a non-zero value: the shape of the open finding)"""
    out = {}
    for i, nm in enumerate(child.extra_parameters):
        if nm not in ep.values():
            zero = all(k[i] == 0 for n in range(M + 1) for k in truth(child, n))
            out[nm] = "zero" if zero else "genuine"
    return out


def _union_genuine(parent, kids, M):
    """kids = [(child, ep)]; None or (size, got, want)"""
    for n in range(M + 1):
        tot = Counter()
        for c, ep in kids:
            tot.update(_rekey(parent, c, ep, truth(c, n)))
        want = truth(parent, n)
        if +tot != +want:
            return n, dict(tot), dict(want)
    return None


def _product_genuine(parent, kids, M):
    k = len(parent.extra_parameters)
    acc = {0: Counter({(0,) * k: 1})}
    for c, ep in kids:
        new = {}
        for n1, t1 in acc.items():
            for n2 in range(M + 1 - n1):
                t2 = _rekey(parent, c, ep, truth(c, n2))
                if not t2:
                    continue
                tgt = new.setdefault(n1 + n2, Counter())
                for k1, c1 in t1.items():
                    for k2, c2 in t2.items():
                        tgt[tuple(a + b for a, b in zip(k1, k2))] += c1 * c2
        acc = new
    for n in range(M + 1):
        got, want = acc.get(n, Counter()), truth(parent, n)
        if +got != +want:
            return n, dict(got), dict(want)
    return None


def _rule_source(rule):
    """(kind, parent, [(child, ep)], note): the union / product whose genuineness the theorem for this
    rule form assumes"""
    from comb_spec_searcher.strategies.constructor import CartesianProduct, DisjointUnion
    from comb_spec_searcher.strategies.rule import EquivalencePathRule, EquivalenceRule, ReverseRule, VerificationRule

    if isinstance(rule, VerificationRule):
        return None
    if isinstance(rule, EquivalencePathRule):
        try:
            ep = dict(rule.constructor.extra_parameters[0])
        except NotImplementedError:
            return None       # no equation either
        return "union", rule.comb_class, [(rule.children[0], ep)], "composed dictionary of the path"
    if isinstance(rule, EquivalenceRule):
        o = rule.original_rule
        if isinstance(o, ReverseRule):
            oo = o.original_rule
            idx = oo.to_equivalence_rule().child_idx
            return "union", oo.comb_class, [(oo.children[idx], dict(oo.constructor.extra_parameters[idx]))], "original rule, non-empty child"
        return "union", o.comb_class, [(o.children[rule.child_idx], dict(o.constructor.extra_parameters[rule.child_idx]))], "non-empty child"
    src = rule.original_rule if isinstance(rule, ReverseRule) else rule
    c = src.constructor
    kind = "union" if isinstance(c, DisjointUnion) else "product" if isinstance(c, CartesianProduct) else None
    if kind is None:
        return None
    return kind, src.comb_class, [(k, dict(ep)) for k, ep in zip(src.children, c.extra_parameters)], \
        "original rule" if src is not rule else ""


def _genuine(b, M, facts):
    """every rule of the case is genuine up to size M (the hypothesis of the rule-form theorems), its
    dictionaries are well-formed; records the unmapped child parameters"""
    from comb_spec_searcher import AtomStrategy
    from comb_spec_searcher.strategies.rule import VerificationRule
    from comb_spec_searcher.strategies.strategy import EmptyStrategy

    for c in b.classes:       # class_wf: parameter names of one class are distinct, none is the size variable
        ps = list(c.extra_parameters)
        if len(set(ps)) != len(ps) or "x" in ps:
            return "hypothesis violated: the parameter names %r of %r are not distinct names different from x" % (ps, c)
    for r in b.rules:
        if isinstance(r, VerificationRule):
            c = r.comb_class
            if isinstance(r.strategy, EmptyStrategy):
                if any(truth(c, n) for n in range(M + 1)):
                    return "hypothesis violated: %r has an EmptyStrategy rule and is not empty" % (c,)
            elif isinstance(r.strategy, AtomStrategy):
                m = c.minimum_size_of_object()
                if any(sum(truth(c, n).values()) != int(n == m) for n in range(M + 1)):
                    return "hypothesis violated: %r has an AtomStrategy rule and is not one object of size %d" % (c, m)
            continue
        src = _rule_source(r)
        if src is None:
            continue
        kind, parent, kids, note = src
        for c, ep in kids:
            if not _dict_wf(parent, c, ep):
                return "hypothesis violated: dictionary %r of the %s rule for %r does not map parameters of the parent to parameters of %r" % (ep, kind, parent, c)
            for nm, how in _unmapped(c, ep, M).items():
                facts.append("unmapped-child-parameter:" + how)
            if len(set(ep.values())) < len(ep):
                facts.append("merged-parent-parameters:" + kind)
                if max(list(ep.values()).count(v) for v in ep.values()) >= 3:
                    facts.append("merged-parent-parameters:3+")
        bad = (_union_genuine if kind == "union" else _product_genuine)(parent, kids, M)
        if bad:
            return ("hypothesis violated: the %s rule for %r%s is not genuine: at size %d the children's re-keyed terms "
                    "combine to %r, the class has %r" % (kind, parent, " (%s)" % note if note else "", bad[0], bad[1], bad[2]))
        facts.append("genuine:" + kind)
    return None


# ----------------------------------------------------------------------------- the two equation findings, mechanically
def _explain(b, r, eq, M):
    """The emitted equation is not satisfied.  Build the equation the open findings say should have been
    emitted (an unmapped GENUINE child parameter set to 1; a product's child variable replaced by the product
    of ALL parent variables mapped to it, as DisjointUnion.get_equation does) and evaluate it: the failure
    counts as the known finding only if this repaired equation IS satisfied.  -> finding id or None"""
    import sympy
    from sympy.core.function import AppliedUndef

    src = _rule_source(r)
    if src is None:
        return None
    kind, parent, kids, _ = src
    ids = []
    rep = {}
    labels = {}
    for c, ep in kids:
        labels.setdefault(b.label(c), []).append((c, ep))
    for f in eq.atoms(AppliedUndef):
        name = f.func.__name__
        if not name.startswith("F_") or int(name[2:]) not in labels:
            continue
        for c, ep in labels[int(name[2:])]:
            un = _unmapped(c, ep, M)
            args = list(f.args)
            changed = False
            for i, nm in enumerate(c.extra_parameters):
                if un.get(nm) == "genuine" and args[1 + i] == sympy.Symbol(nm):
                    args[1 + i] = sympy.Integer(1)
                    changed = True
            if changed:
                rep[f] = f.func(*args)
                if "union-equation-unmapped-child-parameter" not in ids:
                    ids.append("union-equation-unmapped-child-parameter")
    fixed = eq.xreplace(rep) if rep else eq
    if kind == "product" and any(len(set(ep.values())) < len(ep) for _, ep in kids) \
            and isinstance(fixed, sympy.Equality) and fixed.lhs.func.__name__ == "F_%d" % b.label(parent):
        rhs = sympy.Integer(1)
        for c, ep in kids:
            sub = {}
            for q, cv in ep.items():
                sub[sympy.Symbol(cv)] = sub.get(sympy.Symbol(cv), 1) * sympy.Symbol(q)
            fc = c.get_function(b.label)
            un = _unmapped(c, ep, M)
            args = [sympy.Integer(1) if (i and un.get(c.extra_parameters[i - 1]) == "genuine") else a for i, a in enumerate(fc.args)]
            rhs *= fc.func(*args).subs(sub, simultaneous=True)
        fixed = sympy.Eq(fixed.lhs, rhs)
        ids.append("product-equation-parameter-collision")
    if not ids or not isinstance(fixed, sympy.Equality):
        return None
    L, R = evaluate(b, fixed, M)
    if L != R:
        return None
    return "+".join(ids)


# ----------------------------------------------------------------------------- get_genf
ORDER = 40          # Taylor coefficients compared up to x^ORDER
_SOLVED = {}


def _run_genf(b, check=6):
    """get_genf(check) as it is, and -- when the solver returned several solutions -- once more with
    sympy.solve's list of solutions reversed: the code iterates over that list and returns the first
    solution passing its initial-condition check, so the property must not depend on the order in which
    the solver lists the branches"""
    import sympy
    from comb_spec_searcher import specification as specmod

    out, runs = [], []
    orig = specmod.solve
    seen = {"n": None, "sols": None}
    for rev in (False, True):
        if rev and (seen["n"] is None or seen["n"] < 2):
            break
        seen["sols"] = None

        def solve(*a, _rev=rev, **k):
            sols = orig(*a, **k)
            seen["n"] = len(sols)
            seen["sols"] = list(reversed(sols)) if _rev else list(sols)
            return list(seen["sols"])

        specmod.solve = solve
        try:
            g = b.spec.get_genf(check=check)
            out.append({"genf": sympy.srepr(g), "str": str(g), "branches": seen["n"]})
        except Exception as ex:  # pylint: disable=broad-except
            out.append({"exception": type(ex).__name__, "text": str(ex)[:200], "branches": seen["n"]})
        finally:
            specmod.solve = orig
        runs.append(seen["sols"])
    return out, runs


class _PS:
    """truncated Laurent series over Q in x:  sum co[i] x^(val+i) + O(x^prec),  len(co) = prec - val.
    Exact rational arithmetic with ABSOLUTE precision tracked through every operation (dividing by x^k or
    cancelling leading terms lowers it), so that a coefficient is only ever reported when it is determined."""

    def __init__(self, val, co, prec):
        self.val, self.co, self.prec = val, co, prec

    def strip(self):
        k = 0
        while k < len(self.co) and self.co[k] == 0:
            k += 1
        return _PS(self.val + k, self.co[k:], self.prec)

    @staticmethod
    def const(c, prec):
        return _PS(0, [c] + [0] * (prec - 1), prec)

    def add(self, o):
        prec = min(self.prec, o.prec)
        val = min(self.val, o.val)
        co = [0] * max(prec - val, 0)
        for s in (self, o):
            for i, c in enumerate(s.co):
                j = s.val + i - val
                if j < len(co):
                    co[j] += c
        return _PS(val, co, prec)

    def mul(self, o):
        a, b = self.strip(), o.strip()
        val = a.val + b.val
        prec = min(a.prec + b.val, b.prec + a.val)
        n = max(prec - val, 0)
        co = [0] * n
        for i, x in enumerate(a.co[:n]):
            if x:
                for j, y in enumerate(b.co[:n - i]):
                    co[i + j] += x * y
        return _PS(val, co, prec)

    def inv(self):
        a = self.strip()
        if not a.co:
            raise ArithmeticError("division by a series that vanishes to the known order")
        n = len(a.co)
        out = [1 / a.co[0]]
        for k in range(1, n):
            out.append(-sum(a.co[i] * out[k - i] for i in range(1, k + 1)) / a.co[0])
        return _PS(-a.val, out, -a.val + n)

    def sqrt(self):
        from fractions import Fraction
        from math import isqrt

        a = self.strip()
        if not a.co:
            return _PS(a.val // 2 if a.val % 2 == 0 else (a.val + 1) // 2, [], (a.prec + 1) // 2)
        c0 = Fraction(a.co[0])
        if a.val % 2 or c0 <= 0 or isqrt(c0.numerator) ** 2 != c0.numerator or isqrt(c0.denominator) ** 2 != c0.denominator:
            raise ArithmeticError("square root is not a Laurent series over Q")
        r0 = Fraction(isqrt(c0.numerator), isqrt(c0.denominator))
        n = len(a.co)
        out = [r0]
        for k in range(1, n):
            out.append((a.co[k] - sum(out[i] * out[k - i] for i in range(1, k))) / (2 * r0))
        return _PS(a.val // 2, out, a.val // 2 + n)


def _ps_eval(e, prec):
    """sympy expression in x (rational numbers, +, *, integer powers, square roots) -> _PS, exactly"""
    import sympy
    from fractions import Fraction

    if e.is_Symbol:
        if e.name != "x":
            raise ArithmeticError("foreign symbol %s" % e)
        return _PS(1, [Fraction(1)] + [0] * (prec - 2), prec)
    if e.is_Rational:
        return _PS.const(Fraction(int(e.p), int(e.q)), prec)
    if e.is_Add:
        out = _ps_eval(e.args[0], prec)
        for a in e.args[1:]:
            out = out.add(_ps_eval(a, prec))
        return out
    if e.is_Mul:
        out = _ps_eval(e.args[0], prec)
        for a in e.args[1:]:
            out = out.mul(_ps_eval(a, prec))
        return out
    if e.is_Pow and e.exp.is_Rational:
        base = _ps_eval(e.base, prec)
        p, q = int(e.exp.p), int(e.exp.q)
        if q == 2:
            base = base.sqrt()
        elif q != 1:
            raise ArithmeticError("root of order %d" % q)
        if p < 0:
            base, p = base.inv(), -p
        out = _PS.const(Fraction(1), prec)
        for _ in range(p):
            out = out.mul(base)
        return out
    raise ArithmeticError("not a rational / square-root expression: %s" % type(e).__name__)


def _taylor(expr, order, integer=True):
    """coefficients 0..order of a function analytic at 0 (a power series without negative exponents; with
    integer=True: integer coefficients), or None.  Exact truncated-series arithmetic of the harness (_PS);
    sympy.series only for expressions outside rational functions and square roots."""
    import sympy

    expr = sympy.sympify(expr)
    x = sympy.var("x")
    co = None
    try:
        ps = _ps_eval(expr, order + 14)
        if ps.prec >= order + 1:
            s = ps.strip()
            if s.val < 0 and s.co:
                return None                       # a pole at 0
            full = [0] * (order + 1)
            for i, c in enumerate(s.co):
                if s.val + i <= order:
                    full[s.val + i] = c
            co = [sympy.Rational(c.numerator, c.denominator) if c else sympy.Integer(0) for c in full]
    except (ArithmeticError, ZeroDivisionError):
        co = None
    if co is None:
        try:
            ser = sympy.series(expr, x, 0, order + 1).removeO()
            p = sympy.Poly(sympy.expand(ser), x)     # raises on negative or fractional exponents
        except Exception:  # pylint: disable=broad-except
            return None
        co = p.all_coeffs()[::-1]
        if p.free_symbols - {x}:
            return None
        co = (co + [sympy.Integer(0)] * (order + 1))[:order + 1]
    if integer and any(not c.is_Integer for c in co):
        return None
    return [int(c) if c.is_Integer else c for c in co]


def _solutions(eqs):
    """sympy.solve on the emitted system, called as get_genf calls it; cached by the system (in memory and
    under .work/, shared by the worker processes: an oracle-side computation that depends on the equations
    only, never on what get_genf returned)"""
    import hashlib
    import os
    import sympy
    from itertools import chain

    key = hashlib.sha1((sympy.__version__ + "|" + sympy.srepr(eqs)).encode()).hexdigest()
    if key in _SOLVED:
        return _SOLVED[key]
    d = os.path.join(core.WORK, "c20_solved")
    path = os.path.join(d, key + ".json")
    sols = None
    try:
        with open(path) as f:
            sols = [{sympy.sympify(a): sympy.sympify(e) for a, e in sol} for sol in json.load(f)]
    except (OSError, ValueError, sympy.SympifyError):
        sols = None
    if sols is None:
        funcs = set(chain.from_iterable(eq.atoms(sympy.Function) for eq in eqs))
        sols = sympy.solve(eqs, funcs, dict=True, cubics=False, quartics=False, quintics=False)
        try:
            os.makedirs(d, exist_ok=True)
            tmp = "%s.%d.tmp" % (path, os.getpid())
            with open(tmp, "w") as f:
                json.dump([[[sympy.srepr(a), sympy.srepr(e)] for a, e in sol.items()] for sol in sols], f)
            os.replace(tmp, path)
        except OSError:
            pass
    if len(_SOLVED) > 200:
        _SOLVED.clear()
    _SOLVED[key] = sols
    return sols


def _is_zero(expr):
    """'simplify' if sympy.simplify proves expr == 0, 'series' if it cannot decide but the Taylor expansion
    vanishes up to x^ORDER (weaker: recorded), None if expr is not zero"""
    import sympy

    try:
        if sympy.simplify(expr) == 0:
            return "simplify"
    except Exception:  # pylint: disable=broad-except
        pass
    t = _taylor(expr, ORDER, integer=False)
    if t is not None and all(c == 0 for c in t):
        return "series"
    return None


def _pumps(keys, root):
    """does `root` pump w.r.t. the forest keys [(parent, [(child, shift)])] (Forest/Spec.v `pumps`)?
    Value iteration for D(c) = sup {v : derivable c v} from below; a value above the cut-off
    (number of classes + 1) * (largest shift + 1) is taken to be infinite (the argument of C03's table
    method)."""
    classes = {p for p, _ in keys} | {c for _, ks in keys for c, _ in ks}
    smax = max([abs(s) for _, ks in keys for _, s in ks] + [0])
    cap = (len(classes) + 1) * (smax + 1)
    INF = float("inf")
    by = {}
    for p, ks in keys:
        by.setdefault(p, []).append(ks)
    D = {c: 0 for c in classes}
    order = sorted(classes)
    for _ in range((cap + 3) * (len(classes) + 1)):
        changed = False
        for c in order:                      # in place: still the iteration from below of a monotone operator
            best = D[c]
            for ks in by.get(c, ()):
                best = max(best, min([D[k] + s for k, s in ks] + [INF]))
            if best > cap:
                best = INF
            if best != D[c]:
                D[c] = best
                changed = True
        if not changed:
            break
    return D.get(root) == INF


def _criterion(b, M):
    """Does C20_closed_form_criterion speak about this specification?  -> ('applies', None) when every rule is
    in the fragment union / product / complement / atom / empty (equivalence paths = one-child unions:
    C20_without_parameters_equivalences_are_unions) AND the decidable hypotheses hold per instance: the rules'
    own shifts() are the declared shifts of `to_srule` (keys_from_spec), declared minima >= 0 and no object
    below them (urule_wf, third clause of `solution` for the true counts), the root pumps;
    ('outside', reason) when a rule form is not covered; ('broken', which) when a hypothesis fails."""
    from comb_spec_searcher.strategies.rule import VerificationRule

    keys = []
    for r in b.rules:
        d = describe(r, b.label, b.vid)
        k = d[0]
        kids = [b.label(c) for c in r.children]
        if k == 3:
            return "outside", "quotient"
        if k == 9:
            return "outside", "verified"
        if isinstance(r, VerificationRule):
            if k == 7 and r.comb_class.minimum_size_of_object() < 0:
                return "broken", "atom of negative size"
            keys.append((b.label(r.comb_class), []))
            continue
        shifts = tuple(r.shifts())
        if k == 1:
            mins = [c.minimum_size_of_object() for c in r.children]
            if any(m < 0 for m in mins):
                return "broken", "negative minimum size"
            for c, m in zip(r.children, mins):
                if any(truth(c, n) for n in range(min(m, M + 1))):
                    return "broken", "%r has objects below its declared minimum size %d" % (c, m)
            want = tuple(sum(mins) - m for m in mins)
        else:
            want = (0,) * len(kids)
        if shifts != want:
            return "broken", "shifts() of the %s rule for %r are %r, the recurrence of the criterion declares %r" % (
                KINDS[k], r.comb_class, shifts, want)
        keys.append((b.label(r.comb_class), list(zip(kids, shifts))))
    if len({p for p, _ in keys}) != len(keys):
        return "broken", "two rules for one class"
    if not _pumps(keys, b.label(b.spec.root)):
        return "broken", "the root does not pump"
    return "applies", None


# ----------------------------------------------------------------------------- the criterion's model input
def uspec_of(b):
    """The real univariate specification of a get_genf case as the MODEL's descriptor (Count/SeriesUnique.v `urule`,
    Count/SeriesCriterion.v `uspec_of`): -> ("ok", us, ks) or ("outside", reason).
      us  one [class, kind, ...] per rule of the specification, in the order of b.rules (= the order of the rule
          descriptors sent to run_c20): 0 [kids] union (equivalence paths / forward equivalences are one-child unions:
          C20_without_parameters_equivalences_are_unions), 1 [[kid, minimum_size_of_object()] ...] product,
          2 p cs idx complement (reverse of the union p -> cs; reverse equivalence: cs = [class]), 7 m atom, 8 empty;
      ks  the keys the LIBRARY declares, one per rule: [class, [[child, shift] ...]] with the rule's own shifts()
          (verification rules: no children).
    Outside the fragment of C20_closed_form_criterion: Quotient rules, verification strategies with their own series,
    equivalences of reversed single-factor products (no equation at all)."""
    from comb_spec_searcher.strategies.rule import VerificationRule

    us, ks = [], []
    for r in b.rules:
        d = describe(r, b.label, b.vid)
        k = d[0]
        c = b.label(r.comb_class)
        if k == 3:
            return "outside", "quotient"
        if k == 9:
            return "outside", "verified"
        if k in (10, 11):
            return "outside", "placeholder"
        if k == 0:
            us.append([c, 0, list(d[2])])
        elif k == 1:
            us.append([c, 1, [[b.label(ch), int(ch.minimum_size_of_object())] for ch in r.children]])
        elif k == 2:
            us.append([c, 2, d[1], list(d[2]), d[4]])
        elif k == 4:
            us.append([c, 0, [d[2][d[4]]]])
        elif k == 5:
            us.append([c, 2, d[2], [d[1]], 0])
        elif k == 6:
            us.append([c, 0, [d[3]]])
        elif k == 7:
            us.append([c, 7, int(d[2])])
        elif k == 8:
            us.append([c, 8])
        else:
            return "outside", "kind %d" % k
        if isinstance(r, VerificationRule):
            ks.append([c, []])
        else:
            ks.append([c, [[b.label(ch), int(sh)] for ch, sh in zip(r.children, r.shifts())]])
    return "ok", us, ks


def _urule_kids(u):
    """children of a descriptor rule with the shifts the criterion's recurrence declares (Coq: r_kids (to_srule r));
    product: total of the minima minus the factor's own, written out here independently of the library"""
    k = u[1]
    if k == 0:
        return [[x, 0] for x in u[2]]
    if k == 1:
        tot = sum(m for _, m in u[2])
        return [[x, tot - m] for x, m in u[2]]
    if k == 2:
        return [[x, 0] for x in [u[2]] + [y for j, y in enumerate(u[3]) if j != u[4]]]
    return []


def crit_parts_py(us, ks, root):
    """the harness's own verdict on the decidable hypotheses of C20_closed_form_criterion (compared with the extracted
    crit_parts; a mismatch is a broken tie): [one rule per class, every declared key = its rule's key with the
    declared shifts, urule_wf, minima >= 0 and a function of the class, the root pumps (Python value iteration)]"""
    first = {}
    for u in us:
        first.setdefault(u[0], u)
    one = len(first) == len(us)
    keys_ok = all(p in first and [list(x) for x in kids] == _urule_kids(first[p]) for p, kids in ks)
    wf = True
    for u in us:
        if u[1] == 1:
            wf = wf and all(m >= 0 for _, m in u[2])
        elif u[1] == 2:
            wf = wf and 0 <= u[4] < len(u[3]) and u[3][u[4]] == u[0]
        elif u[1] == 7:
            wf = wf and u[2] >= 0
    dmin, mins = {}, True
    for u in us:
        if u[1] == 1:
            for x, m in u[2]:
                mins = mins and m >= 0 and dmin.setdefault(x, m) == m
    pumps = _pumps([(p, [tuple(x) for x in kids]) for p, kids in ks], root)
    return [int(one), int(keys_ok), int(wf), int(mins), int(pumps)]


def _conv_full(tabs, n):
    """coefficient n of the full Cauchy product of the tabulated series"""
    acc = {0: 1}
    for t in tabs:
        nxt = {}
        for a, v in acc.items():
            for m in range(0, n - a + 1):
                if v and t[m]:
                    nxt[a + m] = nxt.get(a + m, 0) + v * t[m]
        acc = nxt
    return acc.get(n, 0)


def table_checks_py(us, W, M):
    """genuine_u / the local recurrence of to_srule / vanishing below the declared minima on the TRUE tables W[c][n],
    n <= M, computed by the harness (compared with genuine_ub / recur_okb / low_okb of the extracted run)"""
    gen, rec = [], []
    for u in us:
        c, k = u[0], u[1]
        if k == 0:
            ok = all(W[c][n] == sum(W[x][n] for x in u[2]) for n in range(M + 1))
            ok2 = ok
        elif k == 1:
            kids = [x for x, _ in u[2]]
            mins = [m for _, m in u[2]]
            ok = all(W[c][n] == _conv_full([W[x] for x in kids], n) for n in range(M + 1))
            # local recurrence: factor i read at sizes min_i .. n - (sum of the other minima)
            tot = sum(mins)
            cut = [[(W[x][j] if m <= j <= M else 0) for j in range(M + 1)] for x, m in u[2]]
            ok2 = all(W[c][n] == _conv_full([[(t[j] if j <= n - (tot - m) else 0) for j in range(M + 1)]
                                             for t, m in zip(cut, mins)], n) for n in range(M + 1))
        elif k == 2:
            ok = all(W[u[2]][n] == sum(W[x][n] for x in u[3]) for n in range(M + 1))
            others = [y for j, y in enumerate(u[3]) if j != u[4]]
            ok2 = all(W[c][n] == W[u[2]][n] - sum(W[x][n] for x in others) for n in range(M + 1))
        elif k == 7:
            ok = ok2 = all(W[c][n] == int(n == u[2]) for n in range(M + 1))
        else:
            ok = ok2 = all(W[c][n] == 0 for n in range(M + 1))
        gen.append(int(ok))
        rec.append(int(ok2))
    low = all(W[x][j] == 0 for u in us if u[1] == 1 for x, m in u[2] for j in range(0, min(m, M + 1)))
    return gen, rec, int(low)


def _criterion_input(b, check):
    """field 8 of the model input and the harness's own entry [6, ...] for a get_genf case whose specification lies in
    the criterion's fragment; (None, None, reason) otherwise"""
    got = uspec_of(b)
    if got[0] != "ok":
        return None, None, got[1]
    _, us, ks = got
    if b.spec.number_of_cvs() > 0 or any(c.extra_parameters for c in b.classes):
        return None, None, "statistics"
    M = _oracle_order(b)
    root = b.label(b.spec.root)
    labs = sorted({b.label(c) for c in b.classes})
    by = {b.label(c): c for c in b.classes}
    W = {l: [sum(truth(by[l], n).values()) for n in range(M + 1)] for l in labs}
    cl = [b.label(r.comb_class) for r in b.rules]
    parts = crit_parts_py(us, ks, root)
    gen, rec, low = table_checks_py(us, W, M)
    sel = int(all(x in cl and m <= check + 1 for u in us if u[1] == 1 for x, m in u[2]))
    # the equations of the descriptor rules are the equations of the rule descriptors (decided by the model run;
    # the harness expects "same" everywhere: the mapping of uspec_of is the one of
    # C20_without_parameters_equivalences_are_unions)
    same = [1] * (len(us) + 1)
    enc = [root, us, ks, M, [[l, W[l]] for l in labs], check, cl]
    return enc, [6, int(all(parts)), parts, same, gen, rec, low, sel], None


def _bf_order(b, indep):
    """how far brute force (the class's own objects_of_size) is affordable for the ROOT of a get_genf case"""
    S = _S()
    root = b.spec.root
    if isinstance(root, S.Tree):
        n = 0
        while n < 14 and n + 1 < len(indep) and indep[n + 1] <= 12000:
            n += 1
        return max(n, 8)
    n = len(root.prefix)
    while n < 14 and len(root.alphabet) ** (n + 1 - len(root.prefix)) <= 5000:
        n += 1
    return max(n, 7)


def _check_genf(case, b, info, check, facts):
    import sympy

    spec = b.spec
    if "exception" in info:
        if info["exception"] == "NotImplementedError" and spec.number_of_cvs() > 0:
            facts.append("genf:refused:catalytic-variables")
            return None
        return "get_genf raised %s: %s" % (info["exception"], info["text"])
    if spec.number_of_cvs() > 0:
        return "get_genf returned %s for a specification with catalytic variables" % info["str"]
    g = sympy.sympify(info["genf"])
    root = spec.root
    co = _taylor(g, ORDER)
    if co is None:
        return "get_genf returned %s, which has no Taylor expansion with integer coefficients" % info["str"]
    # (c) Taylor coefficients: brute force as far as affordable, an independent recurrence beyond
    indep = _S().independent_counts(root, ORDER)
    B = min(_bf_order(b, indep), ORDER)
    mism = None
    for n in range(ORDER + 1):
        if n <= B:
            want, src = sum(truth(root, n).values()), "brute force"
            if want != indep[n]:
                return "harness: the independent recurrence gives %d objects of size %d of %r, brute force %d" % (indep[n], n, root, want)
        else:
            want, src = indep[n], "independent recurrence of the harness (beyond brute force)"
        if co[n] != want:
            mism = (n, co[n], want, src)
            break
    # (a) the solved functions of all classes, on the branch get_genf picked
    eqs = tuple(b.eqs)
    sols = _solutions(eqs)
    root_func = spec.get_function(root)
    branches = []     # solutions whose root function is the returned one
    for sol in sols:
        if root_func in sol and _is_zero(sol[root_func] - g):
            branches.append(sol)
    facts.append("genf:branches=%d" % len(sols))

    def identities(sol):
        """(b) every emitted equation as an identity -> (None, methods) or (why, None)"""
        methods = set()
        for c in spec.rules_dict:
            if spec.get_function(c) not in sol:
                return "no function solved for %s" % spec.get_function(c), None
        for eq in eqs:
            how = _is_zero(eq.lhs.subs(sol) - eq.rhs.subs(sol))
            if how is None:
                return "it does not satisfy %s identically" % (eq,), None
            methods.add(how)
        return None, methods

    def analytic(sol):
        """every solved function is a power series with integer coefficients that vanishes below the class's
        minimum size and agrees with brute force on EVERY class up to the oracle's order"""
        Mall = max(min(_oracle_order(b), 8), min(check, 10))   # at least the check + 1 terms _all_classes_agree compares
        for c in spec.rules_dict:
            f = spec.get_function(c)
            mn = 0 if c.is_empty() else c.minimum_size_of_object()
            t = _taylor(sol[f], max(mn, Mall))
            if t is None:
                return "the solved function of %s is not a power series with integer coefficients" % f, ("analytic", f, mn)
            low = [i for i in range(mn) if t[i] != 0]
            if low:
                return "the solved function of %s does not vanish below its class's minimum size %d (coefficient of x^%d is %d)" % (f, mn, low[0], t[low[0]]), ("low", f, mn)
            for n in range(Mall + 1):
                want = sum(truth(c, n).values())
                if t[n] != want:
                    return "the solved function of %s has coefficient %d at x^%d, the class has %d objects" % (f, t[n], n, want), ("coef", f, n)
        return None, None

    if mism is not None:
        n0, got, want, src = mism
        msg = "get_genf returned %s: coefficient of x^%d is %d, there are %d objects (%s)" % (info["str"], n0, got, want, src)
        # is it a branch of the solved system that passes get_genf's own check of the first check+1 terms?
        if n0 > check:
            for sol in branches:
                why_id, _ = identities(sol)
                if why_id is None:
                    why_an, _ = analytic(sol)
                    if why_an is None:
                        return msg + "; it extends to functions of all classes that satisfy every emitted equation identically and vanish below the minimum sizes"
                    return msg + "; it IS a branch of the solved system that satisfies every emitted equation identically and passes " \
                        "get_genf's check of the first %d coefficients, but %s [wrong-branch n=%d check=%d]" % (check + 1, why_an, n0, check)
        return msg
    if not branches:
        return "get_genf returned %s, which is the root's function in none of the %d solutions of the emitted system" % (info["str"], len(sols))
    why = None
    for sol in branches:
        why, methods = identities(sol)
        if why is None:
            why, _ = analytic(sol)
        if why is None:
            facts.append("genf:identity:" + ("series%d" % ORDER if "series" in methods else "simplify"))
            break
    if why is not None:
        return "get_genf returned %s; extended to all classes by the solved system, %s" % (info["str"], why)
    facts.append("genf:taylor:brute-force<=%d,independent<=%d" % (B, ORDER))
    # the library's own counts (get_genf's initial conditions): recorded, not part of the verdict
    lib_ok = all(spec.count_objects_of_size(n) == indep[n] for n in range(0, ORDER + 1, 3))
    facts.append("genf:spec-counts-" + ("agree" if lib_ok else "DIFFER"))
    # does the theorem speak about this specification?
    verdict, what = _criterion(b, _oracle_order(b))
    facts.append("genf:criterion:" + verdict + (":" + what.split(" ")[0] if verdict == "outside" else ""))
    if verdict == "broken":
        return "hypothesis of C20_closed_form_criterion violated by the returned specification: %s" % what
    return None


# ----------------------------------------------------------------------------- oracle
def _oracle_order(b):
    S = _S()
    big = 0
    for c in b.classes:
        if isinstance(c, S.Tree):
            big = max(big, 2)
        else:
            big = max(big, len(c.alphabet))
    return {0: 8, 1: 10, 2: 10}.get(big, 7)


def oracle(case, res):
    if "exception" in res:
        return "implementation raised " + res["exception"]
    if isinstance(res["out"], dict):
        return res["out"].get("bad")
    b = bundle(case)
    if not b.rules:
        return None
    facts = res.setdefault("facts", [])
    del facts[:]
    state = code_state()
    facts.append("state:eq=%s,genf=%s" % (state["eq"], state["genf"]))
    if state["eq"] == "mixed":
        return ("the tree is half repaired: only one of DisjointUnion.get_equation / CartesianProduct.get_equation "
                "sets unmapped child parameters to 1 and multiplies the parents of one child parameter")
    M = _oracle_order(b)
    why = _genuine(b, M, facts)
    if why:
        return why
    if b.spec is not None:
        from comb_spec_searcher.strategies.rule import EquivalenceRule

        if any(isinstance(r, EquivalenceRule) for r in b.rules):
            return "the specification contains a bare EquivalenceRule (not grouped into an EquivalencePathRule)"
    for i, (r, eq) in enumerate(zip(b.rules, b.eqs)):
        st = res["status"][i]
        if st == 3:
            return "rule %d: get_equations yielded %r instead of an equation" % (i, eq)
        if st == 1:
            # F = NOTIMPLEMENTED(x): the rule has no equation (an explicit refusal); no claim -- but it must
            # be a refusal the code is known to make: some dictionary of the rule is non-empty
            if res["kinds"][i] not in (10, 11) and not any(c.extra_parameters for c in _rule_classes(r)):
                return "placeholder equation %s for a rule without parameters" % (eq,)
            facts.append("placeholder" + ("@spec" if b.spec is not None else ""))
            continue
        L, R = evaluate(b, eq, M)
        if L != R:
            dl = {tuple(k): v for k, v in L}
            dr = {tuple(k): v for k, v in R}
            bad = sorted(k for k in set(dl) | set(dr) if dl.get(k, 0) != dr.get(k, 0))[0]
            names = sorted(b.vid, key=lambda k: b.vid[k]) + ["(foreign symbol)"] * len(bad)
            msg = "equation %s of the %s rule for %r is not satisfied by the true series: coefficient of %s is %d on the left, %d on the right" % (
                eq, KINDS[res["kinds"][i]], r.comb_class,
                "*".join("%s^%d" % (nm, e) for nm, e in zip(names, bad)), dl.get(bad, 0), dr.get(bad, 0))
            if res["kinds"][i] in (2, 3, 5) and not state["guard"]:
                # OPEN finding reverse-equation-unmapped-child-parameter: the literal Complement / Quotient
                # equation (all dictionaries empty) of a rule whose children carry a genuine statistic nobody
                # is mapped to.  By mechanism only: the equation is the literal one (no dictionary), the
                # original rule is genuine, and with those variables := 1 it is satisfied
                src = _rule_source(r)
                if src is not None and not any(ep for _, ep in src[2]) \
                        and _explain(b, r, eq, M) == "union-equation-unmapped-child-parameter":
                    return msg + " [the original rule is genuine; every dictionary is empty; with the unmapped child " \
                        "parameters set to 1 the equation is satisfied: reverse-equation-unmapped-child-parameter]"
            if state["eq"] is False:
                # the tree does not have fix f1b2e4b: the two defects it repairs are what the code before the
                # fix does (C20_union_unmapped_refuted / C20_product_collision_refuted); tolerated -- by mechanism
                # only: the rule is genuine and the equation written as the repaired method writes it IS
                # satisfied -- as long as the fix is not recorded as a commit of /repo
                fid = _explain(b, r, eq, M)
                if fid:
                    landed = fix_landed("eq")
                    if not landed:
                        facts.append("before-fix:" + fid)
                        continue
                    msg += " [the defect repaired by fix %s: the tree is in the state before that commit]" % landed
                    msg += " [the rule is genuine; the equation repaired as the open finding says is satisfied: %s]" % fid
            return msg
    if case.get("genf") and "genf" in res:
        check = case.get("check", 6)
        for which, info in zip(("", " (solver's solutions listed in reverse order)"), res["genf"]):
            why = _check_genf(case, b, info, check, facts)
            if why and not state["genf"] and _wrong_branch_shape(case, why):
                # the tree does not have fix 7be1dfb: the wrong-branch symptom (and only it) is what the
                # selection before the fix does (C20_genf_selection_before_fix_refuted)
                landed = fix_landed("genf")
                if not landed:
                    facts.append("before-fix:genf-selection-depends-on-solver-order")
                    continue
                why += " [the defect repaired by fix %s: the tree is in the state before that commit]" % landed
            if why:
                return why + which
        why = _check_decided(b, res, facts)
        if why:
            return why
    return None


CRIT_THM = "C20_closed_form_criterion"
MIN_COVERED = 0.95     # measured 0.99 on seeds 0-2 (quick tier): the rest are Quotient / user-verified specifications


def _check_decided(b, res, facts):
    """the criterion instantiated on the real specification: res["crit"] = the harness's entry [6, verdict, parts, same,
    genuine, recur, low, sel] (equal to the extracted run's or the case is a model/implementation mismatch).  Oracle
    facts: every rule of the descriptor is genuine for the TRUE tables (genuine_u to size M), the recurrences of
    to_srule reproduce them, nothing lies below a declared minimum size."""
    crit = res.get("crit")
    if crit is None:
        if any("genf" in g for g in res.get("genf", [])):
            facts.append("thm:%s:outside:%s" % (CRIT_THM, res.get("crit_outside", "?")))
        return None
    _, verdict, parts, _same, gen, rec, low, sel = crit
    M = _oracle_order(b)
    for i, (g, r) in enumerate(zip(gen, rec)):
        if not g:
            return ("rule %d (%s) of the returned specification is not genuine for the brute-force counts up to size %d "
                    "(genuine_u, the premise of C20_true_counts_solution)" % (i, b.rules[i], M))
        if not r:
            return ("the recurrence of rule %d (%s) with the declared minimum sizes / shifts does not reproduce the "
                    "brute-force counts up to size %d" % (i, b.rules[i], M))
    if not low:
        return "a factor of a product has objects below its declared minimum size (brute force up to size %d)" % M
    facts.append("genuine_u:rules=%d" % len(gen))
    names = ["one-rule-per-class", "declared-shifts", "urule_wf", "minimum-sizes", "root-pumps"]
    if verdict:
        facts.append("thm:%s:covered" % CRIT_THM)
        facts.append("thm:C20_genf_selected_closed_form:" + ("covered" if sel else "not_covered(sel_okb)"))
    else:
        facts.append("thm:%s:not_covered(%s)" % (CRIT_THM, "+".join(n for n, p in zip(names, parts) if not p)))
    applies = "genf:criterion:applies" in facts
    if applies != bool(verdict):
        return ("harness: _criterion says %s but the decided hypotheses of %s are %r" % (
            "applies" if applies else "does not apply", CRIT_THM, dict(zip(names, parts))))
    return None


def _wrong_branch_shape(case, why):
    """the symptom of the selection before fix 7be1dfb, and nothing else: the returned function is a branch
    of the solved system that satisfies every equation identically, passes get_genf's own comparison of the
    first check+1 coefficients of the root, and first differs from the counts at x^planted with planted > check"""
    import re

    m = re.search(r"\[wrong-branch n=(\d+) check=(\d+)\]", why or "")
    if not m or case["kind"] != "spec" or case["cfg"].get("universe") != "trees":
        return False
    n0, check = int(m.group(1)), int(m.group(2))
    return check < n0 <= case["cfg"].get("planted", 0) and check == case.get("check", 6)



def finding_match(case, why):
    """All three findings are FIXED (f1b2e4b, 7be1dfb): with their entries of kind `fixed` nothing is masked
    any more (core only consults open entries) -- on a repaired tree any such failure is a violation, on a tree
    before the fix the oracle itself tolerates exactly the repaired defect (see oracle).  Kept for a
    known_findings.json that still lists an entry as open.  Narrow, by MECHANISM:
    * the two equation findings: only when the oracle has shown that the rule is genuine and that the
      equation repaired exactly as the finding proposes is satisfied (any other defect on the same input
      leaves the repaired equation unsatisfied and is reported);
    * the get_genf finding: only the wrong-branch symptom itself -- the returned function is a branch of
      the solved system that satisfies every equation identically, passes get_genf's own comparison of
      the first check+1 coefficients, and first differs from the counts at x^planted with planted > check
      (exceptions, non-solutions, mismatches below the compared terms, identity failures are reported)"""
    import re

    if not why:
        return None
    m = re.search(r"\[wrong-branch n=(\d+) check=(\d+)\]", why)
    if m and case["kind"] == "spec" and case["cfg"].get("universe") == "trees":
        n0, check = int(m.group(1)), int(m.group(2))
        if check < n0 <= case["cfg"].get("planted", 0) and check == case.get("check", 6):
            return "genf-selection-depends-on-solver-order"
        return None
    if why.endswith("the equation is satisfied: reverse-equation-unmapped-child-parameter]") and "not satisfied" in why:
        return "reverse-equation-unmapped-child-parameter"
    m = re.search(r"repaired as the open finding says is satisfied: ([a-z+-]+)\]", why)
    if m and "not satisfied" in why:
        ids = m.group(1).split("+")
        return ids[0] if len(ids) == 1 else None
    return None


# ----------------------------------------------------------------------------- generator
STAT_CLASSES = [
    ("", ["ab"], "ab"), ("a", ["ab"], "ab"), ("b", ["ab"], "ab"), ("", ["aa", "bb"], "ab"), ("ba", ["bb"], "ab"),
    ("ab", ["aba"], "ab"), ("", ["aba"], "ab"), ("bab", ["bb"], "ab"), ("", [], "ab"), ("ba", [], "ab"),
    ("", ["abc", "ca"], "abc"), ("ca", ["cc"], "abc"), ("a", ["aa", "ab"], "ab"), ("b", ["ba", "bb"], "ab"),
    ("aab", ["bb", "aaa"], "ab"), ("c", ["aa"], "abc"),
    # long prefixes: several letters removed at once (>= 3 factors under remove_front_lw)
    ("bbba", ["aa"], "ab"), ("abab", ["bb"], "ab"), ("cabc", ["aa", "cb"], "abc"), ("bab", ["aab"], "ab"),
]
STAT_SETS = [
    [("k", "a")], [("k", "b")], [("k", "a"), ("j", "a")], [("k", "a"), ("m", "b")], [("k", "a"), ("j", "a"), ("m", "b")],
    [("u", "b"), ("v", "b"), ("w", "b")], [], [("k", "c")], [("k", "a"), ("j", "b"), ("i", "a"), ("h", "b")],
    # names in both alphabetical orders w.r.t. the letters they track (sympy substitutes in sorted key order),
    # indexed names, names that are letters themselves
    [("p", "a"), ("q", "b")], [("q", "a"), ("p", "b")], [("k_1", "a"), ("k_2", "b")], [("k_2", "a"), ("k_1", "b")],
    [("k_0", "a"), ("k_1", "b"), ("k_2", "c")], [("k_3", "c"), ("k_2", "a"), ("k_1", "b")], [("b", "a"), ("a", "b")],
    [("k_1", "a"), ("k_2", "a"), ("k_3", "b")], [("r", "b"), ("s", "a"), ("t", "b")],
    # ZERO statistics: ("z", "#") counts a letter of no alphabet, it is 0 on every word
    [("z", "#")], [("k", "a"), ("z", "#")], [("z", "#"), ("k", "b")], [("k", "a"), ("z", "#"), ("m", "b")],
    [("z", "#"), ("y", "#")],
]
ZERO_MODES = [12, 13]       # drop the zero statistics / track one more zero statistic
# integer modes of harness/universes/words_stats_c20.py
LEGACY_MODES = [0, 1, 2]
PERMUTING_MODES = [4, 5, 6, 7, 8, 9, 10, 11]
FRESH_NAMES = ["z", "y_0", "k_9"]


def _gen_map(rng, stats, merge_ok):
    """one explicit child naming: per parent statistic a child name ("" = keep the name).  Names come from
    the parent's own names and a few new ones: a random injection (permutation, chain, partial overlap),
    optionally (unions) with statistics of one letter merged onto one name"""
    names = [n for n, _ in stats]
    k = len(names)
    x = rng.random()
    if k == 0 or x < 0.1:
        return []
    pool = names + FRESH_NAMES[:rng.randint(0, 2)]
    new = rng.sample(pool, k)
    if x < 0.35 and k >= 2:          # a transposition, everything else kept
        i, j = rng.sample(range(k), 2)
        new = list(names)
        new[i], new[j] = names[j], names[i]
    elif x < 0.5:                    # a permutation of the parent's names
        new = list(names)
        rng.shuffle(new)
    if merge_ok and rng.random() < 0.3:
        first = {}
        for i, (_, l) in enumerate(stats):
            if l in first and rng.random() < 0.7:
                new[i] = new[first[l]]
            first.setdefault(l, i)
    return ["" if c == n and rng.random() < 0.5 else c for c, n in zip(new, names)]


def _gen_mode(rng, strategy, stats):
    """a statistics mode for one strategy application: legacy int / name-permuting int / list of ints per
    child / explicit maps.  Products never get two parameters merged onto one child parameter here (that is
    the known finding's own, separately generated, shape)."""
    product = strategy.startswith("remove_front") or strategy == "unary_product"   # ("expansion_last" is a union)
    dup = len({l for _, l in stats}) < len(stats)
    ints = LEGACY_MODES + PERMUTING_MODES
    if product and dup:
        ints = [m for m in ints if m not in (1, 8)]
    if strategy in ("relabel", "unary_product"):
        ints = [m for m in ints if m != 0]
    x = rng.random()
    if rng.random() < (0.5 if any(l == "#" for _, l in stats) else 0.06):
        return rng.choice(ZERO_MODES)
    if x < 0.3:
        return rng.choice([m for m in ints if m in LEGACY_MODES])
    if x < 0.6:
        return rng.choice([m for m in ints if m in PERMUTING_MODES])
    if x < 0.75 and strategy not in ("relabel", "unary_product"):
        return [rng.choice(ints) for _ in range(rng.randint(2, 3))]
    n = 1 if strategy in ("relabel", "unary_product") else rng.randint(1, 3)
    return {"maps": [_gen_map(rng, stats, not product) for _ in range(n)],
            "rev": [rng.randint(0, 1) for _ in range(rng.randint(1, 2))]}


def _gen_rule(rng, findings):
    p, pats, alph = rng.choice(STAT_CLASSES)
    stats = [s for s in rng.choice(STAT_SETS) if s[1] in alph or s[1] == "#"]
    cls = {"prefix": p, "patterns": pats, "alphabet": alph, "stats": [list(s) for s in stats]}
    x = rng.random()
    if x < 0.2:
        steps = [_gen_mode(rng, "relabel", stats) if rng.random() < 0.8 else rng.choice([1, 2, 2, 12, 13])
                 for _ in range(rng.randint(1, 3))]
        rule = {"class": cls, "strategy": "relabel", "form": "path", "steps": steps, "mode": 0,
                "shape": rng.choice(["fwd", "rev", "back"]), "back": rng.randint(1, 2)}
        if rng.random() < 0.3:
            rule["bare"] = 1                 # the steps are the one-child rules themselves (as in a specification)
        if rng.random() < 0.25:
            # some steps are products with a single factor (bare: composed like union / Complement steps;
            # wrapped and reversed: the path has no constructor)
            for i, st in enumerate(steps):
                if isinstance(st, int) and rng.random() < 0.6:
                    steps[i] = {"product": st}
        if findings and rng.random() < 0.03:
            steps[rng.randrange(len(steps))] = 3       # a step whose child tracks one more genuine statistic
            rule["shape"] = "fwd"                      # (forwards only, see below)
    else:
        strategy = rng.choice(["expansion", "expansion", "remove_front", "remove_front", "remove_front_lw", "relabel",
                               "expansion_last", "unary_product"])
        form = rng.choice(["fwd", "fwd", "rev", "rev", "equiv", "equiv_rev"])
        if strategy.startswith("expansion") and form.startswith("equiv") and rng.random() < 0.8:
            # classes on which the expansion IS an equivalence (every extension of the prefix is empty)
            p, pats, alph = rng.choice([("a", ["aa", "ab"], "ab"), ("b", ["ba", "bb"], "ab"), ("ab", ["aba", "abb"], "ab"),
                                        ("c", ["ca", "cb", "cc"], "abc")])
            cls.update({"prefix": p, "patterns": pats, "alphabet": alph})
            cls["stats"] = stats = [t for t in stats if t[1] in alph or t[1] == "#"]
        if findings and rng.random() < 0.07:
            strategy, mode = rng.choice([("expansion", 3), ("remove_front", 1), ("relabel", 3), ("remove_front", 3)])
            if (strategy, mode) == ("remove_front", 3):
                form = rng.choice(["fwd", "fwd", "rev"])
                if len({l for _, l in stats}) < len(stats):
                    mode = 1          # (two names for one letter: the collision shape instead, not both at once)
            if strategy == "relabel":
                # forwards only: REVERSING a rule whose child tracks a statistic the parent does not is not a
                # genuine rule (C09's open finding complement-untracked-child-statistic), no claim there
                form = rng.choice(["fwd", "equiv"])
        else:
            if form in ("rev", "equiv_rev") and rng.random() < 0.3:
                cls["stats"] = stats = []       # Complement / Quotient emit their own equation only without parameters
            elif form == "equiv_rev" and rng.random() < 0.5:
                # the reverse equivalence has an equation only with the EMPTY dictionary: zero statistics only
                cls["stats"] = stats = [list(t) for t in rng.choice([[("z", "#")], [("z", "#"), ("y", "#")], []])]
                strategy = "relabel"
            mode = _gen_mode(rng, strategy, stats)
            if form == "equiv_rev" and strategy == "relabel" and all(l == "#" for _, l in stats):
                mode = rng.choice([12, 13, 13]) if stats else 13
        rule = {"class": cls, "strategy": strategy, "mode": mode, "form": form, "idx": rng.randint(0, 3)}
        if strategy == "remove_front_lw":
            rule["rest_pos"] = rng.randint(0, 2)
    return {"kind": "rule", "rule": rule, "N": 5 if len(alph) == 2 else 4}


def _gen_spec(rng, tier, genf_ok, solver_order_known=False):
    W, S = _W(), _S()
    x = rng.random()
    if x < 0.47:
        cfg = W.random_cfg(rng)
        cfg["universe"] = "words"
        cfg.pop("smallest", None)
        alph = W.START_SPECS[cfg["start"]][2]
        case = {"kind": "spec", "cfg": cfg, "N": 5 if len(alph) == 2 else 4}
        big = W.START_SPECS[cfg["start"]][1] == ["ababa", "babb"]
        if genf_ok and not big and rng.random() < GENF_SHARE[tier]:
            case["genf"] = True      # linear systems: rational closed forms, one solution
        return case
    if x < 0.78:
        cfg = {"universe": "stats", "start": rng.randrange(len(S.STAT_STARTS)), "ruledb": rng.choice(W.RULEDBS),
               "tree_seed": rng.randrange(1 << 30), "spack": rng.choice(sorted(S.STAT_PACKS))}
        alph = S.STAT_STARTS[cfg["start"]][2]
        case = {"kind": "spec", "cfg": cfg, "N": 5 if len(alph) == 2 else 4}
        if genf_ok and rng.random() < 0.05:
            case["genf"] = True      # must raise NotImplementedError (catalytic variables)
        return case
    # trees.  Degree <= 2 (GENF_TREES: arities within {1, 2}, weighted nodes): get_genf is asked for a closed
    # form -- rational for arities (1,), square roots with two branches otherwise; degree >= 3: equations only
    # (sympy.solve without radicals does not finish in reasonable time on them)
    if rng.random() < 0.8:
        ar, wt = rng.choice(S.GENF_TREES)
        cfg = {"universe": "trees", "arities": list(ar), "weights": list(wt), "ruledb": rng.choice(W.RULEDBS),
               "tree_seed": rng.randrange(1 << 30)}
        case = {"kind": "spec", "cfg": cfg, "N": 6}
        if genf_ok:
            case["genf"] = True
            check = rng.choice([6, 6, 6, 3, 9])
            if check != 6:
                case["check"] = check
        else:
            check = 6
        y = rng.random()
        if y < 0.55:
            # root = leaf^j x tree: the branches of the root agree below x^j; up to j = check the comparison
            # of get_genf still separates them (j = check is the boundary)
            cfg["planted"] = rng.choice([1, 2, 3, check - 1, check, check])
            if solver_order_known and ar[-1] == 2 and rng.random() < 0.15:
                cfg["planted"] = check + rng.randint(1, 3)   # the branch is decided by a NON-root class only
        elif y < 0.75:
            cfg["node"] = ar[-1]
        return case
    cfg = {"universe": "trees", "arities": list(rng.choice(S.TREE_STARTS[1:])), "ruledb": rng.choice(W.RULEDBS),
           "tree_seed": rng.randrange(1 << 30)}
    if rng.random() < 0.5:
        cfg["planted"] = rng.randint(1, 5)
    return {"kind": "spec", "cfg": cfg, "N": 6}


def gen(rng, tier):
    # the shapes of the three repaired findings (an unmapped genuine child parameter; several parent parameters
    # on one child parameter in a product; a root whose branches agree on the compared terms) are always
    # generated: plain cases on a repaired tree, tolerated by mechanism on a tree before the fixes
    n_genf = 0
    cap = 420 if tier == "quick" else 6000
    while True:
        if rng.random() < 0.55:
            for attempt in range(12):
                c = _gen_rule(rng, True)
                try:
                    ok = _build_rule(c)[0] is not None
                except AssertionError:
                    ok = False
                except Exception:  # pylint: disable=broad-except
                    ok = True       # let the run report it
                if ok or attempt == 11 or rng.random() < 0.03:
                    break
            yield c
        else:
            c = _gen_spec(rng, tier, n_genf < cap, True)
            n_genf += int(bool(c.get("genf")))
            yield c


def key(case):
    return json.dumps(case, sort_keys=True)


def nontrivial(case, res):
    out = res.get("out")
    if not isinstance(out, list) or not out:
        return False
    out = [d for d in out if d and d[0] not in (5, 6)]   # (entries [5, ..]: the selection of get_genf; [6, ..]: the criterion)
    if not out:
        return False
    if case["kind"] == "rule":
        d = out[0]
        return d[0] == 0 and len(d[3]) == 3 and len(d[3][1]) >= 3
    k = res.get("kinds", [])
    return len(out) >= 3 and any(x in (1, 3, 6) for x in k) and all(len(d[3]) == 3 for d in out)


def classify(case, res):
    tags = [case["kind"]]
    if case["kind"] == "spec":
        tags.append("universe:" + case["cfg"]["universe"])
        tags.append("ruledb:" + case["cfg"]["ruledb"])
        if case.get("genf"):
            for g in res.get("genf", [{}])[:1]:
                tags.append("genf:" + ("returned" if "genf" in g else g.get("exception", "none")))
    else:
        tags.append("form:" + case["rule"]["form"])
        md = case["rule"]["mode"]
        tags.append("strategy:%s/%s" % (case["rule"]["strategy"], md if isinstance(md, int) else
                                        "per-child" if isinstance(md, list) else "explicit"))
        steps = case["rule"].get("steps") or []
        if case["rule"]["strategy"] == "unary_product" or any(isinstance(t, dict) and "product" in t for t in steps):
            tags.append("strategy:unary_product")
        if case["rule"].get("bare"):
            tags.append("path:bare-steps")
    if isinstance(res.get("out"), list) and not res["out"]:
        tags.append("not-applicable")
    for k, st in zip(res.get("kinds", []), res.get("status", [])):
        tags.append("eq:" + KINDS[k] + (":notimplemented" if st == 1 else ""))
    for k, st, pm in zip(res.get("kinds", []), res.get("status", []), res.get("perm", [])):
        if pm and st == 0:
            tags.append("perm:" + KINDS[k] + ("@spec" if case["kind"] == "spec" else ""))
    if case["kind"] == "spec" and case["cfg"]["universe"] == "stats":
        tags.append("spack:" + case["cfg"].get("spack", "keep"))
    if case["kind"] == "spec" and case["cfg"]["universe"] == "trees" and case.get("genf") \
            and case["cfg"].get("planted", 0) > case.get("check", 6):
        tags.append("genf:planted>check")
    if case["kind"] == "spec" and case["cfg"]["universe"] == "trees" and case.get("genf"):
        tags.append("genf-system:%s" % ("rational" if case["cfg"]["arities"] == [1] else "algebraic"))
        if case.get("check", 6) != 6:
            tags.append("genf:check=%d" % case["check"])
    tags += list(res.get("facts", []))     # written by the oracle (worker process): what was checked and how
    names = set()
    for d in [d for d in res.get("out") if d and d[0] not in (5, 6)] if isinstance(res.get("out"), list) else []:
        if len(d[3]) == 3 and d[3][1] and len(d[3][1][0][0]) > 1:
            names.add("multivariate-evaluated")
    return tags + sorted(names)


def _shrink_mode(mode):
    """simpler statistics modes (never towards the modes 1 / 3 of the known findings unless already there)"""
    if isinstance(mode, dict) and "product" in mode:
        yield mode["product"]
        return
    if isinstance(mode, list):
        for m in mode:
            yield m
        for i in range(len(mode)):
            if len(mode) > 1:
                yield mode[:i] + mode[i + 1:]
    elif isinstance(mode, dict):
        maps, rev = mode.get("maps") or [[]], mode.get("rev") or [0]
        if any(rev):
            yield {"maps": maps, "rev": [0]}
        for i, m in enumerate(maps):
            if len(maps) > 1:
                yield {"maps": maps[:i] + maps[i + 1:], "rev": rev}
            if any(m):
                yield {"maps": maps[:i] + [[]] + maps[i + 1:], "rev": rev}
            for j, c in enumerate(m):
                if c:
                    yield {"maps": maps[:i] + [m[:j] + [""] + m[j + 1:]] + maps[i + 1:], "rev": rev}


def _drop_stat(mode, i):
    if isinstance(mode, dict):
        return {"maps": [m[:i] + m[i + 1:] for m in (mode.get("maps") or [[]])], "rev": mode.get("rev") or [0]}
    return mode


def shrink(case):
    if case["kind"] == "rule":
        r = case["rule"]
        if r["form"] == "path":
            for i in range(len(r["steps"])):
                if len(r["steps"]) > 1:
                    yield {**case, "rule": {**r, "steps": r["steps"][:i] + r["steps"][i + 1:]}}
            for i, st in enumerate(r["steps"]):
                for m in _shrink_mode(st):
                    yield {**case, "rule": {**r, "steps": r["steps"][:i] + [m] + r["steps"][i + 1:]}}
        else:
            for m in _shrink_mode(r["mode"]):
                yield {**case, "rule": {**r, "mode": m}}
        st = r["class"]["stats"]
        for i in range(len(st)):
            c = {**r, "class": {**r["class"], "stats": st[:i] + st[i + 1:]}, "mode": _drop_stat(r["mode"], i)}
            if r["form"] == "path":
                c["steps"] = [_drop_stat(m, i) for m in r["steps"]]
            yield {**case, "rule": c}
        if case.get("N", 0) > 2:
            yield {**case, "N": case["N"] - 1}
    else:
        if case.get("genf"):
            c = dict(case)
            c.pop("genf")
            yield c
        if "check" in case:
            c = dict(case)
            c.pop("check")
            yield c
        cfg = case["cfg"]
        if cfg.get("planted", 0) > 1:
            yield {**case, "cfg": {**cfg, "planted": cfg["planted"] - 1}}
        if cfg.get("expand_verified"):
            yield {**case, "cfg": {**cfg, "expand_verified": False}}
        if cfg.get("pack") not in (None, "base"):
            yield {**case, "cfg": {**cfg, "pack": "base"}}
        if cfg.get("ruledb") != "base":
            yield {**case, "cfg": {**cfg, "ruledb": "base"}}
        if cfg.get("spack", "keep") != "keep":
            yield {**case, "cfg": {**cfg, "spack": "keep"}}
        if cfg.get("tree_seed"):
            yield {**case, "cfg": {**cfg, "tree_seed": 0}}


def extra_checks(ctx):
    """non-vacuity: the stream reached every rule form, several variables, reverse rules in specifications,
    non-linear systems and get_genf results; what the oracle checked per case (facts)"""
    tags = Counter()
    occ = Counter()
    for c, (res, _, _) in zip(ctx.cases, ctx.impl_res):
        cl = classify(c, res)
        occ.update(cl)
        for t in set(cl):
            tags[t] += 1
    need = ["eq:union", "eq:product", "eq:rev_union", "eq:rev_product", "eq:equiv", "eq:equiv_rev", "eq:path", "eq:atom",
            "eq:empty", "eq:verified",
            "multivariate-evaluated", "genf:returned", "universe:trees", "universe:stats",
            # name-permuting parameter maps (emitted and evaluated equations) in every rule form
            "perm:union", "perm:product", "perm:rev_union", "perm:rev_product", "perm:equiv", "perm:path",
            "perm:union@spec", "perm:product@spec"]
    # (reverse rules with name-permuting dictionaries inside specifications are rare in the random stream: the
    # corpus cases spec_stats_factory_* guarantee them on every run)
    need += ["perm:path@spec", "perm:rev_union@spec", "perm:rev_product@spec"]
    # child parameters nobody is mapped to that are 0 on every object (fixed_values paths, reversed zero
    # statistics), the equations a reverse equivalence does emit, refusals, closed forms of both kinds
    # the shapes the two fixes repair: an unmapped genuine child parameter, several parent parameters on one
    # child parameter of a product (also three), a root whose branches agree on all compared terms
    need += ["unmapped-child-parameter:genuine", "merged-parent-parameters:product", "merged-parent-parameters:3+",
             "merged-parent-parameters:union", "genf:planted>check"]
    need += ["eq:equiv_rev_product:notimplemented", "eq:path_without_constructor:notimplemented", "strategy:unary_product",
             "unmapped-child-parameter:zero", "placeholder", "placeholder@spec", "genf:branches=1", "genf:branches=2",
             "genf-system:rational", "genf-system:algebraic", "genf:criterion:applies", "genf:refused:catalytic-variables"]
    if len(ctx.cases) < 150:
        return []
    missing = [t for t in need if not tags.get(t)]
    out = [("generator reached every rule form / universe (%s)" % ", ".join("%s=%d" % (t, tags[t]) for t in need),
            not missing, "missing: %s" % missing if missing else "ok")]
    st = code_state()
    before = Counter({t: n for t, n in tags.items() if t.startswith("before-fix:")})
    problems = []
    if st["eq"] == "mixed":
        problems.append("only one of DisjointUnion.get_equation / CartesianProduct.get_equation is repaired")
    for which, on in (("eq", st["eq"] is True), ("genf", bool(st["genf"]))):
        landed = fix_landed(which)
        if landed and not on:
            problems.append("known_findings.json records fix %s but the tree is in the state before it" % landed)
    if st["eq"] is True and any(t != "before-fix:genf-selection-depends-on-solver-order" for t in before) \
            or st["genf"] and before.get("before-fix:genf-selection-depends-on-solver-order"):
        problems.append("a before-fix tolerance was used on a repaired tree: %r" % dict(before))
    out.append(("code state read from the source: equations %s, get_genf selection %s; model run in that mode; "
                "defects tolerated as the behaviour before the fixes: %s" % (
                    {True: "REPAIRED (rule_equation)", False: "before fix f1b2e4b (rule_equation_old)",
                     "mixed": "HALF REPAIRED"}[st["eq"]],
                    "REPAIRED (genf_select)" if st["genf"] else "before fix 7be1dfb (genf_select_old)",
                    dict(before) or "none"), not problems, "; ".join(problems) or "ok"))
    sel = sum(1 for c, (res, _, _) in zip(ctx.cases, ctx.impl_res)
              if isinstance(res.get("out"), list) and any(d and d[0] == 5 for d in res["out"]))
    out.append(("the selection step of get_genf compared with the model (genf_select%s) in %d cases" % (
        "" if st["genf"] else "_old", sel), sel >= 100 or len(ctx.cases) < 2000, "%d" % sel))
    big = len(ctx.cases) >= 2000
    g = tags.get("genf:returned", 0)
    out.append(("get_genf returned a closed form in %d cases (quick tier: at least 150)" % g, g >= 150 or not big, "%d" % g))
    out.append(("rule genuineness (union_genuine / product_genuine of Count/EquationsRules.v on brute-force tables) "
                "evaluated for %d union-type and %d product-type rule instances; every one genuine" % (
                    occ.get("genuine:union", 0), occ.get("genuine:product", 0)),
                occ.get("genuine:union", 0) > 0 and occ.get("genuine:product", 0) > 0, "ok"))
    ident = {t: n for t, n in tags.items() if t.startswith("genf:identity:")}
    crit = {t: n for t, n in tags.items() if t.startswith("genf:criterion:")}
    cnts = {t: n for t, n in tags.items() if t.startswith("genf:spec-counts-")}
    out.append(("closed forms: identity check %s; criterion %s; library counts vs independent recurrence %s" % (
        ident, crit, cnts), not tags.get("genf:criterion:broken") and not tags.get("genf:spec-counts-DIFFER"),
        "C20_closed_form_criterion's per-instance hypotheses failed / the specification's own counts differ"
        if tags.get("genf:criterion:broken") or tags.get("genf:spec-counts-DIFFER") else "ok"))
    # the criterion instantiated: cases whose returned closed form is covered by the decided theorem
    n = k = ksel = nrules = 0
    outside = Counter()
    for c, (res, _, _) in zip(ctx.cases, ctx.impl_res):
        if not (isinstance(res, dict) and any("genf" in g for g in res.get("genf", []) or [])):
            continue
        n += 1
        crit = res.get("crit")
        if crit is None:
            outside[res.get("crit_outside", "?")] += 1
            continue
        nrules += len(crit[4])
        k += bool(crit[1])
        ksel += bool(crit[1] and crit[7])
    frac = k / n if n else 1.0
    out.append(("covered_by_theorem %s: %d of %d" % (CRIT_THM, k, n), n == 0 or not big or frac >= MIN_COVERED,
                "get_genf cases that returned a closed form on which the extracted crit_okb (run_c20, field 8 = the "
                "descriptor uspec_of builds from the real specification) AND the harness decide the decidable hypotheses "
                "of the criterion (C20_criterion_decided): %.3f, required %.2f; not in the fragment: %s; sel_okb too "
                "(C20_genf_selected_closed_form_decided): %d; genuine_u / recurrence / minimum sizes evaluated on the "
                "brute-force tables for %d rules of these specifications (all hold, else the oracle fails). REMAIN per "
                "instance: the solved functions satisfy every equation identically (sympy simplify, trusted), their "
                "coefficients are integers and 0 below the minima (checked to order 8), genuineness beyond size M; "
                "W = the specification's counts = the true counts is C01's conclusion" % (
                    frac, MIN_COVERED, dict(outside) or "none", ksel, nrules)))
    return out
