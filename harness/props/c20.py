"""C20 — equations and generating functions agree with the true enumeration."""
import json
import random as _random
from collections import Counter

from harness import core

ID = "C20"
TITLE = "equations and generating functions agree with the true enumeration"
COQ_PROPS = "Props/C20.v"
COQ_RUN = ("Count.EquationsRun", "run_c20")
GEN_TARGETS = ["product_shifts"]
N = {"quick": 2600, "thorough": 45000}
GENF_SHARE = {"quick": 0.07, "thorough": 0.12}
RULE = (
    "two streams over REAL objects of /repo. (spec, 45%) specifications found by the searcher (auto_search's loop without "
    "its wall clock, so that parent and worker processes see the same specification) on the word classes of example.py "
    "with the packs of harness/universes/words_ext.py (symmetries, inferral, factories, verification packs, iterative) x "
    "{RuleDB, RuleDBForgetStrategy, RuleDBForest with and without reverse rules} x random proof-tree seeds, on word classes "
    "WITH statistics (harness/universes/words_stats_c20.py: letter counts, several names for one statistic, 1-3 statistics, "
    "indexed names k_1 k_2 .., names in both alphabetical orders; 14 packs: every rule keeps the names / permutes them "
    "cyclically / exchanges two / only some children permute / children list their statistics in another order / "
    "factors re-index k_i -> k_(i-1) / name-exchanging relabellings as equivalences (equivalence paths whose composed "
    "dictionary permutes names) / ready rules with a foreign parent used in reverse (fallback equation) / products "
    "with >= 3 factors) and on plane "
    "trees counted by leaves, also planted on 1-5 extra leaves (non-linear systems: sympy.solve returns several branches "
    "that agree on the first terms); every equation of get_equations() is walked structurally (func/args) into a canonical "
    "form and compared with the model's equation for the descriptor of the same rule, and both sides are evaluated on "
    "brute-force true series (model: order 4-6, oracle: order 7-10, several variables included). A bounded share of the "
    "univariate specs also runs get_genf(), once as is and once with the solver's list of solutions reversed: Taylor "
    "coefficients to order 30 against count_objects_of_size and brute force, and the identity check (the returned function "
    "extends to a solution of the whole system that satisfies every equation identically, is analytic at 0 and vanishes "
    "below every class's minimum size); with statistics get_genf must refuse (NotImplementedError). (rule, 55%) single rules "
    "built directly: union / product (2 factors, and >= 3 factors with the non-atom first, last, in the middle) / "
    "relabelling strategies with statistics in the modes keep, merge (several parent parameters -> one child parameter), "
    "rename to new names, and NAME-PERMUTING modes in which a child parameter carries the name of a DIFFERENT parent "
    "parameter, so that get_equation's substitution has to be simultaneous: cyclic shift, transposition, chains k_i -> "
    "k_(i-1) and k_i -> k_(i+1) with one new name (partial overlap), merge onto another parent's name, reversed argument "
    "order, a different mode per child, and explicit random injections of the parent's names into (parent names + new "
    "names) per child; in every form: forward, reverse w.r.t. each child (Complement/Quotient own "
    "equation without parameters, fallback to the original equation with parameters), EquivalenceRule, its reverse, "
    "EquivalencePathRule over 1-3 relabelling steps (any of the modes above; composed permutations and their inverses) "
    "forwards, backwards and mixed. The oracle substitutes the brute-force series of each class POSITIONALLY for the "
    "arguments of every F_i in the emitted equation and compares all coefficients up to the order, so a wrong argument "
    "shows at a low-order coefficient; the run fails unless name-permuting dictionaries were reached (equation emitted "
    "and evaluated) in every rule form, in single rules and inside specifications. Shapes of the three known findings are "
    "generated only while they are listed as open in known_findings.json (integer modes 1/3 only; name-permuting, "
    "per-child and explicit modes never match a known finding). Non-trivial: spec case with >= 3 equations "
    "incl. a product, reverse or path equation, all evaluated; rule case whose equation is emitted and has >= 3 non-zero "
    "coefficients up to the model's order; distinct = distinct case descriptors."
)
TECHNIQUE = (
    "Coq proof (truncated multivariate power series as finite term lists; uniqueness through Spec/Eval.v) + "
    "extracted-model/implementation correspondence on the sympy objects of real specifications + per-instance "
    "sympy identity check for get_genf"
)
LEVEL_TEXT = (
    "Theorems C20_* (coq/theories/Props/C20.v). For every truncation order N and every comparison variable set: the "
    "equation emitted for a union rule (with the substitution child variable := product of the parent variables "
    "mapped to it), for a product rule with injective parameter dictionaries, for their reverses in the form the "
    "code emits (Sub directly; Div read as the cross-multiplied identity; with parameters: the fallback to the "
    "original rule's equation), for equivalence rules/paths (as unions with the composed dictionary), for atoms and "
    "empty classes, holds coefficient-wise up to order N when every F_label is read as the class's true series, "
    "provided the rule is genuine (positional re-keying of the children's term tables, as get_terms does). Variables "
    "of the model are NAMES (sympy symbols are global by name) and the model's subs is the simultaneous substitution "
    "of subs(..., simultaneous=True); the dictionaries are arbitrary, also name-permuting (a child parameter named like "
    "another parent parameter). "
    "C20_unique_series: for a univariate specification of union/product/complement/atom/empty rules that pumps "
    "w.r.t. the declared shifts (product shifts re-translated from CartesianProductStrategy.shifts), any two "
    "families of series that satisfy all emitted equations at every order and vanish below the classes' minimum "
    "sizes coincide (via Spec/Eval.v unique_solution). C20_unique_needs_minimum_sizes_refuted: without the "
    "minimum-size condition the equation system of a specification that pumps can have two power-series solutions "
    "(witness inside the model: E -> E x E; natural instance, exercised by the harness: A = x + A*A, both branches "
    "1/2 -+ sqrt(1-4x)/2 are integer power series). C20_product_collision_refuted: CartesianProduct.get_equation with two parent parameters mapped "
    "to one child parameter emits an equation that a genuine rule does not satisfy."
)
LEVEL_NOTE = (
    "Not reachable by a Coq theorem: get_genf obtains closed forms from sympy.solve and selects one by `check`+1 "
    "initial terms of the ROOT only; sympy (solve, series, simplify, subs) is trusted. C20_unique_series reduces "
    "'Taylor coefficients equal the counts at every order' to 'the returned function extends to functions for all "
    "classes that satisfy every emitted equation identically, are analytic at 0 and vanish below the minimum "
    "sizes'; THAT is checked per instance with sympy (simplify(lhs - rhs) == 0, series), plus a Taylor comparison "
    "to order 30, for get_genf as is and with the solver's solutions listed in reverse order (the choice among "
    "branches that agree on the compared initial terms is made by that order: known finding). Trusted: Coq kernel, extraction + OCaml driver, the harness (conversion of rule objects to "
    "descriptors, the canonical form of sympy trees). Modelled not verified: the get_equation methods (tied by this "
    "correspondence). Genuineness of a rule (C09) is a hypothesis; Quotient rules are outside C20_unique_series."
)
TRUSTED = [
    "sympy: solve/series/simplify/subs/expand/Poly (identity check and Taylor comparison of get_genf results; "
    "canonicalisation of sums and products inside the emitted equations)",
    "modelled, not verified: get_equation of DisjointUnion, Complement, CartesianProduct, Quotient, Rule, ReverseRule, "
    "EquivalenceRule, EquivalencePathRule, VerificationRule, AtomStrategy/EmptyStrategy.get_genf, "
    "CombinatorialSpecification.get_equations (Count/Equations.v), tied by this correspondence",
    "translator harness/translate.py for Gen/ProductShifts.v (shifts used by C20_unique_series)",
    "harness/universes/words_stats_c20.py (classes with statistics, trees): brute-force truth through the classes' own "
    "objects_of_size / get_parameters",
]
ASSUMPTIONS = [
    "rules are genuine: the parent's true term table is the positionally re-keyed sum / Cauchy product of the "
    "children's true term tables (strategy contract; checked by brute force on every generated rule)",
    "extra_parameters dictionaries map parent parameters to parameters of the child, every child parameter is the image "
    "of some parent parameter (otherwise the emitted equation keeps the child's own variable free: known finding), "
    "parameter names of one class are distinct and differ from x; NO assumption relates the names of the child to "
    "the names of the parent (they may coincide, be permuted, or overlap partially: Examples "
    "C20_ex_union_swapped_names, C20_ex_product_shifted_names)",
    "product rules: no two parent parameters are mapped to the same child parameter (otherwise known finding)",
    "C20_unique_series: univariate, no Quotient rules, solutions vanish below the classes' minimum sizes",
]

KINDS = {0: "union", 1: "product", 2: "rev_union", 3: "rev_product", 4: "equiv", 5: "equiv_rev", 6: "path",
         7: "atom", 8: "empty", 9: "verified"}


# ----------------------------------------------------------------------------- universes
def _W():
    from harness.universes import words_ext

    return words_ext


def _S():
    from harness.universes import words_stats_c20

    return words_stats_c20


_CACHE = {}
_TRUTH = {}


def truth(cls, n):
    k = (cls, n)
    if k not in _TRUTH:
        if len(_TRUTH) > 100000:
            _TRUTH.clear()
        _TRUTH[k] = Counter(cls.get_terms(n))
    return _TRUTH[k]


class Bundle:
    """the real objects of one case: rules (in equation order), sympy equations, labels"""

    def __init__(self, rules, eqs, label, spec=None, note=""):
        self.rules, self.eqs, self.label, self.spec, self.note = rules, eqs, label, spec, note
        classes = []
        for r in rules:
            for c in _rule_classes(r):
                if c not in classes:
                    classes.append(c)
        self.classes = classes
        names = sorted({p for c in classes for p in c.extra_parameters})
        self.vid = {"x": 0}
        for i, nm in enumerate(names):
            self.vid[nm] = i + 1


def _rule_classes(rule):
    from comb_spec_searcher.strategies.rule import EquivalenceRule, ReverseRule

    out = [rule.comb_class] + list(rule.children)
    for sub in getattr(rule, "rules", ()):      # EquivalencePathRule: the hidden classes name parameters too
        out += _rule_classes(sub)
    o = getattr(rule, "original_rule", None)
    while o is not None and isinstance(rule, (ReverseRule, EquivalenceRule)):
        out += [o.comb_class] + list(o.children)
        rule, o = o, getattr(o, "original_rule", None)
    return out


def _det_search(s, stride):
    """auto_search without its clock: expand `stride` queue items, then look for a specification
    (auto_search sizes its expansion bursts and the minimisation budget by wall-clock time, so two
    runs of it may return different specifications; the parent process and the worker must see the
    same one)"""
    from comb_spec_searcher.exception import SpecificationNotFound

    while True:
        if s.has_specification():
            return s.get_specification(minimization_time_limit=0)
        try:
            for _ in range(stride):
                label, strategies, inferral = next(s.classqueue)
                if s.expand_verified or not s.ruledb.is_verified(label):
                    s._expand(s.classdb.get_class(label), label, strategies, inferral)  # pylint: disable=protected-access
        except StopIteration:
            if s.has_specification():
                return s.get_specification(minimization_time_limit=0)
            raise SpecificationNotFound from None


def _search(case):
    cfg = case["cfg"]
    u = cfg["universe"]
    from comb_spec_searcher import CombinatorialSpecificationSearcher

    _random.seed(cfg.get("tree_seed", 0))
    if u == "words":
        s = _W().searcher(cfg)
    elif u == "stats":
        S = _S()
        s = CombinatorialSpecificationSearcher(S.stat_start(cfg["start"]), S.stat_pack(cfg.get("spack", "keep")), ruledb=_W().make_ruledb(cfg["ruledb"]))
    else:
        S = _S()
        kind = ("planted", cfg["planted"]) if cfg.get("planted") else "tree"
        s = CombinatorialSpecificationSearcher(S.Tree(tuple(cfg["arities"]), kind), S.tree_pack(), ruledb=_W().make_ruledb(cfg["ruledb"]))
    return _det_search(s, 1 + cfg.get("tree_seed", 0) % 3)


def _stat_class(d):
    return _S().StatWord(d["prefix"], d["patterns"], list(d["alphabet"]), False, [tuple(s) for s in d["stats"]])


def _build_rule(case):
    """single rule case -> (rule, note)"""
    from comb_spec_searcher.strategies.rule import EquivalencePathRule

    S = _S()
    r = case["rule"]
    parent = _stat_class(r["class"])
    strat = {"expansion": S.StatExpansion, "remove_front": S.StatRemoveFront, "relabel": S.StatRelabel,
             "remove_front_lw": lambda mode: S.StatRemoveFrontLW(mode, r.get("rest_pos", 0))}[r["strategy"]]
    form = r["form"]
    if form == "path":
        # forward chain c0 -> c1 -> .. -> ck of relabelling equivalences, then
        #   shape "fwd":   e1 .. ek                shape "rev":  rev(ek) .. rev(e1)
        #   shape "back":  e1 .. ek, rev(ek) .. (r["back"] < k of them)
        cur, fwd_rules = parent, []
        for mode in r["steps"]:
            st = S.StatRelabel(mode)
            if st.decomposition_function(cur) is None:
                break
            e = st(cur).to_equivalence_rule()
            fwd_rules.append(e)
            cur = e.children[0]
        if not fwd_rules:
            return None, "relabel does not apply"
        if r["shape"] == "fwd":
            chain = fwd_rules
        elif r["shape"] == "rev":
            chain = [e.to_reverse_rule(0) for e in reversed(fwd_rules)]
        else:
            back = min(r["back"], len(fwd_rules) - 1)
            chain = fwd_rules + [e.to_reverse_rule(0) for e in list(reversed(fwd_rules))[:back]]
        path = EquivalencePathRule(chain)
        if path.children[0] == path.comb_class:
            # the relabellings returned to the start: a class is never its own child in a specification
            # (sympy would fold F = F into True)
            return None, "path returns to its start"
        return path, ""
    st = strat(r["mode"])
    if st.decomposition_function(parent) is None:
        return None, "strategy does not apply"
    fwd = st(parent)
    if form == "fwd":
        return fwd, ""
    if form == "rev":
        if r["idx"] >= len(fwd.children):
            return None, "idx out of range"
        return fwd.to_reverse_rule(r["idx"]), ""
    if not fwd.is_equivalence():
        return None, "not an equivalence"
    eq = fwd.to_equivalence_rule()
    return (eq if form == "equiv" else eq.to_reverse_rule(0)), ""


def bundle(case):
    key = json.dumps(case, sort_keys=True)
    if key in _CACHE:
        return _CACHE[key]
    if len(_CACHE) > 400:
        _CACHE.clear()
    b = None
    try:
        if case["kind"] == "spec":
            spec = _search(case)
            rules = [r for _, r in sorted(spec.rules_dict.items(), key=lambda t: spec.get_label(t[0]))]
            try:
                eqs = list(spec.get_equations())
            except Exception as ex:  # pylint: disable=broad-except
                eqs = "get_equations raised %s: %s" % (type(ex).__name__, str(ex)[:120])
            if isinstance(eqs, str):
                b = Bundle([], [], None, spec, eqs)
                b.bad = True
            elif len(eqs) != len(rules):
                b = Bundle([], [], None, spec, "get_equations yielded %d equations for %d rules" % (len(eqs), len(rules)))
                b.bad = True
            else:
                b = Bundle(rules, eqs, spec.get_label, spec)
        else:
            try:
                rule, note = _build_rule(case)
            except AssertionError as ex:   # e.g. the reverse of a merging relabel is not an equivalence
                rule, note = None, "library refuses: %s" % str(ex)[:60]
            if rule is None:
                b = Bundle([], [], None, None, note)
            else:
                order = []

                def label(c):
                    if c not in order:
                        order.append(c)
                    return order.index(c)

                for c in _rule_classes(rule):
                    label(c)
                try:
                    eq = rule.get_equation(lambda c: c.get_function(label))
                except NotImplementedError:
                    import sympy

                    # what CombinatorialSpecification.get_equations does with such a rule
                    eq = sympy.Eq(rule.comb_class.get_function(label), sympy.Function("NOTIMPLEMENTED")(sympy.var("x")))
                b = Bundle([rule], [eq], label)
    except Exception as ex:  # pylint: disable=broad-except
        from comb_spec_searcher.exception import SpecificationNotFound

        if isinstance(ex, SpecificationNotFound):
            b = Bundle([], [], None, None, "no specification")
        else:
            raise
    _CACHE[key] = b
    return b


# ----------------------------------------------------------------------------- descriptors
def describe(rule, lab, vid):
    from comb_spec_searcher import AtomStrategy
    from comb_spec_searcher.strategies.constructor import CartesianProduct, Complement, DisjointUnion
    from comb_spec_searcher.strategies.rule import (
        EquivalencePathRule,
        EquivalenceRule,
        ReverseRule,
        Rule,
        VerificationRule,
    )
    from comb_spec_searcher.strategies.strategy import EmptyStrategy

    def ep(d):
        return [[vid[a], vid[b]] for a, b in d.items()]

    def orule(r):
        return [lab(r.comb_class), [lab(k) for k in r.children], [ep(d) for d in r.constructor.extra_parameters]]

    def ctor_kind(r):
        c = r.constructor
        if isinstance(c, DisjointUnion):
            return 0
        if isinstance(c, CartesianProduct):
            return 1
        raise ValueError("constructor not modelled: %s" % type(c).__name__)

    cc = rule.comb_class
    if isinstance(rule, VerificationRule):
        s = rule.strategy
        if isinstance(s, AtomStrategy):
            return [7, lab(cc), cc.minimum_size_of_object()]
        if isinstance(s, EmptyStrategy):
            return [8, lab(cc)]
        return [9, lab(cc)]
    if isinstance(rule, EquivalencePathRule):
        steps = [[int(isinstance(r.constructor, Complement)), ep(r.constructor.extra_parameters[0])] for r in rule.rules]
        return [6, lab(cc), steps, lab(rule.children[0])]
    if isinstance(rule, EquivalenceRule):
        o = rule.original_rule
        if isinstance(o, ReverseRule):
            oo = o.original_rule
            if ctor_kind(oo) != 0:
                raise ValueError("equivalence of a reversed non-union")
            idx = oo.to_equivalence_rule().child_idx
            return [5, lab(cc), lab(rule.children[0]), ep(oo.constructor.extra_parameters[idx])]
        if ctor_kind(o) != 0:
            raise ValueError("equivalence of a non-union")
        return [4] + orule(o) + [rule.child_idx]
    if isinstance(rule, ReverseRule):
        o = rule.original_rule
        return [2 + ctor_kind(o)] + orule(o) + [rule.idx]
    if isinstance(rule, Rule):
        return [ctor_kind(rule)] + orule(rule)
    raise ValueError("rule type not modelled: %s" % type(rule).__name__)


def order_of(case, b):
    if "N" in case:
        return case["N"]
    return 5


def _table(cls, N):
    out = []
    for n in range(N + 1):
        for params, cnt in sorted(truth(cls, n).items()):
            out.append([[n] + list(params), cnt])
    return out


def encode(case):
    b = bundle(case)
    if not b.rules:
        return [0, [0], [], [], []]
    N = order_of(case, b)
    V = sorted(b.vid.values())
    classes, opaque, rules = [], [], []
    for c in b.classes:
        classes.append([b.label(c), [b.vid[p] for p in c.extra_parameters], _table(c, N)])
    for r in b.rules:
        d = describe(r, b.label, b.vid)
        rules.append(d)
        if d[0] == 9:
            c = r.comb_class
            pos = [V.index(b.vid[p]) for p in c.extra_parameters]
            ent = []
            for key, cnt in _table(c, N):
                e = [0] * len(V)
                e[0] = key[0]
                for j, p in enumerate(pos):
                    e[p] += key[1 + j]
                ent.append([e, cnt])
            opaque.append([b.label(c), ent])
    return [N, V, classes, opaque, rules]


def encode_with(case, res):
    """encode(case) as computed next to the implementation run (worker process): the parent process does not
    repeat the search and the brute-force tables of every case serially"""
    if isinstance(res, dict) and "enc" in res:
        return res["enc"]
    return encode(case)


# ----------------------------------------------------------------------------- canonical form of sympy trees
BAD = ((((9, 9), 1),), 1)


def _np_clean(d):
    return {k: v for k, v in d.items() if v != 0}


def _nm_mul(a, b):
    d = dict(a)
    for code, e in b:
        d[code] = d.get(code, 0) + e
    return tuple(sorted((c, e) for c, e in d.items() if e != 0))


def _np_mul(p, q):
    out = {}
    for m1, c1 in p.items():
        for m2, c2 in q.items():
            m = _nm_mul(m1, m2)
            out[m] = out.get(m, 0) + c1 * c2
    return _np_clean(out)


def _np_add(p, q):
    out = dict(p)
    for m, c in q.items():
        out[m] = out.get(m, 0) + c
    return _np_clean(out)


def _arg_code(p):
    if len(p) == 1:
        (m, c), = p.items()
        if c == 1 and all(len(code) == 2 and code[0] == 0 for code, _ in m):
            out = [len(m)]
            for code, e in m:
                out += [code[1], e]
            return out
    return [-1]


def nf_sym(e, vid, opaque_atom=None):
    """sympy expression -> {monomial: coeff}; monomial = sorted tuple of (atom code, exponent)"""
    import sympy
    from sympy.core.function import AppliedUndef

    if opaque_atom is not None:
        return {(((2, opaque_atom), 1),): 1}
    if isinstance(e, sympy.Symbol):
        if e.name not in vid:
            return {(((0, -7), 1),): 1}
        return {(((0, vid[e.name]), 1),): 1}
    if isinstance(e, sympy.Integer):
        return _np_clean({(): int(e)})
    if isinstance(e, AppliedUndef):
        name = e.func.__name__
        if name == "NOTIMPLEMENTED":
            lab = -1
        elif name.startswith("F_"):
            lab = int(name[2:])
        else:
            return dict([BAD])
        code = [1, lab]
        for a in e.args:
            code += _arg_code(nf_sym(a, vid))
        return {((tuple(code), 1),): 1}
    if isinstance(e, sympy.Add):
        out = {}
        for a in e.args:
            out = _np_add(out, nf_sym(a, vid))
        return out
    if isinstance(e, sympy.Mul):
        out = {(): 1}
        for a in e.args:
            out = _np_mul(out, nf_sym(a, vid))
        return out
    if isinstance(e, sympy.Pow) and isinstance(e.exp, sympy.Integer):
        base, k = nf_sym(e.base, vid), int(e.exp)
        if k < 0:
            if len(base) != 1:
                return dict([BAD])
            (m, c), = base.items()
            if c not in (1, -1):
                return dict([BAD])
            base, k = {tuple((code, -ex) for code, ex in m): c}, -k
        out = {(): 1}
        for _ in range(k):
            out = _np_mul(out, base)
        return out
    return dict([BAD])


def _np_list(p):
    return sorted([[[list(code), ex] for code, ex in m], c] for m, c in p.items())


# ----------------------------------------------------------------------------- evaluation on true series
def _series_poly(cls, args, M):
    """sum over the class's objects up to size M of  args[0]^size * prod args[1+j]^param_j"""
    import sympy

    terms = []
    for n in range(M + 1):
        for params, cnt in truth(cls, n).items():
            terms.append(sympy.Mul(sympy.Integer(cnt), args[0] ** n, *[a ** p for a, p in zip(args[1:], params)]))
    return sympy.Add(*terms)


def evaluate(b, eq, M):
    """(coeffs of lhs', coeffs of rhs') up to order M in x, as sorted [[exponents over V], coeff] lists;
    lhs' = lhs * denominators, rhs' = numerator (denominators = negative powers of class functions)"""
    import sympy
    from sympy.core.function import AppliedUndef

    x = sympy.var("x")
    bylabel = {b.label(c): c for c in b.classes}
    names = sorted(b.vid, key=lambda k: b.vid[k])
    syms = [sympy.var(nm) for nm in names]

    def repl(e):
        m = {}
        for f in e.atoms(AppliedUndef):
            name = f.func.__name__
            if name.startswith("F_") and int(name[2:]) in bylabel:
                m[f] = _series_poly(bylabel[int(name[2:])], f.args, M)
            else:
                m[f] = sympy.Integer(0)
        return e.xreplace(m)

    lhs, rhs = eq.lhs, eq.rhs
    dens, nums = [], []
    for f in (rhs.args if isinstance(rhs, sympy.Mul) else [rhs]):
        if isinstance(f, sympy.Pow) and isinstance(f.base, AppliedUndef) and f.exp.is_Integer and f.exp < 0:
            dens.append(f.base ** (-f.exp))
        else:
            nums.append(f)
    L = repl(sympy.Mul(lhs, *dens))
    R = repl(sympy.Mul(*nums))
    # a symbol that is no parameter of any class involved: compared as one more variable
    syms = syms + sorted((L.free_symbols | R.free_symbols) - set(syms), key=str)

    def coeffs(e):
        e = sympy.expand(e)
        if not e.is_polynomial(*syms):
            e = sympy.expand(sympy.series(e, x, 0, M + 1).removeO())
        if e == 0:
            return []
        p = sympy.Poly(e, *syms)
        out = []
        for exps, c in p.terms():
            if exps[0] <= M and c != 0:
                out.append([list(map(int, exps)), int(c)])
        return sorted(out)

    return coeffs(L), coeffs(R)


def _name_permuting(rule):
    """1 if some dictionary the equation of this rule is built from maps a parameter onto the name of a
    DIFFERENT parameter of the same parent which is itself re-named (swap, cycle, chain: replacing the names
    one after the other would re-write an already replaced name), else 0"""
    from comb_spec_searcher.strategies.rule import ReverseRule, VerificationRule

    if isinstance(rule, VerificationRule):
        return 0
    src = rule.original_rule if isinstance(rule, ReverseRule) else rule     # fallback: the original rule's maps
    try:
        eps = src.constructor.extra_parameters
    except Exception:  # pylint: disable=broad-except
        return 0
    for ep in eps:
        # p -> c where c is also the name of a parent parameter that is itself mapped to something else
        if any(c in ep and c != p and ep[c] != c for p, c in ep.items()):
            return 1
    return 0


def impl(case):
    import sympy

    b = bundle(case)
    res = {"out": [], "note": b.note, "status": [], "kinds": []}
    if getattr(b, "bad", False):
        res["out"] = {"bad": b.note}
        return res
    if not b.rules:
        return res
    N = order_of(case, b)
    out = []
    from comb_spec_searcher.strategies.rule import VerificationRule

    res["perm"] = []
    for r, eq in zip(b.rules, b.eqs):
        d = describe(r, b.label, b.vid)
        res["kinds"].append(d[0])
        res["perm"].append(_name_permuting(r))
        if not isinstance(eq, sympy.Equality):
            out.append([3, [], [], [0]])
            res["status"].append(3)
            continue
        status = 1 if any(f.func.__name__ == "NOTIMPLEMENTED" for f in eq.atoms(sympy.Function)) else 0
        res["status"].append(status)
        opaque = None
        if d[0] == 9 and isinstance(r, VerificationRule):
            # the right-hand side must be the strategy's own closed form
            own = r.strategy.get_genf(r.comb_class, None)
            opaque = d[1] if (eq.rhs == own or sympy.simplify(eq.rhs - own) == 0) else None
            rhs_nf = nf_sym(eq.rhs, b.vid, opaque) if opaque is not None else dict([BAD])
        else:
            rhs_nf = nf_sym(eq.rhs, b.vid)
        L, R = evaluate(b, eq, N)
        out.append([status, _np_list(nf_sym(eq.lhs, b.vid)), _np_list(rhs_nf), [1, L, R]])
    res["out"] = out
    # the model's input (descriptors of these very rule objects + brute-force tables), built in the worker
    # process: see encode_with
    res["enc"] = encode(case)
    if case.get("genf"):
        res["genf"] = _run_genf(b)
    return res


# ----------------------------------------------------------------------------- get_genf
def _run_genf(b):
    """get_genf() as it is, and once more with sympy.solve's list of solutions reversed: the code
    iterates over that list and returns the first solution passing its initial-condition check, so
    the property must not depend on the order in which the solver lists the branches"""
    import sympy
    from comb_spec_searcher import specification as specmod

    out = []
    orig = specmod.solve
    for rev in (False, True):
        if rev:
            specmod.solve = lambda *a, **k: list(reversed(orig(*a, **k)))
        try:
            g = b.spec.get_genf()
            out.append({"genf": sympy.srepr(g), "str": str(g)})
        except Exception as ex:  # pylint: disable=broad-except
            out.append({"exception": type(ex).__name__, "text": str(ex)[:200]})
        finally:
            specmod.solve = orig
    return out


def _taylor(expr, order):
    """coefficients 0..order of a function analytic at 0, or None"""
    import sympy

    x = sympy.var("x")
    try:
        ser = sympy.series(expr, x, 0, order + 1).removeO()
        p = sympy.Poly(sympy.expand(ser), x)
    except Exception:  # pylint: disable=broad-except
        return None
    co = p.all_coeffs()[::-1]
    if len(co) > order + 1 or any(not c.is_Integer for c in co):
        if any(not c.is_Integer for c in co):
            return None
    return [int(c) for c in co] + [0] * (order + 1 - len(co))


def _check_genf(case, b, info):
    import sympy
    from itertools import chain

    if "exception" in info:
        if info["exception"] == "NotImplementedError" and b.spec.number_of_cvs() > 0:
            return None
        if case["cfg"]["universe"] == "trees" and tuple(case["cfg"]["arities"]) != (2,):
            return None  # equations of degree >= 3: solve is told not to use radicals
        return "get_genf raised %s: %s" % (info["exception"], info["text"])
    x = sympy.var("x")
    g = sympy.sympify(info["genf"])
    order = 30
    co = _taylor(g, order)
    if co is None:
        return "get_genf returned %s, which has no Taylor expansion with integer coefficients" % info["str"]
    M = _oracle_order(b)
    for n in range(order + 1):
        want = sum(truth(b.spec.root, n).values()) if n <= M else b.spec.count_objects_of_size(n)
        if co[n] != want:
            return "get_genf returned %s: coefficient of x^%d is %d, there are %d objects" % (info["str"], n, co[n], want)
    return _genf_solves_system(b, info, g)


def _genf_solves_system(b, info, g, vanish=True):
    """identity check: g extends to a solution of the whole system (None) or why not; vanish=False: only "satisfies
    every equation identically" (a BRANCH of the solved system, possibly the wrong one), without the initial conditions"""
    import sympy
    from itertools import chain

    eqs = tuple(b.eqs)
    funcs = set(chain.from_iterable(eq.atoms(sympy.Function) for eq in eqs))
    sols = sympy.solve(eqs, funcs, dict=True, cubics=False, quartics=False, quintics=False)
    root_func = b.spec.get_function(b.spec.root)
    why = "no solution of the system has %s as the root's function" % info["str"]
    for sol in sols:
        if root_func not in sol or sympy.simplify(sol[root_func] - g) != 0:
            continue
        why = None
        for eq in eqs:
            if sympy.simplify(eq.lhs.subs(sol) - eq.rhs.subs(sol)) != 0:
                why = "solution with root %s does not satisfy %s identically" % (info["str"], eq)
                break
        if why is None and vanish:
            for c, r in b.spec.rules_dict.items():
                f = b.spec.get_function(c)
                if f not in sol:
                    why = "no function solved for %s" % f
                    break
                mn = c.minimum_size_of_object() if not c.is_empty() else 0
                t = _taylor(sol[f], max(mn, 1))
                if t is None:
                    why = "solved function for %s is not analytic at 0" % f
                    break
                if any(t[i] != 0 for i in range(mn)):
                    why = "solved function for %s does not vanish below the minimum size %d" % (f, mn)
                    break
        if why is None:
            return None
    return why


# ----------------------------------------------------------------------------- oracle
def _oracle_order(b):
    S = _S()
    big = 0
    for c in b.classes:
        if isinstance(c, S.Tree):
            big = max(big, 2)
        else:
            big = max(big, len(c.alphabet))
    return {0: 8, 1: 10, 2: 10}.get(big, 7)


def oracle(case, res):
    if "exception" in res:
        return "implementation raised " + res["exception"]
    if isinstance(res["out"], dict):
        return res["out"].get("bad")
    b = bundle(case)
    if not b.rules:
        return None
    M = _oracle_order(b)
    # EVERY failure of the case is collected; the first one that is not an open known finding is reported (a masked
    # one only when nothing else is wrong with the case)
    failures = []
    for i, (r, eq) in enumerate(zip(b.rules, b.eqs)):
        st = res["status"][i]
        if st == 3:
            failures.append("rule %d: get_equations yielded %r instead of an equation" % (i, eq))
            continue
        if st == 1:
            continue  # F = NOTIMPLEMENTED(x): no claim made
        L, R = evaluate(b, eq, M)
        if L != R:
            dl = {tuple(k): v for k, v in L}
            dr = {tuple(k): v for k, v in R}
            bad = sorted(k for k in set(dl) | set(dr) if dl.get(k, 0) != dr.get(k, 0))[0]
            names = sorted(b.vid, key=lambda k: b.vid[k]) + ["(foreign symbol)"] * len(bad)
            failures.append("equation %s of the %s rule for %r is not satisfied by the true series: coefficient of %s is %d on the left, %d on the right%s" % (
                eq, KINDS[res["kinds"][i]], r.comb_class,
                "*".join("%s^%d" % (nm, e) for nm, e in zip(names, bad)), dl.get(bad, 0), dr.get(bad, 0),
                _equation_finding_tag(b, r, eq, M)))
    if case.get("genf") and "genf" in res:
        for which, info in zip(("", " (solver's solutions listed in reverse order)"), res["genf"]):
            why = _check_genf(case, b, info)
            if why:
                if which and len(res["genf"]) == 2 and _check_genf(case, b, res["genf"][0]) is None:
                    why += _wrong_branch_tag(b, info, why)
                failures.append(why + which)
    for why in failures:
        if finding_match(case, why) is None:
            return why
    return failures[0] if failures else None


# ---- what exactly the three open findings are (tags written by the oracle, read by finding_match)
TAG_COLLISION = " [repaired: satisfied once a child parameter that several parent parameters are mapped to is given the PRODUCT of their variables]"
TAG_UNMAPPED = " [repaired: satisfied once every child parameter that no parent parameter is mapped to is set to 1]"
TAG_BRANCH = " [wrong branch: the returned function solves the system and agrees with the counts on the 7 terms get_genf compares]"


def _equation_finding_tag(b, rule, eq, M):
    """'' unless the failing equation is EXPLAINED by one of the two open equation findings: the rule's constructor
    (for a reverse rule: the original rule's, whose equation ReverseRule.get_equation falls back to) is a
    DisjointUnion / CartesianProduct whose dictionaries have the defect's shape, and the equation IS satisfied by the
    true series once every child function is applied to what the dictionaries say (child parameter c := product of
    the parent parameters mapped to c; := 1 when there is none) - i.e. the defect's own repair, and nothing else,
    makes the failure go away."""
    import sympy
    from sympy.core.function import AppliedUndef
    from comb_spec_searcher.strategies.constructor import CartesianProduct, DisjointUnion
    from comb_spec_searcher.strategies.rule import ReverseRule, VerificationRule

    try:
        if isinstance(rule, VerificationRule):
            return ""
        # a reverse rule's equation is the original rule's, solved for the flipped child or (fallback) as it is
        src = rule.original_rule if isinstance(rule, ReverseRule) else rule
        cons = src.constructor
        if not isinstance(cons, (CartesianProduct, DisjointUnion)):
            return ""
        heads = {src.comb_class.get_function(b.label).func} | {c.get_function(b.label).func for c in src.children}
        if {f.func for f in eq.atoms(AppliedUndef)} - heads:
            return ""                         # not an equation between the classes of `src`
        collision = unmapped = False
        want = {}
        for child, ep in zip(src.children, cons.extra_parameters):
            args = [sympy.var("x")]
            for cp in child.extra_parameters:
                parents = [pv for pv, cv in ep.items() if cv == cp]
                if len(parents) > 1 and isinstance(cons, CartesianProduct):
                    collision = True
                if not parents:
                    unmapped = True
                args.append(sympy.Mul(*[sympy.var(pv) for pv in parents]) if parents else sympy.Integer(1))
            f = child.get_function(b.label)
            new = f.func(*args)
            if f in want and want[f] != new:
                return ""                     # one class twice with different dictionaries: not decided here
            want[f] = new
        if not (collision or unmapped):
            return ""
        parent_head = src.comb_class.get_function(b.label).func
        m = {}
        for f in eq.atoms(AppliedUndef):
            for g, new in want.items():
                if f.func == g.func and f.func != parent_head:
                    m[f] = new
        L, R = evaluate(b, sympy.Eq(eq.lhs.xreplace(m), eq.rhs.xreplace(m)), M)
        if L != R:
            return ""
        return TAG_COLLISION if collision else TAG_UNMAPPED
    except Exception:  # pylint: disable=broad-except
        return ""


def _wrong_branch_tag(b, info, why):
    """'' unless the failure of the reversed-solver run is the open finding and nothing else: get_genf returned a
    function, the only thing wrong with it is a Taylor coefficient BEYOND the 7 terms the library compares (so the
    library's own check could not tell the branches apart), and the function really is a branch of the solved system"""
    import re as _re
    import sympy

    try:
        if "exception" in info:
            return ""
        m = _re.search(r": coefficient of x\^(\d+) is -?\d+, there are \d+ objects$", why)
        if not m or int(m.group(1)) < 7:
            return ""
        if _genf_solves_system(b, info, sympy.sympify(info["genf"]), vanish=False) is not None:
            return ""
        return TAG_BRANCH
    except Exception:  # pylint: disable=broad-except
        return ""


def finding_match(case, why):
    """narrow: a failure belongs to an open finding only when the oracle has established the finding's own root cause
    on the real objects of the case (tags above): the failing equation is satisfied after exactly the repair the
    finding describes, resp. get_genf returned a true branch of the system that agrees with the counts on the terms
    the library compares.  Everything else on the same inputs (another coefficient pattern that the repair does not
    cure, exceptions, functions that are no solution, failures of the as-is solver order) matches nothing."""
    if not why:
        return None
    if (case["kind"] == "spec" and case["cfg"].get("planted", 0) >= 7
            and why.endswith(TAG_BRANCH + " (solver's solutions listed in reverse order)")):
        return "genf-selection-depends-on-solver-order"
    if case["kind"] == "rule" and "not satisfied" in why:
        if why.endswith(TAG_COLLISION):
            return "product-equation-parameter-collision"
        if why.endswith(TAG_UNMAPPED):
            return "union-equation-unmapped-child-parameter"
    return None


# ----------------------------------------------------------------------------- generator
STAT_CLASSES = [
    ("", ["ab"], "ab"), ("a", ["ab"], "ab"), ("b", ["ab"], "ab"), ("", ["aa", "bb"], "ab"), ("ba", ["bb"], "ab"),
    ("ab", ["aba"], "ab"), ("", ["aba"], "ab"), ("bab", ["bb"], "ab"), ("", [], "ab"), ("ba", [], "ab"),
    ("", ["abc", "ca"], "abc"), ("ca", ["cc"], "abc"), ("a", ["aa", "ab"], "ab"), ("b", ["ba", "bb"], "ab"),
    ("aab", ["bb", "aaa"], "ab"), ("c", ["aa"], "abc"),
    # long prefixes: several letters removed at once (>= 3 factors under remove_front_lw)
    ("bbba", ["aa"], "ab"), ("abab", ["bb"], "ab"), ("cabc", ["aa", "cb"], "abc"), ("bab", ["aab"], "ab"),
]
STAT_SETS = [
    [("k", "a")], [("k", "b")], [("k", "a"), ("j", "a")], [("k", "a"), ("m", "b")], [("k", "a"), ("j", "a"), ("m", "b")],
    [("u", "b"), ("v", "b"), ("w", "b")], [], [("k", "c")], [("k", "a"), ("j", "b"), ("i", "a"), ("h", "b")],
    # names in both alphabetical orders w.r.t. the letters they track (sympy substitutes in sorted key order),
    # indexed names, names that are letters themselves
    [("p", "a"), ("q", "b")], [("q", "a"), ("p", "b")], [("k_1", "a"), ("k_2", "b")], [("k_2", "a"), ("k_1", "b")],
    [("k_0", "a"), ("k_1", "b"), ("k_2", "c")], [("k_3", "c"), ("k_2", "a"), ("k_1", "b")], [("b", "a"), ("a", "b")],
    [("k_1", "a"), ("k_2", "a"), ("k_3", "b")], [("r", "b"), ("s", "a"), ("t", "b")],
]
# integer modes of harness/universes/words_stats_c20.py
LEGACY_MODES = [0, 1, 2]
PERMUTING_MODES = [4, 5, 6, 7, 8, 9, 10, 11]
FRESH_NAMES = ["z", "y_0", "k_9"]


def _gen_map(rng, stats, merge_ok):
    """one explicit child naming: per parent statistic a child name ("" = keep the name).  Names come from
    the parent's own names and a few new ones: a random injection (permutation, chain, partial overlap),
    optionally (unions) with statistics of one letter merged onto one name"""
    names = [n for n, _ in stats]
    k = len(names)
    x = rng.random()
    if k == 0 or x < 0.1:
        return []
    pool = names + FRESH_NAMES[:rng.randint(0, 2)]
    new = rng.sample(pool, k)
    if x < 0.35 and k >= 2:          # a transposition, everything else kept
        i, j = rng.sample(range(k), 2)
        new = list(names)
        new[i], new[j] = names[j], names[i]
    elif x < 0.5:                    # a permutation of the parent's names
        new = list(names)
        rng.shuffle(new)
    if merge_ok and rng.random() < 0.3:
        first = {}
        for i, (_, l) in enumerate(stats):
            if l in first and rng.random() < 0.7:
                new[i] = new[first[l]]
            first.setdefault(l, i)
    return ["" if c == n and rng.random() < 0.5 else c for c, n in zip(new, names)]


def _gen_mode(rng, strategy, stats):
    """a statistics mode for one strategy application: legacy int / name-permuting int / list of ints per
    child / explicit maps.  Products never get two parameters merged onto one child parameter here (that is
    the known finding's own, separately generated, shape)."""
    product = strategy.startswith("remove_front")
    dup = len({l for _, l in stats}) < len(stats)
    ints = LEGACY_MODES + PERMUTING_MODES
    if product and dup:
        ints = [m for m in ints if m not in (1, 8)]
    if strategy == "relabel":
        ints = [m for m in ints if m != 0]
    x = rng.random()
    if x < 0.3:
        return rng.choice([m for m in ints if m in LEGACY_MODES])
    if x < 0.6:
        return rng.choice([m for m in ints if m in PERMUTING_MODES])
    if x < 0.75 and strategy != "relabel":
        return [rng.choice(ints) for _ in range(rng.randint(2, 3))]
    n = 1 if strategy == "relabel" else rng.randint(1, 3)
    return {"maps": [_gen_map(rng, stats, not product) for _ in range(n)],
            "rev": [rng.randint(0, 1) for _ in range(rng.randint(1, 2))]}


def _gen_rule(rng, findings):
    p, pats, alph = rng.choice(STAT_CLASSES)
    stats = [s for s in rng.choice(STAT_SETS) if s[1] in alph]
    cls = {"prefix": p, "patterns": pats, "alphabet": alph, "stats": [list(s) for s in stats]}
    x = rng.random()
    if x < 0.2:
        steps = [_gen_mode(rng, "relabel", stats) if rng.random() < 0.8 else rng.choice([1, 2, 2])
                 for _ in range(rng.randint(1, 3))]
        rule = {"class": cls, "strategy": "relabel", "form": "path", "steps": steps, "mode": 0,
                "shape": rng.choice(["fwd", "rev", "back"]), "back": rng.randint(1, 2)}
    else:
        strategy = rng.choice(["expansion", "expansion", "remove_front", "remove_front", "remove_front_lw", "relabel"])
        form = rng.choice(["fwd", "fwd", "rev", "rev", "equiv", "equiv_rev"])
        if findings and rng.random() < 0.04:
            strategy, mode = rng.choice([("expansion", 3), ("remove_front", 1)])
        else:
            if form in ("rev", "equiv_rev") and rng.random() < 0.3:
                cls["stats"] = stats = []       # Complement / Quotient emit their own equation only without parameters
            mode = _gen_mode(rng, strategy, stats)
        rule = {"class": cls, "strategy": strategy, "mode": mode, "form": form, "idx": rng.randint(0, 3)}
        if strategy == "remove_front_lw":
            rule["rest_pos"] = rng.randint(0, 2)
    return {"kind": "rule", "rule": rule, "N": 5 if len(alph) == 2 else 4}


def _gen_spec(rng, tier, genf_ok, solver_order_known=False):
    W, S = _W(), _S()
    x = rng.random()
    if x < 0.5:
        cfg = W.random_cfg(rng)
        cfg["universe"] = "words"
        cfg.pop("smallest", None)
        alph = W.START_SPECS[cfg["start"]][2]
        case = {"kind": "spec", "cfg": cfg, "N": 5 if len(alph) == 2 else 4}
        big = W.START_SPECS[cfg["start"]][1] == ["ababa", "babb"]
        if genf_ok and not big and rng.random() < 3 * GENF_SHARE[tier]:
            case["genf"] = True
        return case
    if x < 0.85:
        cfg = {"universe": "stats", "start": rng.randrange(len(S.STAT_STARTS)), "ruledb": rng.choice(W.RULEDBS),
               "tree_seed": rng.randrange(1 << 30), "spack": rng.choice(sorted(S.STAT_PACKS))}
        alph = S.STAT_STARTS[cfg["start"]][2]
        case = {"kind": "spec", "cfg": cfg, "N": 5 if len(alph) == 2 else 4}
        if genf_ok and rng.random() < GENF_SHARE[tier]:
            case["genf"] = True      # must raise NotImplementedError (catalytic variables)
        return case
    cfg = {"universe": "trees", "arities": list(rng.choice(S.TREE_STARTS)), "ruledb": rng.choice(W.RULEDBS),
           "tree_seed": rng.randrange(1 << 30)}
    if rng.random() < 0.5:
        cfg["planted"] = rng.randint(1, 5)      # root = leaf^j x tree: the branches agree up to order j
        if solver_order_known and rng.random() < 0.08:
            cfg["planted"] = rng.randint(7, 8)  # ... beyond the 7 initial conditions get_genf compares
    case = {"kind": "spec", "cfg": cfg, "N": 6}
    if genf_ok and cfg["arities"] == [2] and rng.random() < 0.6:
        case["genf"] = True
    return case


def gen(rng, tier):
    findings = {k.get("match") for k in core.load_known() if k.get("property") == ID and k.get("kind") == "open"}
    both = {"product-equation-parameter-collision", "union-equation-unmapped-child-parameter"} <= findings
    n_genf = 0
    cap = 40 if tier == "quick" else 600
    while True:
        if rng.random() < 0.55:
            for attempt in range(12):
                c = _gen_rule(rng, both)
                try:
                    ok = _build_rule(c)[0] is not None
                except AssertionError:
                    ok = False
                except Exception:  # pylint: disable=broad-except
                    ok = True       # let the run report it
                if ok or attempt == 11 or rng.random() < 0.03:
                    break
            yield c
        else:
            c = _gen_spec(rng, tier, n_genf < cap, "genf-selection-depends-on-solver-order" in findings)
            n_genf += int(bool(c.get("genf")))
            yield c


def key(case):
    return json.dumps(case, sort_keys=True)


def nontrivial(case, res):
    out = res.get("out")
    if not isinstance(out, list) or not out:
        return False
    if case["kind"] == "rule":
        d = out[0]
        return d[0] == 0 and len(d[3]) == 3 and len(d[3][1]) >= 3
    k = res.get("kinds", [])
    return len(out) >= 3 and any(x in (1, 3, 6) for x in k) and all(len(d[3]) == 3 for d in out)


def classify(case, res):
    tags = [case["kind"]]
    if case["kind"] == "spec":
        tags.append("universe:" + case["cfg"]["universe"])
        tags.append("ruledb:" + case["cfg"]["ruledb"])
        if case.get("genf"):
            for g in res.get("genf", [{}])[:1]:
                tags.append("genf:" + ("returned" if "genf" in g else g.get("exception", "none")))
    else:
        tags.append("form:" + case["rule"]["form"])
        md = case["rule"]["mode"]
        tags.append("strategy:%s/%s" % (case["rule"]["strategy"], md if isinstance(md, int) else
                                        "per-child" if isinstance(md, list) else "explicit"))
    if isinstance(res.get("out"), list) and not res["out"]:
        tags.append("not-applicable")
    for k, st in zip(res.get("kinds", []), res.get("status", [])):
        tags.append("eq:" + KINDS[k] + (":notimplemented" if st == 1 else ""))
    for k, st, pm in zip(res.get("kinds", []), res.get("status", []), res.get("perm", [])):
        if pm and st == 0:
            tags.append("perm:" + KINDS[k] + ("@spec" if case["kind"] == "spec" else ""))
    if case["kind"] == "spec" and case["cfg"]["universe"] == "stats":
        tags.append("spack:" + case["cfg"].get("spack", "keep"))
    names = set()
    for d in res.get("out") if isinstance(res.get("out"), list) else []:
        if len(d[3]) == 3 and d[3][1] and len(d[3][1][0][0]) > 1:
            names.add("multivariate-evaluated")
    return tags + sorted(names)


def _shrink_mode(mode):
    """simpler statistics modes (never towards the modes 1 / 3 of the known findings unless already there)"""
    if isinstance(mode, list):
        for m in mode:
            yield m
        for i in range(len(mode)):
            if len(mode) > 1:
                yield mode[:i] + mode[i + 1:]
    elif isinstance(mode, dict):
        maps, rev = mode.get("maps") or [[]], mode.get("rev") or [0]
        if any(rev):
            yield {"maps": maps, "rev": [0]}
        for i, m in enumerate(maps):
            if len(maps) > 1:
                yield {"maps": maps[:i] + maps[i + 1:], "rev": rev}
            if any(m):
                yield {"maps": maps[:i] + [[]] + maps[i + 1:], "rev": rev}
            for j, c in enumerate(m):
                if c:
                    yield {"maps": maps[:i] + [m[:j] + [""] + m[j + 1:]] + maps[i + 1:], "rev": rev}


def _drop_stat(mode, i):
    if isinstance(mode, dict):
        return {"maps": [m[:i] + m[i + 1:] for m in (mode.get("maps") or [[]])], "rev": mode.get("rev") or [0]}
    return mode


def shrink(case):
    if case["kind"] == "rule":
        r = case["rule"]
        if r["form"] == "path":
            for i in range(len(r["steps"])):
                if len(r["steps"]) > 1:
                    yield {**case, "rule": {**r, "steps": r["steps"][:i] + r["steps"][i + 1:]}}
            for i, st in enumerate(r["steps"]):
                for m in _shrink_mode(st):
                    yield {**case, "rule": {**r, "steps": r["steps"][:i] + [m] + r["steps"][i + 1:]}}
        else:
            for m in _shrink_mode(r["mode"]):
                yield {**case, "rule": {**r, "mode": m}}
        st = r["class"]["stats"]
        for i in range(len(st)):
            c = {**r, "class": {**r["class"], "stats": st[:i] + st[i + 1:]}, "mode": _drop_stat(r["mode"], i)}
            if r["form"] == "path":
                c["steps"] = [_drop_stat(m, i) for m in r["steps"]]
            yield {**case, "rule": c}
        if case.get("N", 0) > 2:
            yield {**case, "N": case["N"] - 1}
    else:
        if case.get("genf"):
            c = dict(case)
            c.pop("genf")
            yield c
        cfg = case["cfg"]
        if cfg.get("expand_verified"):
            yield {**case, "cfg": {**cfg, "expand_verified": False}}
        if cfg.get("pack") not in (None, "base"):
            yield {**case, "cfg": {**cfg, "pack": "base"}}
        if cfg.get("ruledb") != "base":
            yield {**case, "cfg": {**cfg, "ruledb": "base"}}
        if cfg.get("spack", "keep") != "keep":
            yield {**case, "cfg": {**cfg, "spack": "keep"}}
        if cfg.get("tree_seed"):
            yield {**case, "cfg": {**cfg, "tree_seed": 0}}


def extra_checks(ctx):
    """non-vacuity: the stream reached every rule form, several variables, reverse rules in specifications,
    non-linear systems and get_genf results"""
    tags = Counter()
    for c, (res, _, _) in zip(ctx.cases, ctx.impl_res):
        for t in set(classify(c, res)):
            tags[t] += 1
    need = ["eq:union", "eq:product", "eq:rev_union", "eq:rev_product", "eq:equiv", "eq:path", "eq:atom", "eq:empty",
            "multivariate-evaluated", "genf:returned", "universe:trees", "universe:stats",
            # name-permuting parameter maps (emitted and evaluated equations) in every rule form
            "perm:union", "perm:product", "perm:rev_union", "perm:rev_product", "perm:equiv", "perm:path",
            "perm:union@spec", "perm:product@spec"]
    # (reverse rules with name-permuting dictionaries inside specifications are rare in the random stream: the
    # corpus cases spec_stats_factory_* guarantee them on every run)
    need += ["perm:path@spec", "perm:rev_union@spec", "perm:rev_product@spec"]
    if len(ctx.cases) < 150:
        return []
    missing = [t for t in need if not tags.get(t)]
    return [("generator reached every rule form / universe (%s)" % ", ".join("%s=%d" % (t, tags[t]) for t in need),
             not missing, "missing: %s" % missing if missing else "ok")]
