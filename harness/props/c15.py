"""C15 — the class database is a stable bijection between classes and dense labels."""
from harness.universes import words

ID = "C15"
TITLE = "class database: stable bijection classes <-> dense labels"
COQ_PROPS = "Props/C15.v"
COQ_RUN = ("ClassDB.Run", "run_c15")
GEN_TARGETS = []
N = {"quick": 6000, "thorough": 120000}
RULE = (
    "random histories of 1-80 operations (get_label/get_class/contains on classes and on "
    "integers incl. unknown, negative and huge labels; is_empty with and without label; "
    "set_empty; add) over a pool of 12 word classes, with and without byte compression; EVERY class argument is a "
    "fresh object, equal but not identical to every earlier presentation of that class (alternately built from "
    "permuted-but-equal constructor input), so that 'equal classes share a label' is exercised, also through the "
    "compression fallback; "
    "a separate malformed stream uses mismatched labels and non-class keys. "
    "Non-trivial: at least 3 distinct classes labelled, a repeated label lookup, and an "
    "emptiness cache hit; distinct = distinct (compression, op list)."
)
TRUSTED = [
    "modelled, not verified: comb_spec_searcher/class_db.py (ClassDB, ClassToInfo, LabelToInfo) — "
    "hand-written Gallina model ClassDB/Model.v tied by this correspondence",
    "zlib/to_bytes/from_bytes are abstracted as an injective compress with left inverse (Section hypothesis decompress_compress)",
]
ASSUMPTIONS = [
    "classes implement __eq__/__hash__ consistently and to_bytes/from_bytes round-trips (documented user contract)",
    "C15_empty_cache / C15_oracle_once_per_label quantify over honest callers (set_empty passes the true value)",
    "scope of the membership clause ('False for everything else'): keys that are classes of the searcher's class type "
    "or ints. A key of any other type ('x', None, 0.0, a class of another type) makes `in` raise ValueError('Invalid key') "
    "(class_db.py) - the oracle REQUIRES that exception (a foreign key that is accepted is reported); `True in db` is an "
    "int lookup (label 1). Triage: findings/triage/C15/verdict.md (the clause is read for classes and labels; no finding)",
]

ERR = {"KeyError": 1, "IndexError": 2, "TypeError": 3, "ValueError": 4}
POOLS = {}


def _pool(compressed):
    if compressed not in POOLS:
        POOLS[compressed] = words.pool(
            {0: words.CountingWord, 1: words.BytesWord, 2: words.MixedWord}[int(compressed)]
        )
    return POOLS[compressed]


NPOOL = len(words.POOL_SPEC)


def gen(rng, tier):
    while True:
        compressed = rng.choice([0, 0, 1, 1, 2])   # plain / byte-compressed / mixed (some instances not serialisable)
        malformed = rng.random() < 0.15
        n = rng.randint(1, 80)
        npool = rng.randint(1, NPOOL)
        ops = []
        nlab = 0  # rough number of labels so far (for plausible label args)
        for _ in range(n):
            r = rng.random()
            c = rng.randrange(npool)

            def lab():
                x = rng.random()
                if x < 0.7:
                    return rng.randint(0, max(0, nlab))
                if x < 0.85:
                    return rng.randint(-3, -1)
                return rng.choice([nlab + 1, nlab + 5, 10**6])

            if r < 0.30:
                ops.append([0, 0, c]); nlab += 1
            elif r < 0.38:
                ops.append([0, 1, lab()])
            elif r < 0.46:
                ops.append([1, 1, lab()])
            elif r < 0.50:
                ops.append([1, 0, c]); nlab += 1
            elif r < 0.58:
                ops.append([2, 1, lab()])
            elif r < 0.66:
                ops.append([2, 0, c])
            elif r < 0.80:
                ops.append([3, c])
            elif r < 0.86:
                # is_empty(c, label): honest callers pass the class's own label;
                # encoded as [3, c, -7] = "use get_label(c) first" unless malformed
                if malformed:
                    ops.append([3, c, lab()])
                else:
                    ops.append([6, c])
            elif r < 0.92:
                if malformed:
                    if rng.random() < 0.5:
                        ops.append([4, 1, lab(), rng.randint(0, 1)])
                    else:
                        ops.append([4, 0, c, rng.randint(0, 1)])
                else:
                    ops.append([7, c])  # honest set_empty(c, true value)
            elif r < 0.96:
                ops.append([5, c])
            else:
                ops.append([2, 2, 0])  # contains(non-class, non-int key)
        yield {"compressed": compressed, "ops": ops}


def _truth(c):
    p, pats, _, _ = words.POOL_SPEC[c]
    return any(x in p for x in pats)


def expand(case):
    """honest composite ops -> primitive ops (both for model and impl)"""
    out = []
    for o in case["ops"]:
        if o[0] == 6:    # l = get_label(c); is_empty(c, l)
            out.append([0, 0, o[1]])
            out.append([3, o[1], -7])
        elif o[0] == 7:  # set_empty(c, truth)
            out.append([4, 0, o[1], int(_truth(o[1]))])
        elif o[0] == 2 and o[1] == 2:
            out.append(o)
        else:
            out.append(o)
    return out


def encode(case):
    bits = [int(_truth(c)) for c in range(NPOOL)]
    ops, last = [], {}
    prim = expand(case)
    # the label placeholder -7 is resolved by simulating dense labelling
    labels = {}
    res = []
    for o in prim:
        if o[0] in (0, 1) and o[1] == 0 or o[0] == 5 or (o[0] == 4 and o[1] == 0):
            labels.setdefault(o[2] if o[0] != 5 else o[1], len(labels))
        if o[0] == 3 and len(o) == 3 and o[2] == -7:
            o = [3, o[1], labels[o[1]]]
        if o[0] == 2 and o[1] == 2:
            continue  # glue outside the model (ValueError for foreign keys), checked by the oracle
        res.append(o)
    return [bits, res]


def impl(case):
    from comb_spec_searcher.class_db import ClassDB

    compressed = case["compressed"]
    pool = _pool(compressed)
    cls = type(pool[0])
    cls.calls = 0
    db = ClassDB(cls)
    outs, trace = [], []

    nfresh = [0]

    def fresh(v):
        """an EQUAL but NON-IDENTICAL class object for every presentation of pool class v to the database (the searcher
        hands the database a new object from every strategy application), built alternately from the constructor input
        as listed and from a permuted-but-equal one (reversed patterns / alphabet, which the constructor sorts): a
        database keyed by identity instead of equality - directly or through its compression fallback - gives the
        second presentation a new label.  pool[v] itself is only used by the harness (pool.index)."""
        p, pats, alph, jp = words.POOL_SPEC[v]
        nfresh[0] += 1
        if nfresh[0] % 2:
            pats, alph = list(reversed(list(pats))), list(reversed(list(alph)))
        obj = cls(p, list(pats), list(alph), jp)
        assert obj is not pool[v] and obj == pool[v]
        return obj

    def key(kind, v):
        return fresh(v) if kind == 0 else v

    for o in expand(case):
        try:
            if o[0] == 0:
                r = [0, db.get_label(key(o[1], o[2]))]
            elif o[0] == 1:
                r = [1, pool.index(db.get_class(key(o[1], o[2])))]
            elif o[0] == 2:
                if o[1] == 2:
                    try:
                        db.__contains__("not a class")
                        trace.append("foreign key accepted")
                    except ValueError:
                        pass
                    continue
                r = [2, int(key(o[1], o[2]) in db)]
            elif o[0] == 3:
                if len(o) == 3:
                    lab = db.get_label(fresh(o[1])) if o[2] == -7 else o[2]
                    r = [2, int(db.is_empty(fresh(o[1]), lab))]
                else:
                    r = [2, int(db.is_empty(fresh(o[1])))]
            elif o[0] == 4:
                db.set_empty(key(o[1], o[2]), bool(o[3]))
                r = [3]
            else:
                db.add(fresh(o[1]))
                r = [3]
        except (KeyError, IndexError, TypeError, ValueError) as ex:
            r = [4, ERR[type(ex).__name__]]
        outs.append(r)
    classes = [pool.index(db.get_class(i)) for i in range(len(db.comb_class_list))]
    empties = [-1 if e is None else int(e) for e in db.empty_list]
    final = [db._empty_num_application, classes, empties, list(db.label_dict.values())]
    return {"out": [outs, final], "oracle_calls": cls.calls, "trace": trace,
            "aligned": len(db.comb_class_list) == len(db.label_dict) == len(db.empty_list)}


def oracle(case, res):
    """Dictionary-based reference for the PROPERTY, independent of the model."""
    if "exception" in res:
        return "implementation raised " + res["exception"]
    if res["trace"]:
        return res["trace"][0]
    if not res["aligned"]:
        return "the three lists have different lengths"
    outs, final = res["out"]
    honest = all(o[0] not in (3, 4) or o[0] in (6, 7) or (o[0] == 3 and len(o) == 2) for o in case["ops"])
    ref = {}            # class -> label
    cached = {}         # label -> bool
    calls = 0
    for o, r in zip([o for o in expand(case) if not (o[0] == 2 and o[1] == 2)], outs):
        k = o[0]
        if k in (0, 1) and o[1] == 0:          # class key
            lab = ref.setdefault(o[2], len(ref))
            if k == 0 and r != [0, lab]:
                return "get_label(class %d) = %r, expected label %d" % (o[2], r, lab)
            if k == 1 and r != [1, o[2]]:
                return "get_class(class %d) = %r" % (o[2], r)
        elif k in (0, 1) and o[1] == 1:        # int key
            l = o[2]
            if 0 <= l < len(ref):
                c = [c for c, x in ref.items() if x == l][0]
                exp = [0, l] if k == 0 else [1, c]
                if r != exp:
                    return "lookup of label %d = %r, expected %r" % (l, r, exp)
            elif r != [4, 1]:
                return "lookup of unknown label %d = %r, expected KeyError" % (l, r)
        elif k == 2:
            exp = int(o[2] in ref) if o[1] == 0 else int(0 <= o[2] < len(ref))
            if r != [2, exp]:
                return "membership test %r = %r, expected %d (total, no exception)" % (o, r, exp)
        elif k == 5:
            ref.setdefault(o[1], len(ref))
        elif k == 4 and o[1] == 0:
            ref.setdefault(o[2], len(ref))
        elif k == 3 and honest:
            if o[1] in ref:
                if r != [2, int(_truth(o[1]))]:
                    return "is_empty(class %d) = %r, class's own answer is %s" % (o[1], r, _truth(o[1]))
    if honest:
        if res["oracle_calls"] > len(ref):
            return "class.is_empty() called %d times for %d labels" % (res["oracle_calls"], len(ref))
        for lab, e in enumerate(final[2]):
            c = final[1][lab]
            if e != -1 and e != int(_truth(c)):
                return "cached emptiness of label %d is %d, class answers %s" % (lab, e, _truth(c))
    if final[1] != [c for c, _ in sorted(ref.items(), key=lambda t: t[1])]:
        return "stored classes %r differ from first-appearance order %r" % (final[1], ref)
    if final[3] != list(range(len(ref))):
        return "labels are not 0..n-1 in order of first appearance: %r" % (final[3],)
    return None


def nontrivial(case, res):
    ops = expand(case)
    cls = [o[2] for o in ops if o[0] == 0 and o[1] == 0]
    return len(set(cls)) >= 3 and len(cls) > len(set(cls)) and sum(1 for o in ops if o[0] == 3) >= 2


def key(case):
    return (case["compressed"], str(case["ops"]))


def classify(case, res):
    tags = [{0: "plain", 1: "compressed", 2: "mixed"}[int(case["compressed"])]]
    outs = res.get("out")
    if isinstance(outs, list):
        if any(r[0] == 4 for r in outs[0]):
            tags.append("has_error_result")
        tags.append("len<=20" if len(case["ops"]) <= 20 else "len>20")
    return tags


def shrink(case):
    ops = case["ops"]
    for i in range(len(ops)):
        yield {"compressed": case["compressed"], "ops": ops[:i] + ops[i + 1:]}

TECHNIQUE = "Coq proof (invariant by induction over operation histories) + extracted-model/implementation correspondence"
LEVEL_TEXT = (
    "Theorems C15_* (coq/theories/Props/C15.v) prove, for every operation history, class type, injective "
    "compression and emptiness oracle: aligned lists, dense labels in order of first appearance, label "
    "stability and injectivity, get_class∘get_label = id through compression, total membership tests, "
    "KeyError for unknown labels, cached emptiness = class's own answer, oracle called at most once per "
    "label. The hand-written model is tied to class_db.py by running both on generated histories "
    "(with and without byte compression) and comparing every result and the final lists."
)
LEVEL_NOTE = (
    "Trusted: Coq kernel, ExtrOcamlBasic extraction + OCaml driver, the correspondence harness. "
    "Modelled not verified: class_db.py itself; zlib/to_bytes abstracted as an injective function. "
    "Emptiness theorems assume honest callers of set_empty (who calls it is C04)."
)
