"""C04 — the rule universe built by the searcher is faithful to the strategies."""
import copy
import itertools
import json
import os

ID = "C04"
TITLE = "searcher: every recorded rule is a strategy of the table applied to the class carrying the parent label"
COQ_PROPS = "Props/C04.v"
COQ_RUN = ("Searcher.Run", "run_c04")
GEN_TARGETS = ["reverse_shifts"]
N = {"quick": 20000, "thorough": 100000}
RULE = (
    "table universes (harness/universes/table.py, table_c04.py): 2-10 integer classes, 15% empty; packs with 0-4 "
    "inferral, 0-2 initial, 0-2 expansion sets, 1-2 verification strategies (25% with children), 0-2 symmetries; plain "
    "strategies with random flags (ignore_parent, inferrable, possibly_empty, workable), arity 1-3, repeated "
    "children, self-equivalences; factories yielding strategies, eager and lazy ready rules, rules with a "
    "foreign parent, ready rules of strategies that do not apply. About 83% of the universes satisfy the STRONG "
    "contract = Searcher/Contracts.v contractsb (a possibly_empty=False strategy has no empty child on a non-empty "
    "class, and none on an empty class either if its rules go through add_rule; symmetries preserve emptiness) - "
    "about 10% of all universes are strong AND have a symmetry entry on an empty class, which the former statement of "
    "the contracts excluded; the others only random_universe's weaker contract (an empty parent may have empty children "
    "under any strategy) or none, so the emptiness cache can be poisoned; ~1.5% of the start classes are empty (they "
    "get the empty rule and are not expanded). Hand-made corner cases come from harness/corpus/C04. Each "
    "universe is searched to queue exhaustion by the real CombinatorialSpecificationSearcher with RuleDB, "
    "RuleDBForgetStrategy, RuleDBForest(reverse=False/True), expand_verified on/off, classes stored "
    "compressed (to_bytes) or not, driven by _expand_classes_for or by do_level; the packets handed out by "
    "the real queue and the answers of ruledb.is_verified are recorded and replayed by the model. "
    "Non-trivial: >= 4 labels, >= 4 ruledb.add calls, and at least one of: a dropped empty child, a "
    "foreign-parent rule, a lazily failing rule, a filtered self-equivalence, a symmetry image, an inferral "
    "chain of length >= 2; distinct = distinct (universe, configuration)."
)
TRUSTED = [
    "modelled, not verified: comb_spec_searcher.py (__init__, try_verify, _expand, _rules_from_strategy, "
    "_expand_class_with_strategy, add_rule, _symmetry_expand, _inferral_expand, _expand_classes_for, do_level), "
    "rule_db/base.py (RuleDBBase.add, _clean_labels), rule_db/forest.py (RuleDBForest.add, _add_empty_rule) and "
    "Rule/ReverseRule/VerificationRule.forest_key — hand-written Gallina model Searcher/Model.v tied by this "
    "correspondence (exact equality of the whole event trace and of the final class database)",
    "the work queue and ruledb.is_verified are external to the model: their outputs are recorded from the real "
    "run and replayed; the theorems quantify over all packet sequences and all answer sequences",
    "the logging wrappers of this plugin (queue proxy, instance-level wrappers of ruledb.add / is_verified, "
    "classdb.set_empty / is_empty, equivdb edge methods, the two rule stores, table_method.add_rule_key)",
    "the wrapper around RecomputingDict.pop (counts and rolls back side effects of a recomputation on the class "
    "database) is inert since fix e80f5df: RuleDBBase.add removes superseded one-way keys with `del`, which does "
    "not recompute (evidence: 0 / 0 / 0 cases)",
]
ASSUMPTIONS = [
    "strategies are pure functions of the class (the table); strategy objects compare equal iff they have the same table id",
    "factories list plain strategies only; shifts have one entry per child",
    "C04_set_empty_consistent, C04_empty_cache_truthful and the WHOLE of C04_stored_key / C04_stored_key_all_children "
    "(both halves: dropped => truly empty, kept => not (possibly_empty and empty)) are proved under the two table "
    "contracts of Searcher/Contracts.v (pe_contract T pack, sym_contract T) and for packets that carry strategies of "
    "the pack (packets_in; the oracle checks it on every real run); contract-free is only C04_stored_key_partial "
    "(labels of all children - or the first one for a symmetry call -, nothing dropped unless possibly_empty). The "
    "contracts were restated: the former pe_contract also bound symmetry strategies on empty classes and contradicted "
    "sym_contract there (C04_old_contracts_exclude_each_other). The documented contract alone (possibly_empty=False => "
    "no empty child of a NON-EMPTY parent) is not enough for a truthful cache: the searcher presents empty classes to "
    "non-symmetry strategies (foreign parents, first child of an inferral rule): C04_documented_contracts_insufficient_refuted",
    "composition theorems C04_search_gives_add_hist / C04_adds_made_under_add_pre additionally assume sym_unary "
    "(symmetry rules are unary) and twoway_faithful for the table's rule objects (decidable sufficient condition "
    "items_plainb: no factory item names a verification strategy); extra_checks reports how many generated cases "
    "satisfy all of them",
]
TECHNIQUE = "Coq proof (invariant over the whole run of a fuel-indexed model, any table / packets / is_verified answers) + extracted-model/implementation trace correspondence"

ERRCODE = {"KeyError": 1, "IndexError": 6, "StrategyDoesNotApply": 7}
BUCKETS = None


def _buckets():
    global BUCKETS
    if BUCKETS is None:
        from comb_spec_searcher.typing import RuleBucket

        BUCKETS = [RuleBucket.REVERSE, RuleBucket.NORMAL, RuleBucket.EQUIV, RuleBucket.VERIFICATION]
    return BUCKETS


# ----------------------------------------------------------------- universes
def norm_flags(st):
    """flags of the strategy OBJECT table.py builds for this kind"""
    f = st["flags"]
    if st["kind"] == "V":
        return [int(bool(f[0])), 0, 0, 0]
    if st["kind"] == "Y":
        return [0, 0, 0, 0]
    return [int(bool(x)) for x in f]


def queue_pack(u):
    """the strategies the work queue may hand out in a packet (`pack` of Searcher/Contracts.v)"""
    p = u["pack"]
    return list(p["initial"]) + list(p["inferral"]) + [s for x in p["expansion"] for s in x]


def applied_sids(u):
    """strategies whose rules go through add_rule (`applied` of Searcher/Contracts.v): handed out by the queue,
    verification strategies, and what the factories among them yield"""
    handed = set(queue_pack(u)) | set(u["pack"]["ver"])
    out = set(handed)
    for s0 in handed:
        st = u["strats"][s0]
        if st["kind"] == "F":
            for items in st["apply"].values():
                out.update(it["sid"] for it in items)
    return out


def pe_contract(u):
    """Searcher/Contracts.v pe_contract (decided there by pe_contractb; extra_checks compares the two on every
    universe): a possibly_empty=False strategy has no empty child on a NON-EMPTY class (every strategy, symmetries
    included), and none on an empty class either if its rules go through add_rule"""
    em = u["empty"]
    app = applied_sids(u)
    for sid, st in enumerate(u["strats"]):
        if st["kind"] == "F":
            continue
        if norm_flags(st)[2]:
            continue
        for cs, e in st["apply"].items():
            if (not em[int(cs)] or sid in app) and any(em[k] for k in e["children"]):
                return False
    return True


def sym_contract(u):
    """the first child of every rule a symmetry of the pack yields on a class is empty iff the class is"""
    em = u["empty"]
    for sid in u["pack"]["sym"]:
        for c in range(u["ncls"]):
            for (s2, p) in yields(u, sid, c):
                e = u["strats"][s2]["apply"].get(str(p))
                if e and e["children"] and em[e["children"][0]] != em[c]:
                    return False
    return True


def sym_unary(u):
    """Searcher/Contracts.v sym_unary: a rule a symmetry yields has exactly one child (hypothesis of the composition
    theorems C04_search_gives_add_hist / C14_search_stored_rules_handed_back / C02_search_find_rule_total)"""
    for sid in u["pack"]["sym"]:
        for c in range(u["ncls"]):
            for (s2, p) in yields(u, sid, c):
                e = u["strats"][s2]["apply"].get(str(p))
                if e is not None and len(e["children"]) != 1:
                    return False
    return True


def items_plain(u):
    """Searcher/Contracts.v items_plainb: no factory item names a verification strategy"""
    for st in u["strats"]:
        if st["kind"] == "F":
            for items in st["apply"].values():
                if any(u["strats"][it["sid"]]["kind"] == "V" for it in items):
                    return False
    return True


def arity_contract(u):
    """rules of inferral strategies and of symmetries have at least one child (the code indexes [0])"""
    for sid in list(u["pack"]["sym"]) + list(u["pack"]["inferral"]):
        for c in range(u["ncls"]):
            for (s2, p) in yields(u, sid, c):
                e = u["strats"][s2]["apply"].get(str(p))
                if e is not None and not e["children"]:
                    return False
    return True


def strong_contract(u):
    """the hypothesis of C04_set_empty_consistent / C04_empty_cache_truthful / C04_stored_key: the SAME predicate as
    Searcher/Contracts.v contractsb T pack (pack = queue_pack(u)); extra_checks runs the extracted contractsb on
    every generated universe and compares"""
    return pe_contract(u) and sym_contract(u)


def make_strong(u):
    em = u["empty"]
    app = applied_sids(u)
    for sid, st in enumerate(u["strats"]):
        if st["kind"] == "F" or norm_flags(st)[2]:
            continue
        for cs in list(st["apply"]):
            e = st["apply"][cs]
            if (not em[int(cs)] or sid in app) and any(em[k] for k in e["children"]):
                del st["apply"][cs]
    return u


def yields(u, sid, c):
    """(sid, parent) of the rule objects pack strategy sid yields on class c (straight from the table)"""
    st = u["strats"][sid]
    if st["kind"] != "F":
        return [(sid, c)] if str(c) in st["apply"] else []
    out = []
    for it in st["apply"].get(str(c), []):
        h = u["strats"][it["sid"]]["apply"]
        if it["on"] is None:
            if str(c) in h:
                out.append((it["sid"], c))
        elif it.get("lazy") or str(it["on"]) in h:
            out.append((it["sid"], it["on"]))
    return out


def pack_sids(u):
    p = u["pack"]
    return list(p["initial"]) + list(p["inferral"]) + [s for x in p["expansion"] for s in x] + list(p["ver"]) + list(p["sym"])


def gen_universe(rng):
    from harness.universes import table as T
    from harness.universes import table_c04 as R

    x = rng.random()
    if x < 0.2:
        u = T.random_universe(rng, ncls=rng.randint(2, 3) if x < 0.06 else None)
        if rng.random() < 0.5:
            make_strong(u)
        return u
    return R.rich_universe(rng, ncls=rng.randint(2, 3) if x < 0.27 else None)


def gen(rng, tier):
    while True:
        u = gen_universe(rng)
        yield {
            "u": u,
            "db": rng.choice([0, 0, 1, 2, 3, 3]),
            "ev": rng.randint(0, 1),
            "comp": rng.randint(0, 1),
            "drv": 0 if rng.random() < 0.7 else 1,
        }


# ----------------------------------------------------------------- real run
class _Ctx:
    def __init__(self):
        self.events = []
        self.packets = []
        self.answers = []
        self.cur_parent = -1
        self.depth = 0
        self.limit_hits = 0
        self.pop_fills = 0      # emptiness-cache entries filled by RecomputingDict.pop (rolled back)
        self.pop_allocs = []    # classes RecomputingDict.pop gave a label to (rolled back)


def _sid(strategy):
    return getattr(strategy, "sid", -1)


def _run_real(case):
    """Run the real searcher on the case with logging wrappers. Returns (ctx, css, status, exception text)."""
    import logging

    import logzero

    logzero.loglevel(logging.ERROR)
    from comb_spec_searcher import CombinatorialSpecificationSearcher
    from comb_spec_searcher.class_queue import CSSQueue, DefaultQueue
    from comb_spec_searcher.exception import NoMoreClassesToExpandError, StrategyDoesNotApply
    from comb_spec_searcher.rule_db import RuleDB, RuleDBForest, RuleDBForgetStrategy
    from comb_spec_searcher.rule_db.forget import RecomputingDict
    from harness.universes import table as T

    ctx = _Ctx()
    ev = ctx.events
    u = copy.deepcopy(case["u"])
    u.pop("uid", None)
    u["uid"] = "c04-%d-%d" % (os.getpid(), len(T.UNIVERSES))
    uid = T.register(u)
    try:
        pack = T.make_pack(uid)

        class QueueProxy(CSSQueue):
            """forwards to a real DefaultQueue; only calls coming from outside are logged"""

            def __init__(self, pack):
                super().__init__(pack)
                self.q = DefaultQueue(pack)

            def add(self, label):
                ev.append([2, label])
                self.q.add(label)

            def set_not_inferrable(self, label):
                ev.append([3, label])
                self.q.set_not_inferrable(label)

            def set_verified(self, label):
                ev.append([10, label])
                self.q.set_verified(label)

            def set_stop_yielding(self, label):
                ev.append([4, label])
                self.q.set_stop_yielding(label)

            def _log(self, wp):
                ctx.packets.append([wp.label, [_sid(s) for s in wp.strategies], int(bool(wp.inferral))])
                return wp

            def do_level(self):
                for wp in self.q.do_level():
                    yield self._log(wp)

            def status(self):
                return self.q.status()

            def __next__(self):
                return self._log(next(self.q))

        class LogDict(dict):
            eqv = 0

            def __setitem__(self, key, value):
                ev.append([7, self.eqv, key[0], list(key[1]), _sid(value), ctx.cur_parent])
                super().__setitem__(key, value)

            # event 8 = a key really leaves the store (by pop or by del)
            def pop(self, key, *default):
                if key in self:
                    ev.append([8, key[0], list(key[1])])
                return super().pop(key, *default)

            def __delitem__(self, key):
                ev.append([8, key[0], list(key[1])])
                super().__delitem__(key)

        class LogRDict(RecomputingDict):
            eqv = 0

            def __setitem__(self, key, value):
                ev.append([7, self.eqv, key[0], list(key[1]), _sid(value), ctx.cur_parent])
                super().__setitem__(key, value)

            def __delitem__(self, key):
                ev.append([8, key[0], list(key[1])])
                super().__delitem__(key)

            def pop(self, key, *default):
                # (MutableMapping.pop ends in `del self[key]`, logged by __delitem__ above)
                # MutableMapping.pop reads self[key] first: RecomputingDict re-creates the rule by re-applying the
                # whole pack to the classes of the key.  Its side effects on the class database (emptiness cache
                # filled for children of candidate rules, and even NEW LABELS for foreign parents the searcher
                # never saw) are none of the searcher's doing: they are counted, reported and rolled back, so that
                # RuleDB and RuleDBForgetStrategy can be held against one model.
                cdb = self.classdb
                n0, em0 = len(cdb.comb_class_list), list(cdb.empty_list)
                try:
                    return super().pop(key, *default)
                except RuntimeError as ex:
                    if "Could not recompute" not in str(ex):
                        raise
                    ctx.limit_hits += 1          # recorded limitation of RecomputingDict (not C04's business)
                    self.rules.discard(self._flatten(key))
                    return default[0] if default else None
                finally:
                    if len(cdb.comb_class_list) > n0:
                        ctx.pop_allocs.extend(cdb.get_class(i).n for i in range(n0, len(cdb.comb_class_list)))
                        for k in [k for k, l in cdb.label_dict.items() if l >= n0]:
                            del cdb.label_dict[k]
                        del cdb.comb_class_list[n0:]
                    ctx.pop_fills += sum(1 for a, b in zip(em0, cdb.empty_list) if a is None and b is not None)
                    cdb.empty_list[:] = em0

        dbk = case["db"]
        if dbk == 0:
            ruledb = RuleDB()
            ruledb._rule_to_strategy = LogDict()
            ruledb._eqv_rule_to_strategy = LogDict()
            ruledb._eqv_rule_to_strategy.eqv = 1
        elif dbk == 1:
            ruledb = RuleDBForgetStrategy()
            ruledb._rule_to_strategy = LogRDict(only_equiv=False)
            ruledb._eqv_rule_to_strategy = LogRDict(only_equiv=True)
            ruledb._eqv_rule_to_strategy.eqv = 1
        else:
            ruledb = RuleDBForest(reverse=(dbk == 3))
            orig_key = ruledb.table_method.add_rule_key

            def add_rule_key(k):
                ev.append([9, k.parent, list(k.children), list(k.shifts), _buckets().index(k.bucket)])
                return orig_key(k)

            ruledb.table_method.add_rule_key = add_rule_key
        if dbk in (0, 1):
            eq = ruledb.equivdb
            o2, o1, ov = eq.add_two_way_edge, eq.add_one_way_edge, eq.set_verified

            edepth = [0]

            def _outer(code, fn):
                def w(*a):
                    if edepth[0] == 0:          # calls the database makes on itself are not observations
                        ev.append(code + list(a))
                    edepth[0] += 1
                    try:
                        return fn(*a)
                    finally:
                        edepth[0] -= 1
                return w

            two, one, ver = _outer([6, 1], o2), _outer([6, 0], o1), _outer([5], ov)

            eq.add_two_way_edge, eq.add_one_way_edge, eq.set_verified = two, one, ver

        orig_add = ruledb.add

        def add(start, ends, rule):
            ev.append([0, start, list(ends), _sid(rule.strategy), rule.comb_class.n])
            prev = ctx.cur_parent
            ctx.cur_parent = rule.comb_class.n
            try:
                return orig_add(start, ends, rule)
            finally:
                ctx.cur_parent = prev

        ruledb.add = add
        orig_isv = ruledb.is_verified

        def is_verified(label):
            a = orig_isv(label)
            ctx.answers.append(int(bool(a)))
            return a

        ruledb.is_verified = is_verified

        from comb_spec_searcher.class_db import ClassDB

        start = T.start_class(uid, bool(case["comp"]))
        classdb = ClassDB(type(start))
        o_ie, o_se = classdb.is_empty, classdb.set_empty

        def is_empty(comb_class, label=None):
            ctx.depth += 1
            try:
                return o_ie(comb_class, label)
            finally:
                ctx.depth -= 1

        def set_empty(key, empty=True):
            if ctx.depth == 0:
                ev.append([1, key, int(bool(empty))])
            return o_se(key, empty)

        classdb.is_empty, classdb.set_empty = is_empty, set_empty

        css, status, exc = None, 0, None
        try:
            # __new__ + __init__ so that the sets are readable when __init__ itself raises
            css = CombinatorialSpecificationSearcher.__new__(CombinatorialSpecificationSearcher)
            css.__init__(
                start, pack, ruledb=ruledb, classdb=classdb, classqueue=QueueProxy(pack),
                expand_verified=bool(case["ev"]),
            )
            if case["drv"] == 0:
                more, _ = css._expand_classes_for(1e9, None, 0, 0)
                if more:
                    status, exc = 50, "queue not exhausted"
            else:
                for _ in range(100000):
                    try:
                        css.do_level()
                    except NoMoreClassesToExpandError:
                        break
                else:
                    status, exc = 50, "do_level never ran dry"
        except (KeyError, IndexError, StrategyDoesNotApply) as ex:
            status, exc = ERRCODE[type(ex).__name__], "%s: %s" % (type(ex).__name__, ex)
        final = None
        if classdb is not None:
            classes = [classdb.get_class(i).n for i in range(len(classdb.comb_class_list))]
            empties = [-1 if e is None else int(bool(e)) for e in classdb.empty_list]
            final = {"classes": classes, "empties": empties}
            if css is not None:
                final["tried"] = sorted(getattr(css, "tried_to_verify", ()))
                final["symexp"] = sorted(getattr(css, "symmetry_expanded", ()))
                final["infexp"] = sorted(getattr(css, "inferral_expanded", ()))
            if dbk in (0, 1):
                final["nr"] = len(ruledb.rule_to_strategy)
                final["ne"] = len(ruledb.eqv_rule_to_strategy)
                final["already"] = []
            else:
                final["nr"] = final["ne"] = 0
                final["already"] = sorted(ruledb._already_empty)
        return ctx, css, status, exc, final
    finally:
        T.UNIVERSES.pop(uid, None)


def _enc_universe(u):
    strats = []
    for st in u["strats"]:
        kind = "SFVY".index(st["kind"])
        if st["kind"] == "F":
            items = [[int(c), [[it["sid"], -1 if it["on"] is None else it["on"], int(bool(it.get("lazy")))] for it in l]]
                     for c, l in st["apply"].items()]
            strats.append([kind, norm_flags(st), [], items])
        else:
            ap = [[int(c), list(e["children"]), int(bool(e["two_way"])), int(bool(e["reversible"])), list(e["shifts"])]
                  for c, e in st["apply"].items()]
            strats.append([kind, norm_flags(st), ap, []])
    return [list(u["empty"]), strats, list(u["pack"]["ver"]), list(u["pack"]["sym"])]


def encode(case):
    """the table + the packets and is_verified answers recorded from the real run"""
    u = case["u"]
    try:
        ctx, _css, _status, _exc, _final = _run_real(case)
    except BaseException:  # pylint: disable=broad-except
        # the real run died in an unforeseen way: impl() reports it; give the model an empty replay
        ctx = _Ctx()
    mode = {0: 0, 1: 0, 2: 1, 3: 2}[case["db"]]
    fuel = 2 * u["ncls"] + 12
    empty, strats, ver, sym = _enc_universe(u)
    return [[mode, case["ev"], case["drv"], fuel, u["start"]], empty, strats, ver, sym, ctx.packets, ctx.answers]


def impl(case):
    ctx, css, status, exc, final = _run_real(case)
    if status == 50:
        raise RuntimeError(exc)
    f = final
    out = [status, 0, ctx.events, f["classes"], f["empties"], f.get("tried", []), f.get("symexp", []),
           f.get("infexp", []), f["nr"], f["ne"], f["already"]]
    return {"out": out, "status": status, "exc": exc, "limit_hits": ctx.limit_hits,
            "pop_fills": ctx.pop_fills, "pop_allocs": ctx.pop_allocs,
            "npackets": len(ctx.packets), "nanswers": len(ctx.answers), "packets": ctx.packets}


# ----------------------------------------------------------------- oracle
def _rev_shifts(sh, i):
    p = -sh[i]
    return [p] + [s + p for j, s in enumerate(sh) if j != i]


def _expected_keys(u, case, classes, add, strong):
    """[parent label, child labels, shifts, bucket or None] of the forest keys RuleDBForest.add must insert"""
    _, start, ends, sid, parent = add
    if sid == -1:
        return [[start, [], [], 3]]
    ent = u["strats"][sid]["apply"].get(str(parent))
    if ent is None or any(k not in classes for k in ent["children"]):
        return [None] * 50
    em = u["empty"]
    kids, shifts = ent["children"], list(ent["shifts"])
    labs = [classes.index(k) for k in kids]
    isver = u["strats"][sid]["kind"] == "V"

    def bucket(cls_children, normal):
        if isver:
            return 3
        if not strong:
            return None
        ne = sum(1 for k in cls_children if not em[k])
        return 2 if ne == 1 else (1 if normal else 0)

    keys = [[start, labs, shifts, bucket(kids, True)]]
    if not isver and ent["reversible"] and case["db"] == 3:
        for i in range(len(kids)):
            keys.append([labs[i], [start] + labs[:i] + labs[i + 1:], _rev_shifts(shifts, i),
                         bucket([parent] + kids[:i] + kids[i + 1:], False)])
    return keys


def oracle(case, res):
    """The PROPERTY, decided on the logged behaviour straight from the table (never through the model)."""
    if "exception" in res:
        return "implementation raised " + res["exception"]
    u = case["u"]
    out = res["out"]
    status, events, classes = out[0], out[2], out[3]
    em = u["empty"]
    strong = strong_contract(u)
    symok = sym_contract(u)     # the only set_empty(.., True) the searcher issues is the one of _symmetry_expand
    if status != 0 and strong and arity_contract(u):
        return "the search died with %s on a universe honouring the contracts" % res.get("exc")
    # hypothesis packets_in of the contract theorems: the queue hands out strategies of the pack only
    qp = set(queue_pack(u))
    for pk in res.get("packets", []):
        if any(s_ not in qp for s_ in pk[1]):
            return "the work queue handed out packet %r with a strategy outside initial/inferral/expansion" % (pk,)
    # labels: equal classes share a label, different classes never do
    if len(set(classes)) != len(classes):
        return "two labels carry the same class: %r" % (classes,)
    nlab = len(classes)
    pack = set(pack_sids(u))
    produced = {}  # (sid, parent) -> True if some pack strategy yields it on some class
    for s in pack:
        for c in range(u["ncls"]):
            for y in yields(u, s, c):
                produced[y] = True
    symprod = set()
    for s in u["pack"]["sym"]:
        for c in range(u["ncls"]):
            symprod.update(yields(u, s, c))
    forest = case["db"] in (2, 3)
    empty_rule_for = {}
    last_add = None
    keystack = []
    nadds = 0
    init_empty = False
    for idx, e in enumerate(events):
        tag = e[0]
        if tag == 0:
            _, start, ends, sid, parent = e
            if not (0 <= start < nlab) or any(not (0 <= x < nlab) for x in ends):
                return "add event %r uses an unknown label" % (e,)
            if classes[start] != parent:
                return "rule of strategy %d with parent class %d recorded under label %d of class %d" % (
                    sid, parent, start, classes[start])
            last_add = e
            if forest:
                keystack.append([e, _expected_keys(u, case, classes, e, strong)])
            if sid == -1:
                if ends:
                    return "empty rule with children %r" % (e,)
                if not em[parent]:     # EmptyStrategy asks the class itself
                    return "empty rule recorded for the non-empty class %d" % parent
                nadds += 1
                if nadds == 1 and parent == u["start"] and start == 0:
                    # the searcher's own empty rule for an empty start class (every database); the forest
                    # database does not know about it (_already_empty), so it is not counted below
                    init_empty = True
                    continue
                if not forest:
                    return "empty rule added to a pruning database (not for the start class at start-up): %r" % (e,)
                if start in empty_rule_for:
                    return "label %d received the empty rule twice" % start
                empty_rule_for[start] = idx
                continue
            nadds += 1
            if em[u["start"]] and not init_empty:
                return "the empty start class was not given the empty rule before anything else was recorded: %r" % (e,)
            if (sid, parent) not in produced:
                return "recorded rule (strategy %d, class %d) is yielded by no strategy of the pack" % (sid, parent)
            ent = u["strats"][sid]["apply"].get(str(parent))
            if ent is None:
                return "a rule was recorded for strategy %d on class %d, to which it does not apply" % (sid, parent)
            kids = ent["children"]
            if len(kids) == 1 and kids[0] == parent:
                return "the self-equivalence %d -> (%d) of strategy %d was recorded" % (parent, parent, sid)
            got = [classes[x] for x in ends]
            if got != kids and not ((sid, parent) in symprod and got == kids[:1]):
                return "rule (strategy %d, class %d) has children %r but the recorded labels %r carry classes %r" % (
                    sid, parent, kids, ends, got)
            pe = norm_flags(u["strats"][sid])[2]
            if forest and pe:
                for c, l in zip(kids, ends):
                    if em[c] and l not in empty_rule_for and strong:
                        # the empty rule must come right after this call (the database adds it first)
                        nxt = [x for x in events[idx + 1: idx + 1 + 4 * len(kids) + 4]
                               if x[0] == 0 and x[3] == -1 and x[1] == l]
                        if not nxt:
                            return "empty child (class %d, label %d) of a possibly_empty rule never received its empty rule" % (c, l)
        elif tag == 1 and strong:
            _, l, v = e
            if not (0 <= l < nlab):
                return "set_empty on unknown label %r" % (e,)
            if int(bool(em[classes[l]])) != v:
                return "searcher called set_empty(label %d = class %d, %s) but the class is %s" % (
                    l, classes[l], bool(v), "empty" if em[classes[l]] else "not empty")
        elif tag == 7:
            _, eqv, start, ends, sid, parent = e
            if last_add is None or last_add[1] != start or last_add[3] != sid or last_add[4] != parent:
                return "store %r does not belong to the last add %r" % (e, last_add)
            if sid == -1:
                if ends or eqv:
                    return "the empty rule is stored as %r" % (e,)
                continue
            ent = u["strats"][sid]["apply"].get(str(parent))
            if ent is None:
                return "stored a rule of strategy %d on class %d, to which it does not apply" % (sid, parent)
            kids = ent["children"][: len(last_add[2])]
            labs = last_add[2]
            pe = norm_flags(u["strats"][sid])[2]
            if ends != sorted(ends):
                return "stored key %r is not sorted" % (e,)
            # which children were dropped: multiset difference
            rest = list(ends)
            dropped = []
            for c, l in zip(kids, labs):
                if l in rest:
                    rest.remove(l)
                else:
                    dropped.append((c, l))
            if rest:
                return "stored key %r has labels that are not children of the rule" % (e,)
            # a label kept fewer times than it occurs counts as dropped for the missing occurrences
            for c, l in dropped:
                if not pe:
                    return "child (class %d, label %d) dropped from the stored key although the rule is not possibly_empty" % (c, l)
                if not em[c] and symok:
                    return "child (class %d, label %d) dropped from the stored key although the class is not empty" % (c, l)
            if strong and pe:
                keptl = list(ends)
                for c, l in zip(kids, labs):
                    if em[c] and l in keptl:
                        return "empty child (class %d, label %d) of a possibly_empty rule kept in the stored key" % (c, l)
            want_eqv = int(len(ends) == 1 and bool(ent["two_way"]) and u["strats"][sid]["kind"] != "V")
            if eqv != want_eqv:
                return "rule stored in the %s store, expected the %s store: %r" % (
                    "equivalence" if eqv else "rule", "equivalence" if want_eqv else "rule", e)
        elif tag == 9:
            _, p, cs, sh, b = e
            while keystack and not keystack[-1][1]:
                keystack.pop()
            if not keystack:
                return "forest key %r belongs to no ruledb.add call" % (e,)
            want = keystack[-1][1].pop(0)
            if want is None:
                continue
            if [p, cs, sh] != want[:3]:
                return "forest key %r differs from the key %r of the rule added by %r" % (e, want[:3], keystack[-1][0])
            if want[3] is not None and b != want[3]:
                return "forest key %r has bucket %d, expected %d" % (e, b, want[3])
    if em[u["start"]] and status == 0 and not init_empty:
        return "the empty start class never received the empty rule"
    # no rule for a strategy that does not apply / every applicable plain rule of an expanded packet is recorded:
    # (completeness is not part of C04's statement; only checked through the model correspondence)
    return None


def _sym_on_empty(u):
    em = u["empty"]
    for sid in u["pack"]["sym"]:
        for c in range(u["ncls"]):
            if em[c] and any(u["strats"][s2]["apply"].get(str(p)) for (s2, p) in yields(u, sid, c)):
                return True
    return False


def features(case, res):
    """which mechanisms of the property the run exercised (from the table and the logged trace)"""
    out = res.get("out")
    feats = set()
    if not isinstance(out, list):
        return feats
    u = case["u"]
    events, classes = out[2], out[3]
    known = set(classes)
    symsids = set()
    for s in u["pack"]["sym"]:
        for c in range(u["ncls"]):
            symsids.update(yields(u, s, c))
    foreign, lazyfail = set(), False
    for st in u["strats"]:
        if st["kind"] != "F":
            continue
        for cs, items in st["apply"].items():
            if int(cs) not in known:
                continue
            for it in items:
                if it["on"] is not None and it["on"] != int(cs):
                    foreign.add((it["sid"], it["on"]))
                tgt = int(cs) if it["on"] is None else it["on"]
                if it.get("lazy") and str(tgt) not in u["strats"][it["sid"]]["apply"]:
                    lazyfail = True
    if lazyfail:
        feats.add("lazy_rule_does_not_apply")
    last = None
    ninf = 0
    first_add = next((x for x in events if x[0] == 0), None)
    for e in events:
        if e[0] == 0:
            last = e
            if e[3] == -1 and e is first_add and e[4] == u["start"]:
                feats.add("empty_start_rule")
            elif e[3] == -1:
                feats.add("empty_rule")
                feats.add("dropped_empty_child")
            elif (e[3], e[4]) in foreign:
                feats.add("foreign_parent")
            if e[3] >= 0 and (e[3], e[4]) in symsids:
                feats.add("symmetry_image")
        elif e[0] == 7 and last is not None and len(e[3]) < len(last[2]):
            feats.add("dropped_empty_child")
        elif e[0] == 3:
            ninf += 1
        elif e[0] == 8:
            feats.add("two_way_store")
    if ninf >= 3:
        feats.add("inferral_chain")
    for sid in set(pack_sids(u)):
        for c in known:
            for (s2, p) in yields(u, sid, c):
                ent = u["strats"][s2]["apply"].get(str(p))
                if ent and ent["children"] == [p]:
                    feats.add("self_equivalence_filtered")
    return feats


def nontrivial(case, res):
    out = res.get("out")
    if not isinstance(out, list) or out[0] != 0:
        return False
    adds = [e for e in out[2] if e[0] == 0]
    if len(out[3]) < 4 or len(adds) < 4:
        return False
    return bool(features(case, res) - {"two_way_store"})


def key(case):
    return json.dumps(case, sort_keys=True)


def classify(case, res):
    u = case["u"]
    tags = ["db=%d" % case["db"], "ev=%d" % case["ev"], "drv=%d" % case["drv"], "comp=%d" % case["comp"]]
    tags.append("contracts:" + ("strong" if strong_contract(u) else "sym-only" if sym_contract(u) else "none"))
    out = res.get("out")
    if isinstance(out, list):
        tags.append("status=%d" % out[0])
        n = sum(1 for e in out[2] if e[0] == 0)
        tags.append("adds<=5" if n <= 5 else "adds<=20" if n <= 20 else "adds>20")
        tags.extend(sorted(features(case, res)))
        if res.get("limit_hits"):
            tags.append("forget_limitation_hit")
        if res.get("pop_fills"):
            tags.append("forget_pop_filled_emptiness_cache")
        if res.get("pop_allocs"):
            tags.append("forget_pop_allocated_label")
    return tags


def shrink(case):
    u = case["u"]

    def with_u(v):
        c = dict(case)
        c["u"] = v
        return c

    p = u["pack"]
    for name in ("initial", "inferral", "ver", "sym"):
        for i in range(len(p[name])):
            v = copy.deepcopy(u)
            del v["pack"][name][i]
            yield with_u(v)
    for i in range(len(p["expansion"])):
        v = copy.deepcopy(u)
        del v["pack"]["expansion"][i]
        yield with_u(v)
        for j in range(len(p["expansion"][i])):
            v = copy.deepcopy(u)
            del v["pack"]["expansion"][i][j]
            yield with_u(v)
    for sid, st in enumerate(u["strats"]):
        for cs in list(st["apply"]):
            v = copy.deepcopy(u)
            del v["strats"][sid]["apply"][cs]
            yield with_u(v)
            if st["kind"] == "F":
                for j in range(len(st["apply"][cs])):
                    v = copy.deepcopy(u)
                    del v["strats"][sid]["apply"][cs][j]
                    yield with_u(v)
    for k in ("ev", "comp", "drv"):
        if case[k]:
            c = dict(case)
            c[k] = 0
            yield c


def _contract_bits(u, packets):
    qp = set(queue_pack(u))
    return [int(pe_contract(u)), int(sym_contract(u)), int(sym_unary(u)),
            int(all(s_ in qp for pk in packets for s_ in pk[1])), int(items_plain(u))]


def _compare_contracts(ctx):
    """the Python predicates above against the extracted decision procedures of Searcher/Contracts.v
    (run_c04, mode 100) on EVERY retained universe"""
    from harness import core

    binary = os.path.join(core.WORK, ID, "ocaml", "model")
    if not os.path.exists(binary):
        return ("contract predicates: harness vs Coq (extracted contractsb)", False, "no extracted model")
    encs, want = [], []
    for case, (r, _, _) in zip(ctx.cases, ctx.impl_res):
        u = case["u"]
        packets = r.get("packets", []) if isinstance(r, dict) else []
        empty, strats, ver, sym = _enc_universe(u)
        encs.append([[100, 0, 0, 0, 0], empty, strats, ver, sym, packets, [], queue_pack(u)])
        want.append(_contract_bits(u, packets))
    got = core.run_model(binary, encs)
    bad = [(i, w, g) for i, (w, g) in enumerate(zip(want, got)) if w != g]
    detail = "%d universes compared (pe, sym, sym_unary, packets_in, items_plain), %d disagree" % (len(encs), len(bad))
    if bad:
        i, w, g = bad[0]
        detail += "; first: python %r, coq %r, failing input %s" % (w, g, json.dumps(ctx.cases[i])[:400])
    return ("contract predicates: harness strong_contract == Coq contractsb on every universe", not bad, detail)


def extra_checks(ctx):
    """distribution facts that make the run meaningful"""
    res = [_compare_contracts(ctx)]
    tot = len(ctx.cases)
    nsymempty = sum(1 for c in ctx.cases if strong_contract(c["u"]) and _sym_on_empty(c["u"]))
    res.append(("strong universes with a symmetry entry on an EMPTY class (excluded by the former contracts)",
                nsymempty > 0 or tot < 200, "%d of %d" % (nsymempty, tot)))
    ncomp = sum(1 for c in ctx.cases if strong_contract(c["u"]) and sym_unary(c["u"]) and items_plain(c["u"]) and c["db"] in (0, 1))
    res.append(("pruning-database cases satisfying every hypothesis of C04_search_gives_add_hist", ncomp > 0 or tot < 200,
                "%d of %d" % (ncomp, tot)))
    nstrong = sum(1 for c in ctx.cases if strong_contract(c["u"]))
    res.append(("share of universes honouring the strong contract", nstrong > 0 or tot < 20, "%d of %d" % (nstrong, tot)))
    ndied = sum(1 for r, _, _ in ctx.impl_res if isinstance(r.get("out"), list) and r["out"][0] != 0)
    res.append(("searches that ended with an exception (weak universes only)", True, "%d of %d" % (ndied, tot)))
    na = sum(1 for r, _, _ in ctx.impl_res if r.get("pop_allocs"))
    nf = sum(1 for r, _, _ in ctx.impl_res if r.get("pop_fills"))
    nl = sum(1 for r, _, _ in ctx.impl_res if r.get("limit_hits"))
    res.append(("information: RuleDBForgetStrategy's RecomputingDict.pop had side effects on the class database "
                "(rolled back by the harness; not part of C04)", True,
                "new label allocated in %d cases, emptiness cache filled in %d cases, strategy not recomputable in %d cases"
                % (na, nf, nl)))
    return res


LEVEL_TEXT = (
    "Theorems C04_* (coq/theories/Props/C04.v) are invariants of the whole run of the searcher model "
    "(Searcher/Model.v), proved for every strategy table, start class, packet sequence, sequence of "
    "ruledb.is_verified answers, fuel, driver (_expand_classes_for / do_level), expand_verified setting and database "
    "mode (pruning databases, RuleDBForest with and without reverse rules). Contract-free: "
    "C04_recorded_from_table (every ruledb.add(start, ends, rule): the rule is yielded by SOME strategy of the table "
    "applied to a class the database knows - membership in the pack is decided by the oracle only -, the table has an "
    "entry for (strategy, parent), start is the label of the rule's PARENT, ends are the labels of the table's "
    "children in order - all, or the first one for a rule a symmetry yields; the only other rule is the empty rule, "
    "always under the label of a truly empty class - the theorem does not say under which database or when), "
    "C04_no_rule_when_not_applicable (no event for a strategy without table entry, also lazily through "
    "rule.children; the self-equivalence is never recorded), C04_labels / C04_labels_stable (different classes "
    "never share a label, a label never changes over later packets), C04_stored_key_partial (the key RuleDBBase "
    "stores is (label of the parent, sorted(selection of the labels of ALL children - of the first child for a "
    "symmetry call))); nothing is dropped unless the strategy is possibly_empty). Under the two table contracts of "
    "Searcher/Contracts.v (restated so that they are jointly satisfiable when a symmetry has an entry on an empty "
    "class: C04_old_contracts_exclude_each_other shows the former pair was not; decided by contractsb = the "
    "harness's strong_contract, compared on every generated universe) and for packets of pack strategies: "
    "C04_set_empty_consistent, C04_empty_cache_truthful, C04_stored_key and C04_stored_key_all_children (the "
    "children missing from a stored key are exactly the truly empty children of possibly_empty rules). Composition "
    "with C14 / C02: C04_search_gives_add_hist (the rule stores of every run on a pruning database are the key sets "
    "of a RuleDB reached by an add_hist history whose steps are, one by one, the trace's ruledb.add events, each "
    "made under add_pre in the class database of that moment; truthful cache) and C04_adds_made_under_add_pre. "
    "The model is tied to comb_spec_searcher.py / rule_db/base.py / rule_db/forest.py by exact equality of the "
    "whole event trace (ruledb.add calls, searcher-issued set_empty, queue calls, equivalence edges, store and pop "
    "operations on the two rule stores, forest keys incl. reverse keys with the REGENERATED reverse_shifts) and of "
    "the final class database, on real searches of table universes run to queue exhaustion; an independent Python "
    "oracle decides from the table: parent label, pack membership, child labels, dropped/kept children, store "
    "choice, forest keys, empty rules, set_empty truthfulness (strong universes only) - not label stability."
)
LEVEL_NOTE = (
    "Trusted: Coq kernel, extraction + OCaml driver, the logging wrappers. The work queue and is_verified are "
    "replayed inputs, not modelled here (C16/C06/C03 cover them); theorems quantify over all of them (the contract "
    "theorems over packets of pack strategies). Not proved: "
    "that every empty child of a possibly_empty rule receives the forest's empty rule exactly once per label, "
    "completeness (every rule the table yields for an expanded packet is recorded), any characterisation of "
    "forest keys / equivalence edges, that the yielding strategy belongs to the pack, and 'a dropped child is truly "
    "empty' under sym_contract alone - these are covered by the trace correspondence and the oracle only. "
    "C04_stored_key_partial is the contract-free part of C04_stored_key. A run that exhausts the model's fuel or "
    "dies with an exception is covered by the theorems up to that point; fuel exhaustion was never observed "
    "(fuel = 2*classes+12). Code quirk modelled as is: RuleDBBase.add's `if ends == [start]: return` compares a "
    "tuple with a list and never fires, so a rule p -> (p, empty child) is stored as the equivalence (p, (p,)). "
    "Real packs (word universes) are never run under C04."
)
