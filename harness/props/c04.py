"""C04 — the rule universe built by the searcher is faithful to the strategies."""
import copy
import itertools
import json
import os
import sys

ID = "C04"
TITLE = "searcher: every recorded rule is a strategy of the table applied to the class carrying the parent label"
COQ_PROPS = "Props/C04.v"
COQ_RUN = ("Searcher.Run", "run_c04")
GEN_TARGETS = ["reverse_shifts"]
N = {"quick": 20000, "thorough": 100000}
RULE = (
    "table universes (harness/universes/table.py, table_c04.py): 2-10 integer classes, 15% empty; packs with 0-4 "
    "inferral, 0-2 initial, 0-2 expansion sets, 1-2 verification strategies (25% with children), 0-2 symmetries; plain "
    "strategies with random flags (ignore_parent, inferrable, possibly_empty, workable), arity 1-3, repeated "
    "children, self-equivalences; factories yielding strategies, eager and lazy ready rules, rules with a "
    "foreign parent, ready rules of strategies that do not apply. About 83% of the universes satisfy the STRONG "
    "contract = Searcher/Contracts.v contractsb (a possibly_empty=False strategy has no empty child on a non-empty "
    "class, and none on an empty class either if its rules go through add_rule; symmetries preserve emptiness) - "
    "about 10% of all universes are strong AND have a symmetry entry on an empty class, which the former statement of "
    "the contracts excluded; the others only random_universe's weaker contract (an empty parent may have empty children "
    "under any strategy) or none, so the emptiness cache can be poisoned; ~1.5% of the start classes are empty (they "
    "get the empty rule and are not expanded). Hand-made corner cases come from harness/corpus/C04. Each "
    "universe is searched to queue exhaustion by the real CombinatorialSpecificationSearcher with RuleDB, "
    "RuleDBForgetStrategy, RuleDBForest(reverse=False/True), expand_verified on/off, classes stored "
    "compressed (to_bytes) or not, driven by _expand_classes_for or by do_level; the packets handed out by "
    "the real queue and the answers of ruledb.is_verified are recorded and replayed by the model. "
    "Non-trivial: >= 4 labels, >= 4 ruledb.add calls, and at least one of: a dropped empty child, a "
    "foreign-parent rule, a lazily failing rule, a filtered self-equivalence, a symmetry image, an inferral "
    "chain of length >= 2; distinct = distinct (universe, configuration). 15% of the cases (WORD_SHARE) are REAL WORD "
    "SEARCHES (harness/universes/words_c04.py): the 19 named packs of words_ext (symmetries, inferral, factories "
    "yielding strategies / ready rules / rules with a foreign parent, non-atom verification with packs, one-way rules, "
    "two expansion sets, products with >= 3 factors, iterative), the parametric ow3|... family, the 10 packs of "
    "words_c14, and 2 contrived packs whose factory yields a rule for an EMPTY foreign parent; random start classes "
    "(prefix 0-3, 0-3 patterns over 2-3 letters, 28 fixed specs incl. empty start classes); the four databases, "
    "expand_verified on/off, both drivers; the search is cut after 4-45 work packets (word universes are infinite). "
    "After the search the pack's strategies (and what its factories yield) are RE-APPLIED to every labelled class and "
    "every foreign parent (Tabulator04: children, is_two_way, is_reversible, shifts, the object's own flags, "
    "is_empty of every class) - that table + the recorded packets / is_verified answers go through run_c04, and the "
    "oracle decides from the same table. 12 + 4 hand-picked word searches are in harness/corpus/C04/words_*."
)
TRUSTED = [
    "modelled, not verified: comb_spec_searcher.py (__init__, try_verify, _expand, _rules_from_strategy, "
    "_expand_class_with_strategy, add_rule, _symmetry_expand, _inferral_expand, _expand_classes_for, do_level), "
    "rule_db/base.py (RuleDBBase.add, _clean_labels), rule_db/forest.py (RuleDBForest.add, _add_empty_rule) and "
    "Rule/ReverseRule/VerificationRule.forest_key — hand-written Gallina model Searcher/Model.v tied by this "
    "correspondence (exact equality of the whole event trace and of the final class database)",
    "the work queue and ruledb.is_verified are external to the model: their outputs are recorded from the real "
    "run and replayed; the theorems quantify over all packet sequences and all answer sequences",
    "the logging wrappers of this plugin (queue proxy, instance-level wrappers of ruledb.add / is_verified, "
    "classdb.set_empty / is_empty, equivdb edge methods, the two rule stores, table_method.add_rule_key)",
    "word searches reach the model and the oracle through a tabulation (harness/universes/words_c04.py Tabulator04 "
    "on top of words_c14.Tabulator): strategy ids follow StrategyPack.__iter__, strategies compare by type and ==, "
    "classes are numbered on first sight; a factory item is tabulated as an eagerly built ready rule (a real rule "
    "object computes its children lazily: on a class it does not apply to both are no-ops for the trace). What the "
    "tabulator could not express would be strategy.shifts / is_reversible raising (counted: never observed)",
    "the wrapper around RecomputingDict.pop (counts and rolls back side effects of a recomputation on the class "
    "database) is inert since fix e80f5df: RuleDBBase.add removes superseded one-way keys with `del`, which does "
    "not recompute (evidence: 0 / 0 / 0 cases)",
]
# measured values quoted in the strings (quick tier, seeds 0-2; extra_checks prints the numbers of the run)
W_STRONG = "56-58%"
W_PRUNED = "about 95%"
W_REST = "4-5%"
ASSUMPTIONS = [
    "strategies are pure functions of the class (the table); strategy objects compare equal iff they have the same table id",
    "factories list plain strategies only; shifts have one entry per child",
    "C04_dropped_only_if_empty (a child missing from a stored key is a child of a possibly_empty rule AND truly "
    "empty), C04_set_empty_true_truthful and C04_cache_empty_truthful_one_sided need sym_contract ALONE - in fact only "
    "its forward half sym_fwd (the image of an EMPTY class under a symmetry is empty) -, no pe_contract and no "
    "condition on the packets; sym_fwd is necessary and pe_contract cannot replace it "
    "(C04_dropped_only_if_empty_needs_sym_fwd, replayed on the real code: harness/corpus/C04/needs_sym_fwd-*). MEASURED "
    "on the real word searches of a quick run (seeds 0-2): sym_contract holds in 100% of them. "
    "C04_set_empty_consistent, C04_empty_cache_truthful (both directions) and the CONVERSE half of C04_stored_key / "
    "C04_stored_key_all_children (kept => not (possibly_empty and empty)) still need both table "
    "contracts of Searcher/Contracts.v (pe_contract T pack, sym_contract T) and packets that carry strategies of "
    "the pack (packets_in; the oracle checks it on every real run): C04_kept_although_empty_without_pe_contract shows "
    "pe_contract is needed for the converse. MEASURED on real word searches: the tabulated table honours the strong "
    "contract in " + W_STRONG + " of them; in " + W_PRUNED + " it does after the entries no run touched are removed "
    "(the tabulator applies every strategy to every labelled class, empty ones included; the searcher never presents an "
    "empty class to them) AND the model reproduces the real trace on the pruned table - so the contract theorems cover "
    "those runs; the rest (" + W_REST + ") are the two contrived packs, where clause (b) of pe_contract is exercised "
    "and violated by the run itself (set_empty(child, False) cached for an empty class). With the repo's own word "
    "packs clause (b) is never exercised by a run (0 searches). Contract-free is only C04_stored_key_partial "
    "(labels of all children - or the first one for a symmetry call -, nothing dropped unless possibly_empty). The "
    "contracts were restated: the former pe_contract also bound symmetry strategies on empty classes and contradicted "
    "sym_contract there (C04_old_contracts_exclude_each_other). The documented contract alone (possibly_empty=False => "
    "no empty child of a NON-EMPTY parent) is not enough for a truthful cache: the searcher presents empty classes to "
    "non-symmetry strategies (foreign parents, first child of an inferral rule): C04_documented_contracts_insufficient_refuted",
    "composition theorems C04_search_gives_add_hist / C04_adds_made_under_add_pre additionally assume sym_unary "
    "(symmetry rules are unary) and twoway_faithful for the table's rule objects (decidable sufficient condition "
    "items_plainb: no factory item names a verification strategy); extra_checks reports how many generated cases "
    "satisfy all of them",
]
TECHNIQUE = "Coq proof (invariant over the whole run of a fuel-indexed model, any table / packets / is_verified answers) + extracted-model/implementation trace correspondence"

ERRCODE = {"KeyError": 1, "IndexError": 6, "StrategyDoesNotApply": 7}
BUCKETS = None


def _buckets():
    global BUCKETS
    if BUCKETS is None:
        from comb_spec_searcher.typing import RuleBucket

        BUCKETS = [RuleBucket.REVERSE, RuleBucket.NORMAL, RuleBucket.EQUIV, RuleBucket.VERIFICATION]
    return BUCKETS


# ----------------------------------------------------------------- universes
def norm_flags(st):
    """flags of the strategy OBJECT table.py builds for this kind"""
    f = st["flags"]
    if st.get("raw"):        # tabulated REAL strategy (harness/universes/words_c04.py): the object's own flags
        return [int(bool(x)) for x in f]
    if st["kind"] == "V":
        return [int(bool(f[0])), 0, 0, 0]
    if st["kind"] == "Y":
        return [0, 0, 0, 0]
    return [int(bool(x)) for x in f]


def queue_pack(u):
    """the strategies the work queue may hand out in a packet (`pack` of Searcher/Contracts.v)"""
    p = u["pack"]
    return list(p["initial"]) + list(p["inferral"]) + [s for x in p["expansion"] for s in x]


def applied_sids(u):
    """strategies whose rules go through add_rule (`applied` of Searcher/Contracts.v): handed out by the queue,
    verification strategies, and what the factories among them yield"""
    handed = set(queue_pack(u)) | set(u["pack"]["ver"])
    out = set(handed)
    for s0 in handed:
        st = u["strats"][s0]
        if st["kind"] == "F":
            for items in st["apply"].values():
                out.update(it["sid"] for it in items)
    return out


def pe_contract(u):
    """Searcher/Contracts.v pe_contract (decided there by pe_contractb; extra_checks compares the two on every
    universe): a possibly_empty=False strategy has no empty child on a NON-EMPTY class (every strategy, symmetries
    included), and none on an empty class either if its rules go through add_rule"""
    em = u["empty"]
    app = applied_sids(u)
    for sid, st in enumerate(u["strats"]):
        if st["kind"] == "F":
            continue
        if norm_flags(st)[2]:
            continue
        for cs, e in st["apply"].items():
            if (not em[int(cs)] or sid in app) and any(em[k] for k in e["children"]):
                return False
    return True


def sym_contract(u):
    """the first child of every rule a symmetry of the pack yields on a class is empty iff the class is"""
    em = u["empty"]
    for sid in u["pack"]["sym"]:
        for c in range(u["ncls"]):
            for (s2, p) in yields(u, sid, c):
                e = u["strats"][s2]["apply"].get(str(p))
                if e and e["children"] and em[e["children"][0]] != em[c]:
                    return False
    return True


def sym_fwd(u):
    """Searcher/OneSidedDefs.v sym_fwd, the forward half of sym_contract (hypothesis of C04_dropped_only_if_empty_fwd,
    C04_set_empty_true_truthful, C04_cache_empty_truthful_one_sided): the first child of every rule a symmetry of
    the pack yields on an EMPTY class is empty"""
    em = u["empty"]
    for sid in u["pack"]["sym"]:
        for c in range(u["ncls"]):
            if not em[c]:
                continue
            for (s2, p) in yields(u, sid, c):
                e = u["strats"][s2]["apply"].get(str(p))
                if e and e["children"] and not em[e["children"][0]]:
                    return False
    return True


def sym_unary(u):
    """Searcher/Contracts.v sym_unary: a rule a symmetry yields has exactly one child (hypothesis of the composition
    theorems C04_search_gives_add_hist / C14_search_stored_rules_handed_back / C02_search_find_rule_total)"""
    for sid in u["pack"]["sym"]:
        for c in range(u["ncls"]):
            for (s2, p) in yields(u, sid, c):
                e = u["strats"][s2]["apply"].get(str(p))
                if e is not None and len(e["children"]) != 1:
                    return False
    return True


def items_plain(u):
    """Searcher/Contracts.v items_plainb: no factory item names a verification strategy"""
    for st in u["strats"]:
        if st["kind"] == "F":
            for items in st["apply"].values():
                if any(u["strats"][it["sid"]]["kind"] == "V" for it in items):
                    return False
    return True


def arity_contract(u):
    """rules of inferral strategies and of symmetries have at least one child (the code indexes [0])"""
    for sid in list(u["pack"]["sym"]) + list(u["pack"]["inferral"]):
        for c in range(u["ncls"]):
            for (s2, p) in yields(u, sid, c):
                e = u["strats"][s2]["apply"].get(str(p))
                if e is not None and not e["children"]:
                    return False
    return True


def strong_contract(u):
    """the hypothesis of C04_set_empty_consistent / C04_empty_cache_truthful / C04_stored_key: the SAME predicate as
    Searcher/Contracts.v contractsb T pack (pack = queue_pack(u)); extra_checks runs the extracted contractsb on
    every generated universe and compares"""
    return pe_contract(u) and sym_contract(u)


def make_strong(u):
    em = u["empty"]
    app = applied_sids(u)
    for sid, st in enumerate(u["strats"]):
        if st["kind"] == "F" or norm_flags(st)[2]:
            continue
        for cs in list(st["apply"]):
            e = st["apply"][cs]
            if (not em[int(cs)] or sid in app) and any(em[k] for k in e["children"]):
                del st["apply"][cs]
    return u


def yields(u, sid, c):
    """(sid, parent) of the rule objects pack strategy sid yields on class c (straight from the table)"""
    st = u["strats"][sid]
    if st["kind"] != "F":
        return [(sid, c)] if str(c) in st["apply"] else []
    out = []
    for it in st["apply"].get(str(c), []):
        h = u["strats"][it["sid"]]["apply"]
        if it["on"] is None:
            if str(c) in h:
                out.append((it["sid"], c))
        elif it.get("lazy") or str(it["on"]) in h:
            out.append((it["sid"], it["on"]))
    return out


def pack_sids(u):
    p = u["pack"]
    return list(p["initial"]) + list(p["inferral"]) + [s for x in p["expansion"] for s in x] + list(p["ver"]) + list(p["sym"])


def gen_universe(rng):
    from harness.universes import table as T
    from harness.universes import table_c04 as R

    x = rng.random()
    if x < 0.2:
        u = T.random_universe(rng, ncls=rng.randint(2, 3) if x < 0.06 else None)
        if rng.random() < 0.5:
            make_strong(u)
        return u
    return R.rich_universe(rng, ncls=rng.randint(2, 3) if x < 0.27 else None)


WORD_SHARE = float(os.environ.get("C04_WORD_SHARE", "0.15"))   # (the variable is for experiments: 1 = word searches only)


def gen_words(rng):
    """a REAL word search (harness/universes/words_c04.py): pack, start class, how many packets are processed"""
    from harness.universes import words_c04 as W4

    name = W4.random_pack_name(rng)
    x = rng.random()
    return {
        "words": {"pack": name, "start": W4.random_start(rng, name),
                  "maxp": rng.choice([4, 8, 12, 20, 30, 45])},
        "db": rng.choice([0, 0, 1, 2, 3, 3]),
        "ev": 1 if rng.random() < 0.35 else 0,
        "comp": 0,
        "drv": 0 if x < 0.7 else 1,
    }


def gen(rng, tier):
    while True:
        if rng.random() < WORD_SHARE:
            yield gen_words(rng)
            continue
        u = gen_universe(rng)
        yield {
            "u": u,
            "db": rng.choice([0, 0, 1, 2, 3, 3]),
            "ev": rng.randint(0, 1),
            "comp": rng.randint(0, 1),
            "drv": 0 if rng.random() < 0.7 else 1,
        }


# ----------------------------------------------------------------- real run
class _Ctx:
    def __init__(self):
        self.events = []
        self.packets = []
        self.answers = []
        self.cur_parent = -1
        self.depth = 0
        self.limit_hits = 0
        self.pop_fills = 0      # emptiness-cache entries filled by RecomputingDict.pop (rolled back)
        self.pop_allocs = []    # classes RecomputingDict.pop gave a label to (rolled back)
        self.capped = False     # word searches: the packet budget was reached
        self.via_add_rule = []  # per ruledb.add call: made by add_rule (1) or by _symmetry_expand (0)


def _sid_table(strategy):
    return getattr(strategy, "sid", -1)


def _run_real(case):
    """Run the real searcher on the case with logging wrappers. Returns (ctx, css, status, exception text)."""
    import logging

    import logzero

    logzero.loglevel(logging.ERROR)
    from comb_spec_searcher import CombinatorialSpecificationSearcher
    from comb_spec_searcher.class_queue import CSSQueue, DefaultQueue
    from comb_spec_searcher.exception import NoMoreClassesToExpandError, StrategyDoesNotApply
    from comb_spec_searcher.rule_db import RuleDB, RuleDBForest, RuleDBForgetStrategy
    from comb_spec_searcher.rule_db.forget import RecomputingDict
    from harness.universes import table as T

    ctx = _Ctx()
    ev = ctx.events
    words = case.get("words")
    uid = None
    if words:
        # a REAL word search: classes and strategies are numbered on first sight by the tabulator
        from harness.universes import words_c04 as W4

        w_pack = W4.make_pack(words["pack"])
        tab = W4.Tabulator04(w_pack)
        w_start = W4.start_class(words["start"])
        tab.cls(w_start)
        _sid, _cls, maxp = tab.sid, tab.cls, int(words["maxp"])
    else:
        _sid, _cls, maxp = _sid_table, (lambda c: c.n), None
        u = copy.deepcopy(case["u"])
        u.pop("uid", None)
        u["uid"] = "c04-%d-%d" % (os.getpid(), len(T.UNIVERSES))
        uid = T.register(u)
    try:
        pack = w_pack if words else T.make_pack(uid)

        class QueueProxy(CSSQueue):
            """forwards to a real DefaultQueue; only calls coming from outside are logged"""

            def __init__(self, pack):
                super().__init__(pack)
                self.q = DefaultQueue(pack)

            def add(self, label):
                ev.append([2, label])
                self.q.add(label)

            def set_not_inferrable(self, label):
                ev.append([3, label])
                self.q.set_not_inferrable(label)

            def set_verified(self, label):
                ev.append([10, label])
                self.q.set_verified(label)

            def set_stop_yielding(self, label):
                ev.append([4, label])
                self.q.set_stop_yielding(label)

            def _log(self, wp):
                if maxp is not None and len(ctx.packets) >= maxp:
                    ctx.capped = True       # word universes are infinite: the search is cut after maxp packets
                    raise StopIteration
                ctx.packets.append([wp.label, [_sid(s) for s in wp.strategies], int(bool(wp.inferral))])
                return wp

            def do_level(self):
                for wp in self.q.do_level():
                    try:
                        wp = self._log(wp)
                    except StopIteration:
                        return
                    yield wp

            def status(self):
                return self.q.status()

            def __next__(self):
                return self._log(next(self.q))

        class LogDict(dict):
            eqv = 0

            def __setitem__(self, key, value):
                ev.append([7, self.eqv, key[0], list(key[1]), _sid(value), ctx.cur_parent])
                super().__setitem__(key, value)

            # event 8 = a key really leaves the store (by pop or by del)
            def pop(self, key, *default):
                if key in self:
                    ev.append([8, key[0], list(key[1])])
                return super().pop(key, *default)

            def __delitem__(self, key):
                ev.append([8, key[0], list(key[1])])
                super().__delitem__(key)

        class LogRDict(RecomputingDict):
            eqv = 0

            def __setitem__(self, key, value):
                ev.append([7, self.eqv, key[0], list(key[1]), _sid(value), ctx.cur_parent])
                super().__setitem__(key, value)

            def __delitem__(self, key):
                ev.append([8, key[0], list(key[1])])
                super().__delitem__(key)

            def pop(self, key, *default):
                # (MutableMapping.pop ends in `del self[key]`, logged by __delitem__ above)
                # MutableMapping.pop reads self[key] first: RecomputingDict re-creates the rule by re-applying the
                # whole pack to the classes of the key.  Its side effects on the class database (emptiness cache
                # filled for children of candidate rules, and even NEW LABELS for foreign parents the searcher
                # never saw) are none of the searcher's doing: they are counted, reported and rolled back, so that
                # RuleDB and RuleDBForgetStrategy can be held against one model.
                cdb = self.classdb
                n0, em0 = len(cdb.comb_class_list), list(cdb.empty_list)
                try:
                    return super().pop(key, *default)
                except RuntimeError as ex:
                    if "Could not recompute" not in str(ex):
                        raise
                    ctx.limit_hits += 1          # recorded limitation of RecomputingDict (not C04's business)
                    self.rules.discard(self._flatten(key))
                    return default[0] if default else None
                finally:
                    if len(cdb.comb_class_list) > n0:
                        ctx.pop_allocs.extend(_cls(cdb.get_class(i)) for i in range(n0, len(cdb.comb_class_list)))
                        for k in [k for k, l in cdb.label_dict.items() if l >= n0]:
                            del cdb.label_dict[k]
                        del cdb.comb_class_list[n0:]
                    ctx.pop_fills += sum(1 for a, b in zip(em0, cdb.empty_list) if a is None and b is not None)
                    cdb.empty_list[:] = em0

        dbk = case["db"]
        if dbk == 0:
            ruledb = RuleDB()
            ruledb._rule_to_strategy = LogDict()
            ruledb._eqv_rule_to_strategy = LogDict()
            ruledb._eqv_rule_to_strategy.eqv = 1
        elif dbk == 1:
            ruledb = RuleDBForgetStrategy()
            ruledb._rule_to_strategy = LogRDict(only_equiv=False)
            ruledb._eqv_rule_to_strategy = LogRDict(only_equiv=True)
            ruledb._eqv_rule_to_strategy.eqv = 1
        else:
            ruledb = RuleDBForest(reverse=(dbk == 3))
            orig_key = ruledb.table_method.add_rule_key

            def add_rule_key(k):
                ev.append([9, k.parent, list(k.children), list(k.shifts), _buckets().index(k.bucket)])
                return orig_key(k)

            ruledb.table_method.add_rule_key = add_rule_key
        if dbk in (0, 1):
            eq = ruledb.equivdb
            o2, o1, ov = eq.add_two_way_edge, eq.add_one_way_edge, eq.set_verified

            edepth = [0]

            def _outer(code, fn):
                def w(*a):
                    if edepth[0] == 0:          # calls the database makes on itself are not observations
                        ev.append(code + list(a))
                    edepth[0] += 1
                    try:
                        return fn(*a)
                    finally:
                        edepth[0] -= 1
                return w

            two, one, ver = _outer([6, 1], o2), _outer([6, 0], o1), _outer([5], ov)

            eq.add_two_way_edge, eq.add_one_way_edge, eq.set_verified = two, one, ver

        orig_add = ruledb.add

        def add(start, ends, rule):
            ev.append([0, start, list(ends), _sid(rule.strategy), _cls(rule.comb_class)])
            ctx.via_add_rule.append(int(sys._getframe(1).f_code.co_name == "add_rule"))  # pylint: disable=protected-access
            prev = ctx.cur_parent
            ctx.cur_parent = _cls(rule.comb_class)
            try:
                return orig_add(start, ends, rule)
            finally:
                ctx.cur_parent = prev

        ruledb.add = add
        orig_isv = ruledb.is_verified

        def is_verified(label):
            a = orig_isv(label)
            ctx.answers.append(int(bool(a)))
            return a

        ruledb.is_verified = is_verified

        from comb_spec_searcher.class_db import ClassDB

        start = w_start if words else T.start_class(uid, bool(case["comp"]))
        classdb = ClassDB(type(start))
        o_ie, o_se = classdb.is_empty, classdb.set_empty

        def is_empty(comb_class, label=None):
            ctx.depth += 1
            try:
                return o_ie(comb_class, label)
            finally:
                ctx.depth -= 1

        def set_empty(key, empty=True):
            if ctx.depth == 0:
                ev.append([1, key, int(bool(empty))])
            return o_se(key, empty)

        classdb.is_empty, classdb.set_empty = is_empty, set_empty

        css, status, exc = None, 0, None
        try:
            # __new__ + __init__ so that the sets are readable when __init__ itself raises
            css = CombinatorialSpecificationSearcher.__new__(CombinatorialSpecificationSearcher)
            css.__init__(
                start, pack, ruledb=ruledb, classdb=classdb, classqueue=QueueProxy(pack),
                expand_verified=bool(case["ev"]),
            )
            if case["drv"] == 0:
                more, _ = css._expand_classes_for(1e9, None, 0, 0)
                if more:      # (a capped word search ends by StopIteration of the queue proxy: more is False)
                    status, exc = 50, "queue not exhausted"
            else:
                for _ in range(100000):
                    try:
                        css.do_level()
                    except NoMoreClassesToExpandError:
                        break
                    if ctx.capped:
                        break
                else:
                    status, exc = 50, "do_level never ran dry"
        except (KeyError, IndexError, StrategyDoesNotApply) as ex:
            status, exc = ERRCODE[type(ex).__name__], "%s: %s" % (type(ex).__name__, ex)
        final = None
        if classdb is not None:
            labelled = [classdb.get_class(i) for i in range(len(classdb.comb_class_list))]
            classes = [_cls(c) for c in labelled]
            empties = [-1 if e is None else int(bool(e)) for e in classdb.empty_list]
            final = {"classes": classes, "empties": empties}
            if css is not None:
                final["tried"] = sorted(getattr(css, "tried_to_verify", ()))
                final["symexp"] = sorted(getattr(css, "symmetry_expanded", ()))
                final["infexp"] = sorted(getattr(css, "inferral_expanded", ()))
            if dbk in (0, 1):
                final["nr"] = len(ruledb.rule_to_strategy)
                final["ne"] = len(ruledb.eqv_rule_to_strategy)
                final["already"] = []
            else:
                final["nr"] = final["ne"] = 0
                final["already"] = sorted(ruledb._already_empty)
        if words and final is not None:
            # the strategies of the pack (and what its factories yield) RE-APPLIED to every labelled class and to
            # every foreign parent: the table the model replays on and the oracle decides from
            final["u"] = tab.universe(w_start, labelled)
            final["limits"] = dict(tab.limits)
        return ctx, css, status, exc, final
    finally:
        if uid is not None:
            T.UNIVERSES.pop(uid, None)


def _enc_universe(u):
    strats = []
    for st in u["strats"]:
        kind = "SFVY".index(st["kind"])
        if st["kind"] == "F":
            items = [[int(c), [[it["sid"], -1 if it["on"] is None else it["on"], int(bool(it.get("lazy")))] for it in l]]
                     for c, l in st["apply"].items()]
            strats.append([kind, norm_flags(st), [], items])
        else:
            ap = [[int(c), list(e["children"]), int(bool(e["two_way"])), int(bool(e["reversible"])), list(e["shifts"])]
                  for c, e in st["apply"].items()]
            strats.append([kind, norm_flags(st), ap, []])
    return [list(u["empty"]), strats, list(u["pack"]["ver"]), list(u["pack"]["sym"])]


def universe_of(case, res=None):
    """the strategy table of a case: given (table universes) or tabulated from the real strategies after the real
    search (word universes: res["u"]); None when a word search died before anything could be tabulated"""
    if "u" in case:
        return case["u"]
    return res.get("u") if isinstance(res, dict) else None


EMPTY_U = {"ncls": 1, "empty": [0], "strats": [], "pack": {"initial": [], "inferral": [], "expansion": [], "ver": [], "sym": []},
           "start": 0}


def encode_with(case, res):
    """the table + the packets and is_verified answers recorded from the real run (impl's result)"""
    u = universe_of(case, res)
    packets, answers = res.get("packets", []), res.get("answers", [])
    if u is None:
        # the real run died in an unforeseen way: impl() reports it; give the model an empty replay
        u, packets, answers = EMPTY_U, [], []
    mode = {0: 0, 1: 0, 2: 1, 3: 2}[case["db"]]
    fuel = 2 * u["ncls"] + 12
    empty, strats, ver, sym = _enc_universe(u)
    return [[mode, case["ev"], case["drv"], fuel, u["start"]], empty, strats, ver, sym, packets, answers]


def encode(case):
    """(kept for callers without an impl result: runs the real search once more)"""
    return encode_with(case, impl(case))


def impl(case):
    ctx, css, status, exc, final = _run_real(case)
    if status == 50:
        raise RuntimeError(exc)
    f = final
    out = [status, 0, ctx.events, f["classes"], f["empties"], f.get("tried", []), f.get("symexp", []),
           f.get("infexp", []), f["nr"], f["ne"], f["already"]]
    res = {"out": out, "status": status, "exc": exc, "limit_hits": ctx.limit_hits,
           "pop_fills": ctx.pop_fills, "pop_allocs": ctx.pop_allocs,
           "npackets": len(ctx.packets), "nanswers": len(ctx.answers), "packets": ctx.packets,
           "answers": ctx.answers, "via_add_rule": ctx.via_add_rule}
    if "words" in case:
        res["u"] = f.get("u")
        res["limits"] = f.get("limits", {})
        res["capped"] = int(ctx.capped)
    return res


# ----------------------------------------------------------------- oracle
def _rev_shifts(sh, i):
    p = -sh[i]
    return [p] + [s + p for j, s in enumerate(sh) if j != i]


def _expected_keys(u, case, classes, add, strong):
    """[parent label, child labels, shifts, bucket or None] of the forest keys RuleDBForest.add must insert"""
    _, start, ends, sid, parent = add
    if sid == -1:
        return [[start, [], [], 3]]
    ent = u["strats"][sid]["apply"].get(str(parent))
    if ent is None or any(k not in classes for k in ent["children"]):
        return [None] * 50
    em = u["empty"]
    kids, shifts = ent["children"], list(ent["shifts"])
    labs = [classes.index(k) for k in kids]
    isver = u["strats"][sid]["kind"] == "V"

    def bucket(cls_children, normal):
        if isver:
            return 3
        if not strong:
            return None
        ne = sum(1 for k in cls_children if not em[k])
        return 2 if ne == 1 else (1 if normal else 0)

    keys = [[start, labs, shifts, bucket(kids, True)]]
    if not isver and ent["reversible"] and case["db"] == 3:
        for i in range(len(kids)):
            keys.append([labs[i], [start] + labs[:i] + labs[i + 1:], _rev_shifts(shifts, i),
                         bucket([parent] + kids[:i] + kids[i + 1:], False)])
    return keys


def oracle(case, res):
    """The PROPERTY, decided on the logged behaviour straight from the table (never through the model)."""
    if "exception" in res:
        return "implementation raised " + res["exception"]
    u = universe_of(case, res)
    if u is None:
        return "the word search left nothing to tabulate: %r" % (res.get("exc"),)
    out = res["out"]
    if "words" in case:
        why = _word_oracle(case, res, u)
        if why:
            return why
    status, events, classes = out[0], out[2], out[3]
    em = u["empty"]
    strong = strong_contract(u)
    # the only set_empty(.., True) the searcher issues is the one of _symmetry_expand: under sym_fwd ALONE (no
    # pe_contract) whatever the cache / a set_empty call / a dropped child says "empty" about IS empty
    # (C04_dropped_only_if_empty_fwd, C04_set_empty_true_truthful, C04_cache_empty_truthful_one_sided)
    symok = sym_fwd(u)
    if symok:
        for i, (c, e_) in enumerate(zip(classes, out[4])):
            if e_ == 1 and not em[c]:
                return "the emptiness cache says EMPTY for label %d = class %d, which is not empty" % (i, c)
    if status != 0 and strong and arity_contract(u):
        return "the search died with %s on a universe honouring the contracts" % res.get("exc")
    # hypothesis packets_in of the contract theorems: the queue hands out strategies of the pack only
    qp = set(queue_pack(u))
    for pk in res.get("packets", []):
        if any(s_ not in qp for s_ in pk[1]):
            return "the work queue handed out packet %r with a strategy outside initial/inferral/expansion" % (pk,)
    # labels: equal classes share a label, different classes never do
    if len(set(classes)) != len(classes):
        return "two labels carry the same class: %r" % (classes,)
    nlab = len(classes)
    pack = set(pack_sids(u))
    produced = {}  # (sid, parent) -> True if some pack strategy yields it on some class
    for s in pack:
        for c in range(u["ncls"]):
            for y in yields(u, s, c):
                produced[y] = True
    symprod = set()
    for s in u["pack"]["sym"]:
        for c in range(u["ncls"]):
            symprod.update(yields(u, s, c))
    forest = case["db"] in (2, 3)
    empty_rule_for = {}
    last_add = None
    keystack = []
    nadds = 0
    init_empty = False
    for idx, e in enumerate(events):
        tag = e[0]
        if tag == 0:
            _, start, ends, sid, parent = e
            if not (0 <= start < nlab) or any(not (0 <= x < nlab) for x in ends):
                return "add event %r uses an unknown label" % (e,)
            if classes[start] != parent:
                return "rule of strategy %d with parent class %d recorded under label %d of class %d" % (
                    sid, parent, start, classes[start])
            last_add = e
            if forest:
                keystack.append([e, _expected_keys(u, case, classes, e, strong)])
            if sid == -1:
                if ends:
                    return "empty rule with children %r" % (e,)
                if not em[parent]:     # EmptyStrategy asks the class itself
                    return "empty rule recorded for the non-empty class %d" % parent
                nadds += 1
                if nadds == 1 and parent == u["start"] and start == 0:
                    # the searcher's own empty rule for an empty start class (every database); the forest
                    # database does not know about it (_already_empty), so it is not counted below
                    init_empty = True
                    continue
                if not forest:
                    return "empty rule added to a pruning database (not for the start class at start-up): %r" % (e,)
                if start in empty_rule_for:
                    return "label %d received the empty rule twice" % start
                empty_rule_for[start] = idx
                continue
            nadds += 1
            if em[u["start"]] and not init_empty:
                return "the empty start class was not given the empty rule before anything else was recorded: %r" % (e,)
            if (sid, parent) not in produced:
                return "recorded rule (strategy %d, class %d) is yielded by no strategy of the pack" % (sid, parent)
            ent = u["strats"][sid]["apply"].get(str(parent))
            if ent is None:
                return "a rule was recorded for strategy %d on class %d, to which it does not apply" % (sid, parent)
            kids = ent["children"]
            if len(kids) == 1 and kids[0] == parent:
                return "the self-equivalence %d -> (%d) of strategy %d was recorded" % (parent, parent, sid)
            got = [classes[x] for x in ends]
            if got != kids and not ((sid, parent) in symprod and got == kids[:1]):
                return "rule (strategy %d, class %d) has children %r but the recorded labels %r carry classes %r" % (
                    sid, parent, kids, ends, got)
            pe = norm_flags(u["strats"][sid])[2]
            if forest and pe:
                for c, l in zip(kids, ends):
                    if em[c] and l not in empty_rule_for and strong:
                        # the empty rule must come right after this call (the database adds it first)
                        nxt = [x for x in events[idx + 1: idx + 1 + 4 * len(kids) + 4]
                               if x[0] == 0 and x[3] == -1 and x[1] == l]
                        if not nxt:
                            return "empty child (class %d, label %d) of a possibly_empty rule never received its empty rule" % (c, l)
        elif tag == 1 and (strong or (symok and e[2] == 1)):
            _, l, v = e
            if not (0 <= l < nlab):
                return "set_empty on unknown label %r" % (e,)
            if int(bool(em[classes[l]])) != v:
                return "searcher called set_empty(label %d = class %d, %s) but the class is %s" % (
                    l, classes[l], bool(v), "empty" if em[classes[l]] else "not empty")
        elif tag == 7:
            _, eqv, start, ends, sid, parent = e
            if last_add is None or last_add[1] != start or last_add[3] != sid or last_add[4] != parent:
                return "store %r does not belong to the last add %r" % (e, last_add)
            if sid == -1:
                if ends or eqv:
                    return "the empty rule is stored as %r" % (e,)
                continue
            ent = u["strats"][sid]["apply"].get(str(parent))
            if ent is None:
                return "stored a rule of strategy %d on class %d, to which it does not apply" % (sid, parent)
            kids = ent["children"][: len(last_add[2])]
            labs = last_add[2]
            pe = norm_flags(u["strats"][sid])[2]
            if ends != sorted(ends):
                return "stored key %r is not sorted" % (e,)
            # which children were dropped: multiset difference
            rest = list(ends)
            dropped = []
            for c, l in zip(kids, labs):
                if l in rest:
                    rest.remove(l)
                else:
                    dropped.append((c, l))
            if rest:
                return "stored key %r has labels that are not children of the rule" % (e,)
            # a label kept fewer times than it occurs counts as dropped for the missing occurrences
            for c, l in dropped:
                if not pe:
                    return "child (class %d, label %d) dropped from the stored key although the rule is not possibly_empty" % (c, l)
                if not em[c] and symok:
                    return "child (class %d, label %d) dropped from the stored key although the class is not empty" % (c, l)
            if strong and pe:
                keptl = list(ends)
                for c, l in zip(kids, labs):
                    if em[c] and l in keptl:
                        return "empty child (class %d, label %d) of a possibly_empty rule kept in the stored key" % (c, l)
            want_eqv = int(len(ends) == 1 and bool(ent["two_way"]) and u["strats"][sid]["kind"] != "V")
            if eqv != want_eqv:
                return "rule stored in the %s store, expected the %s store: %r" % (
                    "equivalence" if eqv else "rule", "equivalence" if want_eqv else "rule", e)
        elif tag == 9:
            _, p, cs, sh, b = e
            while keystack and not keystack[-1][1]:
                keystack.pop()
            if not keystack:
                return "forest key %r belongs to no ruledb.add call" % (e,)
            want = keystack[-1][1].pop(0)
            if want is None:
                continue
            if [p, cs, sh] != want[:3]:
                return "forest key %r differs from the key %r of the rule added by %r" % (e, want[:3], keystack[-1][0])
            if want[3] is not None and b != want[3]:
                return "forest key %r has bucket %d, expected %d" % (e, b, want[3])
    if em[u["start"]] and status == 0 and not init_empty:
        return "the empty start class never received the empty rule"
    # no rule for a strategy that does not apply / every applicable plain rule of an expanded packet is recorded:
    # (completeness is not part of C04's statement; only checked through the model correspondence)
    return None


def pe_measure(u, out, via=None):
    """How much clause (b) of Searcher/Contracts.v pe_contract matters on this universe - decided from the table
    (for word universes: from the real strategies re-applied to every labelled class and foreign parent).
      a_violated      entries of possibly_empty=False strategies on a NON-EMPTY class with an empty child (the
                      documented contract broken)
      b_instances     entries of possibly_empty=False strategies whose rules go through add_rule (`applied`) on an
                      EMPTY class: the situations clause (b) speaks about
      b_violated      ... of which with an empty child: clause (b) broken (pe_contract false although (a) may hold)
      b_run_instances ruledb.add calls of the real run for such an entry made by add_rule (via[i] = the i-th
                      ruledb.add call came from CombinatorialSpecificationSearcher.add_rule, not from
                      _symmetry_expand; recorded by the logging wrapper) - clause (b) exercised
      b_run_violated  ... of which with an empty child: the searcher cached set_empty(child, False) for an empty class"""
    em = u["empty"]
    app = applied_sids(u)
    m = {"a_violated": 0, "b_instances": 0, "b_violated": 0, "b_run_instances": 0, "b_run_violated": 0}
    binst = {}
    for sid, st in enumerate(u["strats"]):
        if st["kind"] == "F" or norm_flags(st)[2]:
            continue
        for cs, e in st["apply"].items():
            bad = any(em[k] for k in e["children"])
            if not em[int(cs)]:
                m["a_violated"] += int(bad)
            elif sid in app:
                m["b_instances"] += 1
                m["b_violated"] += int(bad)
                binst[(sid, int(cs))] = bad
    if isinstance(out, list) and via is not None:
        adds = [e for e in out[2] if e[0] == 0]
        for e, through_add_rule in zip(adds, via):
            if through_add_rule and (e[3], e[4]) in binst:
                m["b_run_instances"] += 1
                m["b_run_violated"] += int(binst[(e[3], e[4])])
    return m


def _word_oracle(case, res, u):
    """What only a word case can get wrong: the tabulation itself. The generic oracle below then decides the
    property from the tabulated table (= the pack's strategies re-applied to every labelled class directly)."""
    out = res["out"]
    classes = out[3]
    if any(not (0 <= c < u["ncls"]) for c in classes):
        return "a labelled class has no row in the tabulated table"
    if classes and classes[0] != u["start"]:
        return "label 0 does not carry the start class"
    if case["db"] in (2, 3) and any(res.get("limits", {}).values()):
        # strategy.shifts / is_reversible raised while tabulating: the forest keys cannot be predicted
        return None
    return None


def _word_checks(ctx):
    """MEASURED on the real word searches of this run: how often the hypotheses of the contract theorems hold on
    real packs, how often clause (b) of pe_contract is needed / violated"""
    idx = [i for i, c in enumerate(ctx.cases) if "words" in c]
    n = len(idx)
    tot = len(ctx.cases)
    res = [("share of REAL word searches (tabulated and replayed by the model)", n > 0 or tot < 200,
            "%d of %d cases" % (n, tot))]
    if not n:
        return res
    agg = {"strong": 0, "sym": 0, "unary": 0, "a_viol": 0, "b_inst": 0, "b_viol": 0, "b_run": 0, "b_run_viol": 0,
           "b_inst_n": 0, "b_viol_n": 0, "capped": 0, "limits": 0, "died": 0, "adds": 0, "labels": 0, "packs": set(),
           "forest": 0, "nontable": 0}
    for i in idx:
        case, r = ctx.cases[i], ctx.impl_res[i][0]
        u = universe_of(case, r)
        out = r.get("out") if isinstance(r, dict) else None
        if u is None or not isinstance(out, list):
            agg["nontable"] += 1
            continue
        m = pe_measure(u, out, r.get("via_add_rule"))
        agg["strong"] += int(strong_contract(u))
        agg["sym"] += int(sym_contract(u))
        agg["unary"] += int(sym_unary(u))
        agg["a_viol"] += int(m["a_violated"] > 0)
        agg["b_inst"] += int(m["b_instances"] > 0)
        agg["b_viol"] += int(m["b_violated"] > 0)
        agg["b_inst_n"] += m["b_instances"]
        agg["b_viol_n"] += m["b_violated"]
        agg["b_run"] += int(m["b_run_instances"] > 0)
        agg["b_run_viol"] += int(m["b_run_violated"] > 0)
        agg["capped"] += int(bool(r.get("capped")))
        agg["limits"] += int(any(r.get("limits", {}).values()))
        agg["died"] += int(out[0] != 0)
        agg["adds"] += sum(1 for e in out[2] if e[0] == 0)
        agg["labels"] += len(out[3])
        agg["packs"].add(case["words"]["pack"].split("|")[0])
        agg["forest"] += int(case["db"] in (2, 3))
    res.append(("word searches: every one tabulated (strategies re-applied to all labelled classes and foreign parents)",
                agg["nontable"] == 0, "%d of %d not tabulated; %d packs; %d ruledb.add calls, %d labels in total; %d under "
                "RuleDBForest; %d cut at the packet budget; %d died; tabulator limits (shifts / is_reversible raised) hit in %d"
                % (agg["nontable"], n, len(agg["packs"]), agg["adds"], agg["labels"], agg["forest"], agg["capped"],
                   agg["died"], agg["limits"])))
    res.append(("MEASURED coverage of the contract theorems on real packs: sym_contract (hypothesis of "
                "C04_dropped_only_if_empty) / strong contract = pe_contract + sym_contract (C04_stored_key, "
                "C04_set_empty_consistent, C04_empty_cache_truthful) / + sym_unary", True,
                "sym_contract %d, strong %d, strong+sym_unary %d of %d word searches" % (agg["sym"], agg["strong"], agg["unary"] and
                    sum(1 for i in idx if universe_of(ctx.cases[i], ctx.impl_res[i][0]) is not None
                        and strong_contract(universe_of(ctx.cases[i], ctx.impl_res[i][0]))
                        and sym_unary(universe_of(ctx.cases[i], ctx.impl_res[i][0]))), n)))
    res.append(("MEASURED clause (b) of pe_contract on real packs (possibly_empty=False strategy applied - through "
                "add_rule - to an EMPTY class)", True,
                "documented clause (a) violated in %d searches; clause (b) has instances in %d searches (%d entries), "
                "violated in %d searches (%d entries); exercised by the run itself (ruledb.add through add_rule for such an "
                "entry) in %d searches, violated there (set_empty(child, False) cached for an empty class) in %d"
                % (agg["a_viol"], agg["b_inst"], agg["b_inst_n"], agg["b_viol"], agg["b_viol_n"], agg["b_run"],
                   agg["b_run_viol"])))
    res.append(_pruned_replay(ctx, idx))
    return res


def prune_unpresented(u, out):
    """The tabulator applies EVERY strategy to EVERY labelled class, empty ones included, although the searcher
    rarely presents an empty class to a strategy; pe_contract's clause (b) then fails on entries no run touches.
    Drop the offending entries (possibly_empty=False, applied, EMPTY class, empty child) for which the real run made
    no ruledb.add call; whether the model still reproduces the real trace on the pruned table is CHECKED, not assumed."""
    em = u["empty"]
    app = applied_sids(u)
    added = {(e[3], e[4]) for e in out[2] if e[0] == 0}
    v = copy.deepcopy(u)
    for sid, st in enumerate(v["strats"]):
        if st["kind"] == "F" or norm_flags(st)[2] or sid not in app:
            continue
        for cs in list(st["apply"]):
            if em[int(cs)] and any(em[k] for k in st["apply"][cs]["children"]) and (sid, int(cs)) not in added:
                del st["apply"][cs]
    return v


def _pruned_replay(ctx, idx):
    from harness import core

    name = ("word searches failing pe_contract ONLY through never-presented entries: pruned table honours the strong "
            "contract AND the model reproduces the real trace on it (so the contract theorems do cover the run)")
    binary = os.path.join(core.WORK, ID, "ocaml", "model")
    if not os.path.exists(binary):
        return (name, False, "no extracted model")
    encs, outs = [], []
    nweak = 0
    for i in idx:
        case, r = ctx.cases[i], ctx.impl_res[i][0]
        u = universe_of(case, r)
        out = r.get("out") if isinstance(r, dict) else None
        if u is None or not isinstance(out, list) or strong_contract(u):
            continue
        nweak += 1
        v = prune_unpresented(u, out)
        if not strong_contract(v):
            continue
        r2 = dict(r)
        r2["u"] = v
        encs.append(encode_with(case, r2))
        outs.append(out)
    got = core.run_model(binary, encs) if encs else []
    same = sum(1 for o, g in zip(outs, got) if core.canon(o) == core.canon(g))
    return (name, same == len(encs),
            "%d word searches violate the strong contract as tabulated; %d honour it after pruning; the model reproduces "
            "the real trace on the pruned table in %d of those" % (nweak, len(encs), same))


def _sym_on_empty(u):
    em = u["empty"]
    for sid in u["pack"]["sym"]:
        for c in range(u["ncls"]):
            if em[c] and any(u["strats"][s2]["apply"].get(str(p)) for (s2, p) in yields(u, sid, c)):
                return True
    return False


def features(case, res):
    """which mechanisms of the property the run exercised (from the table and the logged trace)"""
    out = res.get("out")
    feats = set()
    if not isinstance(out, list):
        return feats
    u = universe_of(case, res)
    if u is None:
        return feats
    events, classes = out[2], out[3]
    known = set(classes)
    symsids = set()
    for s in u["pack"]["sym"]:
        for c in range(u["ncls"]):
            symsids.update(yields(u, s, c))
    foreign, lazyfail = set(), False
    for st in u["strats"]:
        if st["kind"] != "F":
            continue
        for cs, items in st["apply"].items():
            if int(cs) not in known:
                continue
            for it in items:
                if it["on"] is not None and it["on"] != int(cs):
                    foreign.add((it["sid"], it["on"]))
                tgt = int(cs) if it["on"] is None else it["on"]
                if it.get("lazy") and str(tgt) not in u["strats"][it["sid"]]["apply"]:
                    lazyfail = True
    if lazyfail:
        feats.add("lazy_rule_does_not_apply")
    last = None
    ninf = 0
    first_add = next((x for x in events if x[0] == 0), None)
    for e in events:
        if e[0] == 0:
            last = e
            if e[3] == -1 and e is first_add and e[4] == u["start"]:
                feats.add("empty_start_rule")
            elif e[3] == -1:
                feats.add("empty_rule")
                feats.add("dropped_empty_child")
            elif (e[3], e[4]) in foreign:
                feats.add("foreign_parent")
            if e[3] >= 0 and (e[3], e[4]) in symsids:
                feats.add("symmetry_image")
        elif e[0] == 7 and last is not None and len(e[3]) < len(last[2]):
            feats.add("dropped_empty_child")
        elif e[0] == 3:
            ninf += 1
        elif e[0] == 8:
            feats.add("two_way_store")
    if ninf >= 3:
        feats.add("inferral_chain")
    for sid in set(pack_sids(u)):
        for c in known:
            for (s2, p) in yields(u, sid, c):
                ent = u["strats"][s2]["apply"].get(str(p))
                if ent and ent["children"] == [p]:
                    feats.add("self_equivalence_filtered")
    return feats


def nontrivial(case, res):
    out = res.get("out")
    if not isinstance(out, list) or out[0] != 0:
        return False
    adds = [e for e in out[2] if e[0] == 0]
    if len(out[3]) < 4 or len(adds) < 4:
        return False
    return bool(features(case, res) - {"two_way_store"})


def key(case):
    return json.dumps(case, sort_keys=True)


def classify(case, res):
    u = universe_of(case, res)
    tags = ["db=%d" % case["db"], "ev=%d" % case["ev"], "drv=%d" % case["drv"], "comp=%d" % case["comp"]]
    tags.append("universe:" + ("words" if "words" in case else "table"))
    if u is None:
        return tags
    tags.append("contracts:" + ("strong" if strong_contract(u) else "sym-only" if sym_contract(u) else
                                "sym_fwd-only" if sym_fwd(u) else "none"))
    if "words" in case:
        # evidence: how often the theorems' hypotheses hold on REAL packs, and how often clause (b) of pe_contract
        # (no empty child on an EMPTY class either, for strategies whose rules go through add_rule) matters
        m = pe_measure(u, res.get("out"), res.get("via_add_rule"))
        tags.append("words:pack=" + case["words"]["pack"].split("|")[0])
        tags.append("words:contracts:" + ("strong" if strong_contract(u) else "sym-only" if sym_contract(u) else "none"))
        tags.append("words:pe_clause_a:" + ("violated" if m["a_violated"] else "holds"))
        tags.append("words:pe_clause_b:" + ("violated" if m["b_violated"] else "needed-and-holds" if m["b_instances"]
                                            else "vacuous"))
        if m["b_run_instances"]:
            tags.append("words:pe_clause_b:exercised-by-the-run")
        if m["b_run_violated"]:
            tags.append("words:pe_clause_b:violated-in-the-run")
        if res.get("capped"):
            tags.append("words:capped")
        if any(res.get("limits", {}).values()):
            tags.append("words:tabulator-limit")
    out = res.get("out")
    if isinstance(out, list):
        tags.append("status=%d" % out[0])
        n = sum(1 for e in out[2] if e[0] == 0)
        tags.append("adds<=5" if n <= 5 else "adds<=20" if n <= 20 else "adds>20")
        tags.extend(sorted(features(case, res)))
        if res.get("limit_hits"):
            tags.append("forget_limitation_hit")
        if res.get("pop_fills"):
            tags.append("forget_pop_filled_emptiness_cache")
        if res.get("pop_allocs"):
            tags.append("forget_pop_allocated_label")
    return tags


def shrink(case):
    if "words" in case:
        # a real word search: fewer packets, simpler configuration (the pack and the start class are not shrunk)
        w = case["words"]
        for m in (1, 2, 3, 4, 6, 8, 12, 20, 30):
            if m < w["maxp"]:
                c = copy.deepcopy(case)
                c["words"]["maxp"] = m
                yield c
        for k in ("ev", "drv"):
            if case[k]:
                c = dict(case)
                c[k] = 0
                yield c
        return
    u = case["u"]

    def with_u(v):
        c = dict(case)
        c["u"] = v
        return c

    p = u["pack"]
    for name in ("initial", "inferral", "ver", "sym"):
        for i in range(len(p[name])):
            v = copy.deepcopy(u)
            del v["pack"][name][i]
            yield with_u(v)
    for i in range(len(p["expansion"])):
        v = copy.deepcopy(u)
        del v["pack"]["expansion"][i]
        yield with_u(v)
        for j in range(len(p["expansion"][i])):
            v = copy.deepcopy(u)
            del v["pack"]["expansion"][i][j]
            yield with_u(v)
    for sid, st in enumerate(u["strats"]):
        for cs in list(st["apply"]):
            v = copy.deepcopy(u)
            del v["strats"][sid]["apply"][cs]
            yield with_u(v)
            if st["kind"] == "F":
                for j in range(len(st["apply"][cs])):
                    v = copy.deepcopy(u)
                    del v["strats"][sid]["apply"][cs][j]
                    yield with_u(v)
    for k in ("ev", "comp", "drv"):
        if case[k]:
            c = dict(case)
            c[k] = 0
            yield c


def _contract_bits(u, packets):
    qp = set(queue_pack(u))
    return [int(pe_contract(u)), int(sym_contract(u)), int(sym_unary(u)),
            int(all(s_ in qp for pk in packets for s_ in pk[1])), int(items_plain(u))]


def _compare_contracts(ctx):
    """the Python predicates above against the extracted decision procedures of Searcher/Contracts.v
    (run_c04, mode 100) on EVERY retained universe"""
    from harness import core

    binary = os.path.join(core.WORK, ID, "ocaml", "model")
    if not os.path.exists(binary):
        return ("contract predicates: harness vs Coq (extracted contractsb)", False, "no extracted model")
    encs, want = [], []
    for case, (r, _, _) in zip(ctx.cases, ctx.impl_res):
        u = universe_of(case, r) or EMPTY_U
        packets = r.get("packets", []) if isinstance(r, dict) else []
        empty, strats, ver, sym = _enc_universe(u)
        encs.append([[100, 0, 0, 0, 0], empty, strats, ver, sym, packets, [], queue_pack(u)])
        want.append(_contract_bits(u, packets) + [int(sym_fwd(u))])
    got = core.run_model(binary, encs)
    # mode 101: the decider of sym_fwd (Searcher/SymFwd.v sym_fwdb), hypothesis of the one-sided theorems
    got1 = core.run_model(binary, [[[101] + e[0][1:]] + e[1:] for e in encs])
    got = [list(g) + list(g1) if isinstance(g, list) and isinstance(g1, list) else [g, g1] for g, g1 in zip(got, got1)]
    bad = [(i, w, g) for i, (w, g) in enumerate(zip(want, got)) if w != g]
    detail = "%d universes compared (pe, sym, sym_unary, packets_in, items_plain, sym_fwd), %d disagree" % (len(encs), len(bad))
    if bad:
        i, w, g = bad[0]
        detail += "; first: python %r, coq %r, failing input %s" % (w, g, json.dumps(ctx.cases[i])[:400])
    return ("contract predicates: harness strong_contract == Coq contractsb, harness sym_fwd == Coq sym_fwdb on every universe",
            not bad, detail)


def extra_checks(ctx):
    """distribution facts that make the run meaningful"""
    res = [_compare_contracts(ctx)]
    res.extend(_word_checks(ctx))
    allc, allr = ctx.cases, ctx.impl_res
    keep = [i for i, c in enumerate(allc) if "u" in c]      # the table universes
    ctx = type("TableCases", (), {"cases": [allc[i] for i in keep], "impl_res": [allr[i] for i in keep]})()
    tot = len(ctx.cases)
    nsymempty = sum(1 for c in ctx.cases if strong_contract(c["u"]) and _sym_on_empty(c["u"]))
    res.append(("strong universes with a symmetry entry on an EMPTY class (excluded by the former contracts)",
                nsymempty > 0 or tot < 200, "%d of %d" % (nsymempty, tot)))
    ncomp = sum(1 for c in ctx.cases if strong_contract(c["u"]) and sym_unary(c["u"]) and items_plain(c["u"]) and c["db"] in (0, 1))
    res.append(("pruning-database cases satisfying every hypothesis of C04_search_gives_add_hist", ncomp > 0 or tot < 200,
                "%d of %d" % (ncomp, tot)))
    nstrong = sum(1 for c in ctx.cases if strong_contract(c["u"]))
    res.append(("share of universes honouring the strong contract", nstrong > 0 or tot < 20, "%d of %d" % (nstrong, tot)))
    ndied = sum(1 for r, _, _ in ctx.impl_res if isinstance(r.get("out"), list) and r["out"][0] != 0)
    res.append(("searches that ended with an exception (weak universes only)", True, "%d of %d" % (ndied, tot)))
    na = sum(1 for r, _, _ in ctx.impl_res if r.get("pop_allocs"))
    nf = sum(1 for r, _, _ in ctx.impl_res if r.get("pop_fills"))
    nl = sum(1 for r, _, _ in ctx.impl_res if r.get("limit_hits"))
    res.append(("information: RuleDBForgetStrategy's RecomputingDict.pop had side effects on the class database "
                "(rolled back by the harness; not part of C04)", True,
                "new label allocated in %d cases, emptiness cache filled in %d cases, strategy not recomputable in %d cases"
                % (na, nf, nl)))
    return res


LEVEL_TEXT = (
    "Theorems C04_* (coq/theories/Props/C04.v) are invariants of the whole run of the searcher model "
    "(Searcher/Model.v), proved for every strategy table, start class, packet sequence, sequence of "
    "ruledb.is_verified answers, fuel, driver (_expand_classes_for / do_level), expand_verified setting and database "
    "mode (pruning databases, RuleDBForest with and without reverse rules). Contract-free: "
    "C04_recorded_from_table (every ruledb.add(start, ends, rule): the rule is yielded by SOME strategy of the table "
    "applied to a class the database knows - membership in the pack is decided by the oracle only -, the table has an "
    "entry for (strategy, parent), start is the label of the rule's PARENT, ends are the labels of the table's "
    "children in order - all, or the first one for a rule a symmetry yields; the only other rule is the empty rule, "
    "always under the label of a truly empty class - the theorem does not say under which database or when), "
    "C04_no_rule_when_not_applicable (no event for a strategy without table entry, also lazily through "
    "rule.children; the self-equivalence is never recorded), C04_labels / C04_labels_stable (different classes "
    "never share a label, a label never changes over later packets), C04_stored_key_partial (the key RuleDBBase "
    "stores is (label of the parent, sorted(selection of the labels of ALL children - of the first child for a "
    "symmetry call))); nothing is dropped unless the strategy is possibly_empty). Under sym_contract ALONE (no "
    "pe_contract, no condition on the packets; in fact under its forward half sym_fwd: the image of an EMPTY class under "
    "a symmetry is empty): C04_dropped_only_if_empty / _fwd (the clause as worded: every child missing from a stored key "
    "of RuleDBBase is a child of a possibly_empty rule AND its class's own is_empty says empty - _clean_labels only "
    "consults is_empty for possibly_empty rules, and whatever the emptiness cache says EMPTY about is empty), "
    "C04_set_empty_true_truthful, C04_cache_empty_truthful_one_sided - carried through the run by the one-sided "
    "invariant EmptyOK1 of Searcher/OneSided*.v; sym_fwd is necessary and pe_contract cannot replace it "
    "(C04_dropped_only_if_empty_needs_sym_fwd, C04_dropped_only_if_empty_conclusion_fails_without_sym_fwd: a concrete "
    "run, replayed on the real code); sym_fwd is decided by the extracted sym_fwdb (C04_sym_fwd_decided; run_c04 mode "
    "101), compared with the harness's sym_fwd on every retained universe, tabulated word searches included. The converse (a truly empty child of a possibly_empty rule IS dropped) needs "
    "pe_contract (C04_kept_although_empty_without_pe_contract). Under the two table contracts of "
    "Searcher/Contracts.v (restated so that they are jointly satisfiable when a symmetry has an entry on an empty "
    "class: C04_old_contracts_exclude_each_other shows the former pair was not; decided by contractsb = the "
    "harness's strong_contract, compared on every generated universe) and for packets of pack strategies: "
    "C04_set_empty_consistent, C04_empty_cache_truthful, C04_stored_key and C04_stored_key_all_children (the "
    "children missing from a stored key are exactly the truly empty children of possibly_empty rules). Composition "
    "with C14 / C02: C04_search_gives_add_hist (the rule stores of every run on a pruning database are the key sets "
    "of a RuleDB reached by an add_hist history whose steps are, one by one, the trace's ruledb.add events, each "
    "made under add_pre in the class database of that moment; truthful cache) and C04_adds_made_under_add_pre. "
    "The model is tied to comb_spec_searcher.py / rule_db/base.py / rule_db/forest.py by exact equality of the "
    "whole event trace (ruledb.add calls, searcher-issued set_empty, queue calls, equivalence edges, store and pop "
    "operations on the two rule stores, forest keys incl. reverse keys with the REGENERATED reverse_shifts) and of "
    "the final class database, on real searches of table universes run to queue exhaustion AND (15% of the cases) "
    "on real word searches with the packs of words_ext / words_c14 (symmetries, inferral, factories incl. foreign "
    "parents, verification with packs, one-way rules, two expansion sets), cut after 4-45 packets, whose strategies "
    "are tabulated after the search (re-applied to every labelled class and foreign parent) and replayed by the model; "
    "an independent Python oracle decides from the table (for word searches: from that re-application): parent label, "
    "pack membership, child labels, dropped children (under sym_fwd alone) / kept children (strong universes), store "
    "choice, forest keys, empty rules, set_empty(.., True) and cache-says-empty truthfulness (under sym_fwd alone), "
    "set_empty truthfulness both ways (strong universes only) - not label stability. The hypotheses of the contract "
    "theorems are MEASURED on the real word searches (extra_checks / evidence tags words:*): sym_contract 100%; strong "
    "contract " + W_STRONG + " as tabulated, " + W_PRUNED + " after removing entries no run touched (checked: the model "
    "reproduces the real trace on the pruned table); clause (b) of pe_contract exercised by a run only in the two "
    "contrived packs (" + W_REST + " of the word searches), and violated there."
)
LEVEL_NOTE = (
    "Trusted: Coq kernel, extraction + OCaml driver, the logging wrappers. The work queue and is_verified are "
    "replayed inputs, not modelled here (C16/C06/C03 cover them); theorems quantify over all of them (the contract "
    "theorems over packets of pack strategies). Not proved: "
    "that every empty child of a possibly_empty rule receives the forest's empty rule exactly once per label, "
    "completeness (every rule the table yields for an expanded packet is recorded), any characterisation of "
    "forest keys / equivalence edges, and that the yielding strategy belongs to the pack - these are covered by the "
    "trace correspondence and the oracle only. "
    "C04_stored_key_partial is the contract-free part of C04_stored_key. A run that exhausts the model's fuel or "
    "dies with an exception is covered by the theorems up to that point; fuel exhaustion was never observed "
    "(fuel = 2*classes+12). Code quirk modelled as is: RuleDBBase.add's `if ends == [start]: return` compares a "
    "tuple with a list and never fires, so a rule p -> (p, empty child) is stored as the equivalence (p, (p,)). "
    "Word searches: the Tabulator is trusted (it re-applies the strategies; the model never sees a strategy object); "
    "a search is cut at a packet budget, never run to a specification; RuleDBForgetStrategy's recomputation side "
    "effects are rolled back as for tables. The theorems reach a word search only through its tabulated table: "
    "'strategies are pure functions of the class' is an assumption the tabulation relies on. With the repo's own word "
    "packs no run presents an empty class to a possibly_empty=False strategy through add_rule; only the contrived "
    "EmptyParentFactory does (there the searcher caches set_empty(child, False) for an empty class with real "
    "strategies - the phenomenon of C04_documented_contracts_insufficient_refuted; no alarm: the documented contract "
    "does not forbid the pack, and C04_dropped_only_if_empty still holds of those runs)."
)
