"""C12 — a constructed bijection is a size-preserving bijection with a true inverse."""
import copy
import json
import random
import signal

ID = "C12"
TITLE = "a constructed bijection is a size-preserving bijection with a true inverse"
COQ_PROPS = "Props/C12.v"
COQ_RUN = ("Iso.Run", "run_c12")
GEN_TARGETS = ["perm_inv"]
N = {"quick": 7000, "thorough": 20000}
CASE_CPU_SECONDS = 90
FUEL = 4000

RULE = (
    "five streams, one PRNG. (grammar, ~48%) pairs of HAND-BUILT specifications assembled directly from Rule objects "
    "over harness/universes/c12_grammars.py (classes = nonterminals of a finite productive grammar, objects = derivation "
    "trees, truth by brute force): a random grammar (2-9 nonterminals: atoms of size 0-3 incl. the empty word, unions and "
    "products of 1-4 children with repeated children, recursion through products, empty classes, finite non-atom verified "
    "leaves, unions whose strategy can never be an equivalence) and a second one derived by 0-5 edits that keep the "
    "classes isomorphic (children permuted / rotated, nonterminals renamed or duplicated, equivalence steps inserted on "
    "one side incl. ones with an empty sibling before or after, chains of two equivalence steps, one-child products, "
    "empty children added) or break it (atom size, union<->product, child dropped, reference redirected, never-"
    "equivalence flag flipped), or an independent grammar; each side with group_equiv on or off (collapsed / "
    "uncollapsed equivalence paths); a quarter of these are near misses with duplicated nonterminals. (templates, ~12%) "
    "randomly decorated instances of the shapes behind the repaired defects (the last of them, the asymmetry, fixed by 91c1aef): a match concluded under an ancestor "
    "pair that later fails and is looked up again (7890ace), a chained equivalence rule against a unary rule that is not "
    "an equivalence (e943cb6), a failed pair met again through other equivalence steps, and the shape of the asymmetry finding fixed by 91c1aef (two chains of four uncollapsed equivalence steps whose ends refer back to different classes of the chain, a candidate pair met inside and outside the pair in progress). (word, ~28%) pairs of "
    "specifications FOUND BY REAL SEARCHES over 22 word classes x 12 packs of harness/universes/words_ext.py "
    "(symmetries, inferral, factories, two expansion sets, one-way rules, letter-wise products with 3+ "
    "factors, a non-atom verification strategy) x RuleDB / RuleDBForgetStrategy / RuleDBForest with and without reverse "
    "rules: the same class twice, the class and its image under a letter exchange or a cyclic letter shift, or two "
    "classes; 12% of them through ParallelSpecFinder. (stat, ~8%) words with statistics (extra parameters) from "
    "words_objs.py, also the same words with other statistics. (equiv, 6%) Constructor.equiv alone on the four library "
    "constructor types with random parameter dictionaries. 11% of the constructed bijections are additionally sent "
    "through to_jsonable / json / from_dict and the RELOADED bijection is the one examined. Per case: "
    "Isomorphism(spec1, spec2), Bijection.construct, check(spec2, spec1), check(s, s) (required to be True on every "
    "specification whose NON-EMPTY verified classes are all atoms and that meets the other decided hypotheses of "
    "C12_check_reflexive_nonempty - about 99% of the searched specifications); for every size n <= N (N = 4..6, "
    "raised to the minimum size + 2) every object of both start classes (brute force) is mapped and mapped back. The "
    "model runs its own search on descriptors of the two specifications, runs the proved checker on the order map THE "
    "IMPLEMENTATION built and maps the parse trees of the objects (<= 36 per direction, spread over all sizes) with that order map; "
    "compared: found-or-not, checker verdict, every mapped tree, the ENTRIES of the order map the model's own search leaves "
    "against the real Bijection's (insertion order ignored), the verdicts wf_spec of both descriptors (Iso/Deciders.v "
    "wf_specb against Desc.wf) and the verdicts of the reflexivity hypotheses of both descriptors (Iso/DecidersRefl.v "
    "refl_hypsb against Desc.refl_hyps). Non-trivial: a bijection was constructed and >= 8 "
    "objects were mapped (equiv stream: >= 2 non-empty dictionaries); distinct = distinct case description."
)
TECHNIQUE = (
    "Coq proof over an executable Gallina model of isomorphism.py (Iso/Model.v; Bijection._perm_inv REGENERATED from the "
    "source by harness/translate.py on every run) + extracted-model/implementation correspondence on real and hand-built "
    "specifications + an independent brute-force oracle (bijectivity on the objects, symmetry, reflexivity)"
)
LEVEL_TEXT = (
    "Theorems of coq/theories/Props/C12.v (36, all closed under the global context). The model of the search takes a "
    "flag `exact` for the recursive-match test: true = /repo as it is since fix 91c1aef (_ancestors holds only the pair of "
    "current classes), false = the code before that fix (_ancestors held product(eq_path1, eq_path2); historic, run by no "
    "case); the harness detects which one the code under test implements (today: exact = true) and runs the model with "
    "it; every theorem mentioning `exact` is proved for both. For ALL "
    "pairs of specifications (finite maps class -> rule descriptor; wf_spec where stated: an equivalence rule has one, "
    "non-empty, child and equivalence chains end; products have no empty factor; roots not empty - decided on every "
    "specification of every run by the extracted model (wf_specb, C12_wf_spec_decided) and by the harness, compared), all objects given as WELL-FORMED PARSE TREES of any size - wf_tree has node formers "
    "for atoms, equivalence steps, unions (constructor tag 0) and products (tag 1) ONLY: a class whose rule is a "
    "Complement / Quotient (the reverse of a non-equivalence rule) or a user constructor has no well-formed tree and the "
    "tree theorems say nothing about objects passing through it (C12_scope, C12_nonequiv_reverse_no_tree); since fix "
    "25bcc90 Bijection.construct returns None over such a specification, modelled and characterised by C12_construct "
    "(a Bijection exactly when the test answers True and neither descriptor holds a non-equivalence Complement/Quotient "
    "rule): C12_perm_inv (_perm_inv of a "
    "permutation is its inverse - about the definition regenerated from the source); C12_transport_inverse (for ANY "
    "order map that is a valid certificate: map sends the well-formed parse trees of the first root onto those of the "
    "second, preserves size, inverse_map(map t) = t and map(inverse_map u) = u); C12_iso_cert (whenever the search with "
    "_ancestors / _order_map / _failed / stack / blacklist / the clean-up of 7890ace / the test of e943cb6 answers True, "
    "the order map it leaves is a valid certificate); C12_constructed_bijection; C12_check_cert_sound; "
    "C12_wf_spec_decided (wf_specb = true -> wf_spec) and C12_transport_inverse_decided (C12_transport_inverse with its "
    "three hypotheses replaced by the verdicts run_c12 prints for the case: wf_specb of both descriptors, check_cert of "
    "the real order map); "
    "C12_cert_symmetric; C12_search_complete (the search never answers False when the roots are related by a relation "
    "whose pairs pass the search's own local test with the children paired into related pairs); C12_ctor_equiv_sym / "
    "_refl; TERMINATION: C12_search_terminates (for every fuel >= number of pairs of classes + a bound on the stack "
    "elements of one loop + 2 the search answers), C12_fuel_irrelevant (every run that answers gives the same answer "
    "and state), C12_check_answers (on closed specifications no exception: True or False); SYMMETRY: C12_symmetric and "
    "C12_check_symmetric (exact = true: check(s1, s2) = check(s2, s1) for ALL specifications, chained equivalence rules "
    "included, no fuel), C12_symmetric_flat / C12_check_symmetric_flat (both tests, specifications without chained "
    "equivalence rules), C12_symmetric_refuted (exact = false, i.e. the code BEFORE 91c1aef: two well-formed specifications with check True "
    "one way and False the other - the finding fixed by 91c1aef, findings/C12_asymmetric_check.py; a witness of the old "
    "code only); "
    "REFLEXIVITY: C12_reflexive_atoms, C12_check_reflexive (no fuel) - under eq_wf, every rule with children is a Rule "
    "with a non-empty child, closed on non-empty children, the root has a rule, childless rules are atoms; "
    "C12_reflexive_never_false (two of these hypotheses); REFLEXIVITY UP TO EMPTY CLASSES: "
    "C12_check_reflexive_nonempty (no fuel) / C12_reflexive_nonempty (explicit fuel) - the same conclusion "
    "check(s, s) = True with every one of those hypotheses asked for the NON-EMPTY classes only (plus: the root is not "
    "empty): the search only descends into the non-empty children of a rule, so the EmptyStrategy rules (childless, "
    "not atoms) that every searched specification holds for its empty classes do not matter; both are instances of "
    "C12_reflexive_visited (hypotheses asked on any set of classes that holds the root and is closed under 'non-empty "
    "child of'; all classes = C12_reflexive_atoms); C12_check_reflexive_decided (refl_hypsb s = true -> check(s, s) = "
    "True: the hypotheses are decided on the descriptor of EVERY specification of every case by the extracted run, "
    "Iso/DecidersRefl.v, and recomputed by the harness, the two compared); "
    "C12_check_true_bijection (no fuel: when check answers True the bijection constructed from the terminating run is "
    "a size-preserving bijection with a true inverse). "
    "OBJECTS (Iso/ParseTreesIso.v + the development Count/ParseTrees*.v shared with C07 and C08): per specification the "
    "objects come in C07's vocabulary (rules with forward/backward maps, atoms, the bijection contracts node_ok, closed, "
    "productivity certificate) and `idescribes` says that the descriptor read by isomorphism.py and that specification "
    "describe the same rules. C12_parse_trees_coincide: wf_tree and the well-formed trees of C07/C08 coincide through "
    "`emb` in both directions, with the same object (iunparse = backward maps applied bottom-up to the tuples, as "
    "ParseTreeMap.map_rec does) and the same size. C12_transport_inverse_objects (any valid certificate, e.g. a reloaded "
    "order map that passed check_cert) and C12_constructed_bijection_objects (construct returned a Bijection): "
    "Bijection.map on OBJECTS = parse in the first specification (forward maps), the tree transport, unparse in the second "
    "(backward maps) is a size-preserving bijection from the objects of the first root ONTO the objects of the second "
    "with inverse_map as inverse in both directions. Examples: exA/exB with the words a^k as objects meet every "
    "hypothesis; the model maps 'aa' to 'aa' and back; a specification with a Complement rule is isomorphic to itself "
    "but construct refuses."
)
LEVEL_NOTE = (
    "FIXED FINDING (known_findings.json asymmetric-check-with-chained-equivalences, kind fixed, commit 91c1aef): before that "
    "commit the test was NOT symmetric on specifications with chained (uncollapsed) equivalence rules; "
    "C12_symmetric_refuted is the model's witness of the old code, findings/C12_asymmetric_check.py the repro (also with "
    "the default group_equiv=True), findings/C12_asymmetric_check.diff the repair that was committed. /repo now implements "
    "exact = true: the harness detects it (exact_mode() = 1), runs the model with it on every case (quiet, 0 mismatches "
    "on 21 000 cases) and the full symmetry theorem C12_symmetric applies; nothing is masked any more (finding_match "
    "answers only for exact_mode() = 0 and core masks only `open` entries), so ANY asymmetry is reported. "
    "C12_symmetric_partial, C12_symmetric_flat and the exact = false half of the 'for both' theorems are kept as statements "
    "about the old code: for exact = false on chained specifications only the certificate-level symmetry holds. The fuel-free statements still quantify the parse-tree maps over 'every fuel above some bound' (the bound "
    "exists for every tree; it is not computed). Objects: the theorems *_objects reduce 'objects <-> well-formed parse "
    "trees one to one' to the strategies' forward/backward-map contracts (C07_objects_are_parse_trees; user-code "
    "hypotheses, for derived forms theorems C07_equivalence_contract / C07_path_contract) and `idescribes` (descriptor = "
    "specification: a per-instance fact; since the deciders of Iso/DecidersObjects.v the harness builds the C07 descriptor "
    "of the SAME specification with c07.py's own function and the extracted run decides idescribes + rank + closed on "
    "the pair, on every case). The extracted model still maps TREES: obj_map / iunparse / emb are not "
    "run against the code; per case the model's tree map is compared with the trees of bij.map(o) / bij.inverse_map(o) on "
    "<= 36 objects per direction (Desc.tree = iparse), parse/unparse themselves by the C07 check, and the full brute-force "
    "bijectivity on all objects of sizes <= nmax is the oracle's (independent of the model). The descriptor reading of "
    "construct's guard (non-equivalence Rule with tag 2/3) is compared with the code's own test on every case. "
    "REFLEXIVITY up to empty classes (CLAUSES.md C12 (c)1): before, theorem and oracle asked 'every verified class is an "
    "atom' of ALL rules, the EmptyStrategy rules of the empty classes included, which holds on about 5% of the searched "
    "specifications (262 of 5030, seed 0); C12_check_reflexive_nonempty asks it of the non-empty classes only (the search never reads the rule "
    "of an empty class: Iso/ReflOn.v) and covers 5004 of 5028 / 5097 of 5116 / 5178 of 5200 searched specifications "
    "(seeds 0, 1, 2; the rest hold a NON-EMPTY verified class that is not an atom, on which the test is not claimed "
    "reflexive), decided per specification by the extracted refl_hypsb and by Desc.refl_hyps (compared), and the oracle "
    "requires check(s, s) = True on each of them. Mutants that keep the 45 repo tests green and break reflexivity only in "
    "the presence of empty children - empties kept on the second side only (first of >= 3 children; second of >= 4 "
    "children), child count taken before filtering (rules with >= 2 empty children; rules with >= 4 children) - are all "
    "reported as a non-reflexive test with the specification as failing input (first on a hand-built grammar or a "
    "searched specification, whichever comes first); the variants for >= 4 children make check(s, s) False on a searched "
    "specification in 80-90 of 387 word / statistics cases, of which the old gating ('all verified classes are atoms') "
    "would have looked at a specification in 1; corpus case 12 pins one such searched specification. "
    "Not claimed: reflexivity on a specification with an EMPTY root (check(s, s) is False there: two childless non-atoms) "
    "or with a non-empty non-atom verified class. "
    "Outside the model: NonBijectiveRule / index data (no constructor of the library returns data), _path_tracker "
    "(never read), specifications with non-equivalence reverse rules (no bijection is constructed over them since "
    "25bcc90; a constructed bijection whose map raises NotImplementedError is an oracle failure). False NEGATIVES of the test (e.g. "
    "uncollapsed equivalence chains of different parity, non-atom verified classes) are symmetric, not claimed by the "
    "property and not reported. Modelled not verified: isomorphism.py, Constructor.equiv / extra_params_equiv - tied by "
    "the correspondence; a change of check's answers that keeps every returned bijection correct (e.g. equiv ignoring "
    "parameters) is reported as a broken correspondence without failing input."
)
TRUSTED = [
    "translator harness/translate.py for Bijection._perm_inv (Gen/PermInv.v; list display, list * int and item assignment "
    "were added to its subset for this target; Gen/PreludeSeq.v holds py_list_mul / py_setitem)",
    "modelled, not verified: comb_spec_searcher/isomorphism.py (Isomorphism, ParseTreeMap, Bijection.map/inverse_map), "
    "strategies/constructor/base.py extra_params_equiv and the four equiv methods - hand-written Gallina model "
    "Iso/Model.v tied by this correspondence",
    "the descriptor of a specification (labels, isinstance(rule, Rule), children, is_equivalence(), constructor type and "
    "extra_parameters, is_atom, minimum object size and terms, is_empty) and the object <-> parse tree conversion "
    "(rule.forward_map / indexed_backward_map / _min_object) are computed by harness/props/c12.py",
    "user code: classes, strategies and their object maps (harness/universes/c12_grammars.py, words_ext.py, words_objs.py, "
    "/repo/example.py)",
]
ASSUMPTIONS = [
    "wf_spec for both specifications (decided per specification by the extracted run - Iso/Deciders.v wf_specb, sound by "
    "C12_wf_spec_decided - AND by the harness, the two verdicts compared on every case; a failure only tags the case "
    "'hypothesis-fails:*' / 'thm:C12_transport_inverse_decided:not_covered(wf_spec)' in the input distribution - nothing "
    "fails on it, the case is then covered by the oracle alone; extra_checks `covered_by_theorem` counts the constructed "
    "bijections on which wf_spec of both descriptors and check_cert of the real order map hold)",
    "valid_cert of the order map the REAL code built: decided by check_cert in the extracted run on every constructed "
    "bijection (also the JSON-reloaded ones); the harness expects 1, so a 0 is reported as a mismatch "
    "(C12_check_cert_sound, C12_transport_inverse_decided). C12_constructed_bijection(_objects) speak of the order map "
    "the MODEL's search leaves: its entries are compared with the real order map on every constructed bijection",
    "*_objects: node_ok / closed / rank certificate of C07_objects_are_parse_trees for both specifications, idescribes "
    "(labels are >= 0; atoms' sizes; same children; every other class has no well-formed tree), the roots have rules. "
    "idescribes, closed and the existence of a rank certificate are DECIDED on every case for both specifications: the "
    "harness builds the C07 descriptors of the same specifications (c07.py _rule_desc, Desc's labels), run_c12 decides "
    "them (idescribesb, rankb, closedb; C12_idescribes_decided, C12_transport_inverse_objects_decided), the harness "
    "recomputes the verdicts, extra_checks counts the constructed bijections covered (about 94%; the others are the "
    "specifications with statistics: StatAtom leaves have no leaf in the C07 descriptor). node_ok (bijection contracts of "
    "the strategies' maps) is NOT decided and stays a hypothesis",
    "reflexivity (C12_check_reflexive_nonempty): eq_wf; the root is not empty and has a rule; every NON-EMPTY childless "
    "(verified) class is an atom; every non-empty class with children has a Rule with a non-empty child; every "
    "non-empty child of a non-empty class has a rule. DECIDED per specification on every case (refl_hypsb in the "
    "extracted run = Desc.refl_hyps, compared; tag thm:C12_check_reflexive_nonempty:covered / not_covered(reason)); on "
    "every covered specification the oracle REQUIRES Isomorphism.check(s, s) to be True; extra_checks "
    "`covered_by_theorem C12_check_reflexive_nonempty: k of n searched specifications` has a floor of 0.95 (the "
    "uncovered ones hold a non-empty verified class that is not an atom, where the test is not claimed reflexive). "
    "is_empty is the class's own answer (trusted user code): a class wrongly declared empty is skipped by the real "
    "search and by the theorem alike",
    "strategies honour the bijection contract of forward_map / backward_map and is_empty / is_atom are exact "
    "(indirectly, through the oracle's bijectivity check on the objects of sizes <= nmax of every case with a bijection)",
    "rules are plain Rule / EquivalenceRule / EquivalencePathRule / ReverseRule-of-equivalence / VerificationRule "
    "(no NonBijectiveRule); atoms have exactly one object",
]

ERR = {"KeyError": 1, "IndexError": 2, "AssertionError": 5, "RuntimeError": 6}


def _G():
    from harness.universes import c12_grammars

    return c12_grammars


# The finding "asymmetric-check-with-chained-equivalences" (fixed by 91c1aef): the pair of findings/C12_asymmetric_check.py
ASYM_G1 = [["u", [1, 2]], ["u", [3]], ["u", [3, 1]], ["u", [4]], ["u", [5]], ["u", [6]], ["u", [7, 8]], ["a", "b"],
           ["p", [9, 3]], ["a", "a"]]
ASYM_G2 = [["u", [1, 2]], ["u", [2, 3]], ["u", [3]], ["u", [4]], ["u", [5]], ["u", [6]], ["u", [7, 8]], ["a", "b"],
           ["p", [9, 2]], ["a", "a"]]
KF_ASYM = "asymmetric-check-with-chained-equivalences"
_EXACT = []


def exact_mode():
    """Which ancestor test the code under test implements (Model.anc_pairs): 0 = product of the two equivalence
    paths (the code before fix 91c1aef: the witness pair is answered True one way, False the other), 1 = pairs of
    current classes only (/repo as it is, since 91c1aef: False both ways).  Decided once per process by running the witness pair."""
    if not _EXACT:
        from comb_spec_searcher.isomorphism import Isomorphism

        G = _G()
        s1, s2 = G.make_spec(ASYM_G1, 0, False), G.make_spec(ASYM_G2, 0, False)
        try:
            ans = (bool(Isomorphism.check(s1, s2)), bool(Isomorphism.check(s2, s1)))
        except Exception:  # pylint: disable=broad-except
            ans = None
        _EXACT.append(1 if ans == (False, False) else 0)
    return _EXACT[0]


def _W():
    from harness.universes import words_ext

    return words_ext


def _U():
    from harness.universes import words_objs

    return words_objs


# ------------------------------------------------------------------ random grammars
ATOM_WORDS = ["a", "b", "ab", "ba", "abc", "", "a", "b"]


def rand_grammar(rng, kmax=7):
    """a finite, productive grammar: references go forward, except inside products that also have
    a positive-size atom factor"""
    k = rng.randint(2, kmax) if rng.random() < 0.7 else rng.randint(4, kmax + 2)
    prods = [None] * k
    for i in range(k - 1, -1, -1):
        fwd = list(range(i + 1, k))
        r = rng.random()
        if not fwd or r < 0.28:
            prods[i] = ["a", rng.choice(ATOM_WORDS)]
        elif r < 0.31:
            prods[i] = ["e"]
        elif r < 0.34:
            prods[i] = ["v", sorted(rng.sample(["a", "b", "aa", "ab", "bb", "aba"], rng.randint(2, 3)))]
        elif r < 0.67:
            n = rng.choice([1, 2, 2, 2, 3, 3, 4])
            kids = rng.sample(fwd, n) if len(fwd) >= n and rng.random() < 0.6 else [rng.choice(fwd) for _ in range(n)]
            prods[i] = ["u" if rng.random() < 0.85 else "n", kids]
        else:
            n = rng.choice([2, 2, 2, 3, 3, 4])
            kids = rng.sample(fwd, n) if len(fwd) >= n and rng.random() < 0.6 else [rng.choice(fwd) for _ in range(n)]
            prods[i] = ["p", kids]
    atoms = [i for i, p in enumerate(prods) if p[0] == "a" and len(p[1]) > 0]
    for i, p in enumerate(prods):
        if p[0] == "p" and atoms and rng.random() < 0.55:
            kids = p[1]
            if not any(c in atoms for c in kids):
                kids[rng.randrange(len(kids))] = rng.choice(atoms)
            free = [j for j, c in enumerate(kids) if c not in atoms]
            if not free:
                kids.append(0)
                free = [len(kids) - 1]
            kids[rng.choice(free)] = rng.randint(0, i)
    return prods


def _refs(prods):
    return [(i, j) for i, p in enumerate(prods) if p[0] in "upn" for j in range(len(p[1]))]


ISO_EDITS = ["relabel", "permute", "letters", "eqstep", "eqstep_empty", "eqstep_empty_first", "eqchain", "dup",
             "addempty", "eqprod", "rotate", "rotate"]
BREAK_EDITS = ["atomlen", "swapkind", "dropchild", "reref", "flipne", "nstep"]


def transform(rng, prods, root, kind):
    """(prods', root') after one edit.  ISO_EDITS keep the class of derivation trees isomorphic
    (children permuted, nonterminals renamed / duplicated, equivalence steps inserted, empty children
    added); BREAK_EDITS usually do not."""
    g = copy.deepcopy(prods)
    k = len(g)
    if kind == "relabel":
        perm = list(range(k))
        rng.shuffle(perm)
        new = [None] * k
        for old, p in enumerate(g):
            q = copy.deepcopy(p)
            if q[0] in "upn":
                q[1] = [perm[c] for c in q[1]]
            new[perm[old]] = q
        return new, perm[root]
    if kind == "permute":
        c = [i for i, p in enumerate(g) if p[0] in "upn" and len(p[1]) > 1]
        if c:
            rng.shuffle(g[rng.choice(c)][1])
        return g, root
    if kind == "rotate":
        # a cyclic shift of >= 3 children: the matching permutation is not an involution
        c = [i for i, p in enumerate(g) if p[0] in "upn" and len(p[1]) > 2]
        if c:
            i = rng.choice(c)
            sh = rng.randrange(1, len(g[i][1]))
            g[i][1] = g[i][1][sh:] + g[i][1][:sh]
        return g, root
    if kind == "letters":
        for p in g:
            if p[0] == "a" and rng.random() < 0.7:
                p[1] = "".join(rng.choice("xyz") for _ in p[1])
        return g, root
    if kind in ("eqstep", "eqstep_empty", "eqstep_empty_first", "eqchain", "eqprod", "nstep", "eqchain_ne"):
        rs = _refs(g)
        target = rng.randrange(k)
        if kind == "eqstep":
            g.append(["u", [target]])
        elif kind == "nstep":
            g.append(["n", [target]])
        elif kind == "eqprod":
            g.append(["p", [target]])
        elif kind == "eqchain":
            g.append(["u", [target]])
            g.append(["u", [k]])
        elif kind == "eqchain_ne":
            g.append(["n", [target]])
            g.append(["u", [k]])
        else:
            g.append(["e"])
            g.append(["u", [target, k] if kind == "eqstep_empty" else [k, target]])
        new = len(g) - 1
        hit = False
        for i, j in rs:
            if g[i][1][j] == target and rng.random() < 0.6:
                g[i][1][j] = new
                hit = True
        if root == target and (not hit or rng.random() < 0.4):
            root = new
        return g, root
    if kind == "dup":
        rs = _refs(g)
        target = rng.randrange(k)
        g.append(copy.deepcopy(g[target]))
        for i, j in rs:
            if g[i][1][j] == target and rng.random() < 0.5:
                g[i][1][j] = k
        return g, root
    if kind == "addempty":
        c = [i for i, p in enumerate(g) if p[0] in "un"]
        if c:
            g.append(["e"])
            i = rng.choice(c)
            g[i][1].insert(rng.randint(0, len(g[i][1])), k)
        return g, root
    if kind == "atomlen":
        c = [i for i, p in enumerate(g) if p[0] == "a"]
        if c:
            i = rng.choice(c)
            g[i][1] = g[i][1] + "a" if rng.random() < 0.6 or not g[i][1] else g[i][1][1:]
        return g, root
    if kind == "swapkind":
        c = [i for i, p in enumerate(g) if p[0] in "upn"]
        if c:
            i = rng.choice(c)
            g[i][0] = "u" if g[i][0] == "p" else "p"
        return g, root
    if kind == "flipne":
        c = [i for i, p in enumerate(g) if p[0] in "un"]
        if c:
            i = rng.choice(c)
            g[i][0] = "u" if g[i][0] == "n" else "n"
        return g, root
    if kind == "dropchild":
        c = [i for i, p in enumerate(g) if p[0] in "upn" and len(p[1]) > 1]
        if c:
            i = rng.choice(c)
            g[i][1].pop(rng.randrange(len(g[i][1])))
        return g, root
    if kind == "reref":
        rs = _refs(g)
        if rs:
            i, j = rng.choice(rs)
            cand = list(range(i + 1, k))
            if cand:
                g[i][1][j] = rng.choice(cand)
        return g, root
    raise ValueError(kind)


def _uses_unary_product(prods, root):
    G = _G()
    gr = G.grammar(prods)
    for i in G.reachable(prods, root):
        p = prods[i]
        if p[0] == "p" and sum(1 for c in p[1] if not gr.empty[c]) == 1:
            return True
    return False


def _decorate(rng, g, r, nmax=2):
    for _ in range(rng.randint(0, nmax)):
        kd = rng.choice(["permute", "relabel", "letters", "eqstep", "addempty", "permute"])
        g2, r2 = transform(rng, g, r, kd)
        if not _G().grammar(g2).empty[r2]:
            g, r = g2, r2
    return g, r


def gen_stale_case(rng):
    """the shape behind 7890ace, decorated at random: X ~ X' is concluded while A ~ A' is only assumed; A ~ A'
    then fails (or not) on its other factor; X ~ X' is needed again from B ~ A'"""
    small = [["a", "c"], ["a", ""], ["a", "cc"]]
    c = rng.choice(small)
    s_ = ["a", rng.choice(["a", "aa", "b"])]
    t_ = ["a", rng.choice(["bb", "b", "aaa", "a"])]
    # 0 R, 1 A, 2 B, 3 X, 4 C, 5 S, 6 T
    g1 = [["u", [1, 2]], ["p", [3, 5]], ["p", [3, 6]], ["u", [4, 1]], c, s_, t_]
    # 0 R', 1 A', 2 B', 3 X', 4 C, 5 S, 6 T, 7 X''
    g2 = [["u", [1, 2]], ["p", [3, 6]], ["p", [7, 5]], ["u", [4, 1]], c, s_, t_, ["u", [4, 2]]]
    if rng.random() < 0.3:
        g2[7] = ["u", [4, 1]]       # X'' refers to A' as well
    if rng.random() < 0.3:
        g1[0][1].append(1)          # a third summand on both sides
        g2[0][1].append(rng.choice([1, 2]))
    r1 = r2 = 0
    g1, r1 = _decorate(rng, g1, r1)
    g2, r2 = _decorate(rng, g2, r2)
    if rng.random() < 0.5:
        g1, r1, g2, r2 = g2, r2, g1, r1
    return {"t": "g", "g1": g1, "r1": r1, "grp1": int(rng.random() < 0.7), "g2": g2, "r2": r2,
            "grp2": int(rng.random() < 0.7), "N": 5, "json": 0, "edits": ["stale-template"]}


def gen_asym_case(rng):
    """the shape of the asymmetry finding (fixed by 91c1aef), decorated: two chains of four uncollapsed equivalence steps, the class at
    the end referring back to the SECOND class of the chain on one side and to the FIRST on the other, and a
    candidate pair that is met both inside and outside the pair in progress"""
    g1, g2 = copy.deepcopy(ASYM_G1), copy.deepcopy(ASYM_G2)
    r = rng.random()
    if r < 0.35:
        g1 = [["u", [10, 1, 2]]] + g1[1:] + [["u", rng.sample([3, 4, 5], 3)]]
        g2 = [["u", [10, 1, 2]]] + g2[1:] + [["u", rng.sample([3, 4, 5], 3)]]
        grp = 1
    else:
        grp = 0
    if rng.random() < 0.4:
        rng.shuffle(g1[0][1])
    if rng.random() < 0.4:
        rng.shuffle(g2[0][1])
    if rng.random() < 0.3:
        g2[8][1][1] = rng.choice([2, 3])      # where the end of the second chain refers back to
    if rng.random() < 0.3:
        g1[8][1][1] = rng.choice([1, 3])
    r1 = r2 = 0
    if rng.random() < 0.4:
        g1, r1 = transform(rng, g1, r1, rng.choice(["relabel", "letters", "dup"]))
    if rng.random() < 0.5:
        g1, r1, g2, r2 = g2, r2, g1, r1
    return {"t": "g", "g1": g1, "r1": r1, "grp1": grp, "g2": g2, "r2": r2, "grp2": grp, "N": 3, "json": 0,
            "edits": ["asym-template"]}


def gen_chain_case(rng):
    """the shape behind e943cb6: the same reference goes through  eq -> eq  on one side and through
    eq -> (unary rule that is not an equivalence) on the other, both uncollapsed"""
    G = _G()
    if rng.random() < 0.3:
        # uncollapsed chains R = U[E, G], E = N = C, G = E on both sides, the classes at the end of the chains
        # differing (or not) in one factor: a pair that failed is met again through other equivalence steps
        x, y = rng.choice(["b", "a", "ab"]), rng.choice(["bb", "b", "a"])
        kind = rng.choice("up")
        g1 = [["u", [1, 2]], ["u", [3]], ["u", [1]], ["u", [4]], [kind, [5, 6]], ["a", "a"], ["a", x]]
        g2 = [["u", [1, 2]], ["u", [3]], ["u", [1]], ["u", [4]], [kind, [5, 6]], ["a", "a"], ["a", y]]
        r1 = r2 = 0
        g1, r1 = _decorate(rng, g1, r1, 1)
        g2, r2 = _decorate(rng, g2, r2, 1)
        return {"t": "g", "g1": g1, "r1": r1, "grp1": 0, "g2": g2, "r2": r2, "grp2": 0, "N": 4, "json": 0,
                "edits": ["stale-chain-template"]}
    for _ in range(50):
        g0 = rand_grammar(rng, 5)
        if not G.grammar(g0).empty[0]:
            break
    else:
        g0 = [["u", [1, 2]], ["a", "a"], ["a", "bb"]]
    st = rng.getstate()
    g1, r1 = transform(rng, g0, 0, "eqchain")
    rng.setstate(st)
    g2, r2 = transform(rng, g0, 0, rng.choice(["eqchain_ne", "eqchain_ne", "eqchain", "nstep"]))
    if rng.random() < 0.5:
        g1, r1, g2, r2 = g2, r2, g1, r1
    grp = int(rng.random() < 0.25)
    return {"t": "g", "g1": g1, "r1": r1, "grp1": grp, "g2": g2, "r2": r2, "grp2": int(rng.random() < 0.25),
            "N": 4, "json": 0, "edits": ["chain-template"]}


def gen_grammar_case(rng):
    G = _G()
    for _ in range(50):
        g1 = rand_grammar(rng)
        if not G.grammar(g1).empty[0]:
            break
    else:
        g1 = [["u", [1, 2]], ["a", "a"], ["a", "bb"]]
    r1 = 0
    g2, r2 = g1, r1
    edits = []
    style = rng.random()
    if style < 0.12:
        for _ in range(50):
            g2 = rand_grammar(rng, 5)
            if not G.grammar(g2).empty[0]:
                break
        else:
            g2 = g1
        r2 = 0
        edits = ["independent"]
    elif style < 0.62 or style >= 0.8:
        for _ in range(rng.randint(0, 5)):
            kd = rng.choice(ISO_EDITS if rng.random() < (0.93 if style < 0.8 else 0.6) else BREAK_EDITS)
            g, r = transform(rng, g2, r2, kd)
            if G.grammar(g).empty[r]:
                continue
            g2, r2 = g, r
            edits.append(kd)
    if 0.62 <= style < 0.8:
        # NEAR MISS WITH ALTERNATIVES: both sides get duplicated nonterminals (so that the search has several
        # candidates to try and pairs are looked up again after a failure), one side then one breaking edit
        edits = []
        for _ in range(rng.randint(1, 3)):
            g, r = transform(rng, g1, r1, "dup")
            if not G.grammar(g).empty[r]:
                g1, r1 = g, r
        g2, r2 = g1, r1
        for kd in ["relabel", "permute", rng.choice(ISO_EDITS), rng.choice(BREAK_EDITS + ["permute"])]:
            g, r = transform(rng, g2, r2, kd)
            if G.grammar(g).empty[r]:
                continue
            g2, r2 = g, r
            edits.append(kd)
    if rng.random() < 0.3:
        g1, r1, g2, r2 = g2, r2, g1, r1
    grp1 = rng.random() < 0.7
    grp2 = rng.random() < 0.7
    # an equivalence path made of a one-child product has no constructor (EquivalencePathRule.constructor
    # accepts unions only): such grammars are used ungrouped
    if _uses_unary_product(g1, r1):
        grp1 = False
    if _uses_unary_product(g2, r2):
        grp2 = False
    return {"t": "g", "g1": g1, "r1": r1, "grp1": int(grp1), "g2": g2, "r2": r2, "grp2": int(grp2),
            "N": rng.choice([4, 5, 5, 6]), "json": int(rng.random() < 0.12), "edits": edits}


# ------------------------------------------------------------------ word universes
WSTARTS = [
    ("", ["aa"], "ab"), ("", ["ab"], "ab"), ("", ["aa", "bb"], "ab"), ("", ["ab", "ba"], "ab"),
    ("", ["aba"], "ab"), ("", ["abb", "bba"], "ab"), ("", ["aab", "bbb"], "ab"), ("", ["aab", "bba"], "ab"),
    ("", ["abb", "baa"], "ab"), ("a", ["aba"], "ab"), ("", [], "ab"), ("", ["a"], "ab"),
    ("", ["abc", "ca"], "abc"), ("", ["aa"], "abc"), ("", ["ab"], "abc"), ("", ["ab", "bb", "ca"], "abc"), ("", ["ababa", "babb"], "ab"), ("bbba", ["aa"], "ab"),
    ("abab", ["bb"], "ab"), ("", ["abb", "ba"], "ab"), ("", ["b", "aa"], "ab"), ("ba", ["bb"], "ab"),
]
# (factory1 and iterative find nothing under the level-by-level driver used here)
WPACKS = ["base", "sym", "inferral", "sym+inferral", "factory0", "factory2", "two_sets", "oneway",
          "letterwise", "letterwise_first", "letterwise_mid", "verif"]


def _swapab(w):
    return "".join({"a": "b", "b": "a"}.get(x, x) for x in w)


def _cycabc(w):
    return "".join({"a": "b", "b": "c", "c": "a"}.get(x, x) for x in w)


def _wcfg(rng, start=None):
    p, pats, alph = start if start is not None else rng.choice(WSTARTS)
    c = {"p": p, "pats": list(pats), "alph": alph,
         "pack": rng.choice(WPACKS if rng.random() < 0.9 else ["base", "sym"]),
         "db": rng.choice(["base", "base", "forget", "forest", "forest_noreverse", "forest_noreverse"]),
         "seed": rng.randrange(3)}
    if c["pack"].startswith("sym") and c["db"] == "forest_noreverse":
        c["db"] = "forest"          # the symmetry packs need reverse rules under the forest database
    return c


def gen_word_case(rng):
    a = _wcfg(rng)
    r = rng.random()
    if r < 0.4:
        b = _wcfg(rng, (a["p"], a["pats"], a["alph"]))
    elif r < 0.75:
        f = _cycabc if (a["alph"] == "abc" and rng.random() < 0.6) else _swapab
        b = _wcfg(rng, (f(a["p"]), sorted(f(x) for x in a["pats"]), a["alph"]))
    else:
        b = _wcfg(rng)
    if rng.random() < 0.5:
        b["pack"] = a["pack"]
    return {"t": "w", "a": a, "b": b, "N": 6 if a["alph"] == "ab" and b["alph"] == "ab" else 5,
            "json": int(rng.random() < 0.12), "par": int(rng.random() < 0.12)}


# word configurations whose searched specification contains the reverse of a NON-equivalence rule (found by scanning
# prefixes of length <= 2 x 12 pattern sets x 5 packs under the forest database): the only inputs on which
# Bijection.construct must REFUSE although the specifications are isomorphic
REFUSAL_STARTS = [("ba", ["bb"], "ab"), ("ab", ["aa"], "ab"), ("aa", ["aaa"], "ab"), ("bb", ["bbb"], "ab")]


def gen_refusal_case(rng):
    """one side is a REFUSAL_STARTS specification (pack factory2, forest database); the other the same or the
    letter-swapped class, searched with the same or another pack / database: when the two come out isomorphic
    construct has to return None (25bcc90)"""
    p, pats, alph = rng.choice(REFUSAL_STARTS)
    a = {"p": p, "pats": list(pats), "alph": alph, "pack": "factory2", "db": "forest", "seed": rng.randrange(3)}
    st = (p, pats, alph) if rng.random() < 0.5 else (_swapab(p), sorted(_swapab(x) for x in pats), alph)
    b = _wcfg(rng, st)
    if rng.random() < 0.6:
        b["pack"], b["db"] = "factory2", rng.choice(["forest", "forest", "base", "forget"])
    if rng.random() < 0.5:
        a, b = b, a
    return {"t": "w", "a": a, "b": b, "N": 6, "json": int(rng.random() < 0.12), "par": 0}


def gen_stat_case(rng):
    U = _U()
    i = rng.randrange(len(U.STAT_STARTS))
    j = i if rng.random() < 0.7 else rng.randrange(len(U.STAT_STARTS))
    if i == j and rng.random() < 0.5:
        # the same words with OTHER statistics: the specifications differ only in the extra parameters
        alph = U.STAT_STARTS[i][2]
        st2 = rng.choice(["", alph[0], alph[-1], alph[:2], alph])
        c = {"i": i, "sym": int(rng.random() < 0.3), "db": "base", "seed": 0}
        return {"t": "s", "a": dict(c), "b": dict(c, stats=st2, seed=rng.randrange(2)), "N": 5, "json": 0}
    return {"t": "s", "a": {"i": i, "sym": int(rng.random() < 0.5), "db": rng.choice(["base", "forest_noreverse"]),
                            "seed": rng.randrange(2)},
            "b": {"i": j, "sym": int(rng.random() < 0.5), "db": rng.choice(["base", "forest_noreverse"]),
                  "seed": rng.randrange(2)},
            "N": 5, "json": int(rng.random() < 0.1)}


def gen_equiv_case(rng):
    """two constructors of the four library types with random extra_parameters (dictionaries
    parent variable -> child variable, one per child; empty dictionaries are ignored by equiv)"""
    def params():
        out = []
        for _ in range(rng.randint(0, 4)):
            n = rng.choice([0, 0, 1, 1, 2, 2, 3, 4])
            out.append([rng.randrange(3) for _ in range(n)])
        return out
    p1 = params()
    r = rng.random()
    if r < 0.35:
        p2 = [list(d) for d in p1]
        rng.shuffle(p2)
        p2 = [[(v + 1) % 3 for v in d] for d in p2]      # renamed and reordered: equivalent
        for d in p2:
            rng.shuffle(d)
        if rng.random() < 0.5:
            p2.insert(rng.randint(0, len(p2)), [])
    elif r < 0.6:
        p2 = [list(d) for d in p1]
        if p2 and rng.random() < 0.8:
            d = rng.choice(p2)
            if d:
                d[rng.randrange(len(d))] = rng.randrange(3)
            else:
                d.append(0)
    else:
        p2 = params()
    t1 = rng.randrange(4)
    return {"t": "q", "t1": t1, "p1": p1, "t2": t1 if rng.random() < 0.8 else rng.randrange(4), "p2": p2}


def gen(rng, tier):
    while True:
        r = rng.random()
        if r < 0.06:
            yield gen_equiv_case(rng)
            continue
        r = rng.random()
        if r < 0.06:
            yield gen_stale_case(rng)
        elif r < 0.10:
            yield gen_chain_case(rng)
        elif r < 0.12:
            yield gen_asym_case(rng)
        elif r < 0.14:
            yield gen_refusal_case(rng)
        elif r < 0.62:
            yield gen_grammar_case(rng)
        elif r < 0.92:
            yield gen_word_case(rng)
        else:
            yield gen_stat_case(rng)


# ------------------------------------------------------------------ building specifications
_CACHE = {}


class _Timeout(Exception):
    pass


def _alarm(*_):
    raise _Timeout()


def _search(cls, pack, db, seed, seconds=20):
    from comb_spec_searcher import CombinatorialSpecificationSearcher
    from comb_spec_searcher.exception import NoMoreClassesToExpandError

    old = signal.signal(signal.SIGALRM, _alarm)
    signal.alarm(seconds)
    try:
        random.seed(seed)
        css = CombinatorialSpecificationSearcher(cls, pack, ruledb=_W().make_ruledb(db))
        for _ in range(14):
            if css.has_specification():
                break
            try:
                css.do_level()
            except NoMoreClassesToExpandError:
                break
        if not css.has_specification():
            return None
        return css.get_specification(minimization_time_limit=0)
    except _Timeout:
        return None
    finally:
        signal.alarm(0)
        signal.signal(signal.SIGALRM, old)


def _word_class(c):
    from example import AvoidingWithPrefix

    return AvoidingWithPrefix(c["p"], c["pats"], list(c["alph"]))


def _word_spec(c):
    k = "w" + json.dumps(c, sort_keys=True)
    if k not in _CACHE:
        _CACHE[k] = _search(_word_class(c), _W().PACKS[c["pack"]](), c["db"], c["seed"])
    return _CACHE[k]


def _stat_spec(c):
    k = "s" + json.dumps(c, sort_keys=True)
    if k not in _CACHE:
        U = _U()
        start = U.stat_start(c["i"])
        if c.get("stats") is not None:
            start = start.with_(stats=tuple(c["stats"]))
        _CACHE[k] = _search(start, U.stat_pack(bool(c["sym"])), c["db"], c["seed"])
    return _CACHE[k]


def _parallel(case):
    """the pair of specifications returned by the parallel finder (or None)"""
    from comb_spec_searcher import CombinatorialSpecificationSearcher
    from comb_spec_searcher.bijection import ParallelSpecFinder

    a, b = case["a"], case["b"]
    old = signal.signal(signal.SIGALRM, _alarm)
    signal.alarm(25)
    try:
        random.seed(a["seed"])
        W = _W()
        return ParallelSpecFinder(
            CombinatorialSpecificationSearcher(_word_class(a), W.PACKS[a["pack"]]()),
            CombinatorialSpecificationSearcher(_word_class(b), W.PACKS[b["pack"]]()),
        ).find()
    except _Timeout:
        return None
    finally:
        signal.alarm(0)
        signal.signal(signal.SIGALRM, old)


def build(case):
    """(spec1, spec2, how) — None specs when a search found nothing"""
    if case["t"] == "g":
        G = _G()
        return (G.make_spec(case["g1"], case["r1"], case["grp1"]), G.make_spec(case["g2"], case["r2"], case["grp2"]),
                "grammar")
    if case["t"] == "w":
        if case.get("par"):
            try:
                pair = _parallel(case)
            except Exception as ex:  # pylint: disable=broad-except
                # the parallel finder's own totality is C13's business
                return None, None, "parallel finder raised %s" % type(ex).__name__
            if pair is None:
                return None, None, "parallel finder found nothing"
            return pair[0], pair[1], "parallel"
        return _word_spec(case["a"]), _word_spec(case["b"]), "search"
    if case["t"] == "s":
        return _stat_spec(case["a"]), _stat_spec(case["b"]), "search"
    raise ValueError(case["t"])


# ------------------------------------------------------------------ descriptors
class Desc:
    """labels and rule descriptors of one specification, as read by isomorphism.py"""

    def __init__(self, spec, intern):
        from comb_spec_searcher.strategies.constructor import CartesianProduct, Complement, DisjointUnion, Quotient
        from comb_spec_searcher.strategies.rule import Rule

        self.spec = spec
        self.lab = {}
        self.classes = []
        for c in list(spec.rules_dict):
            self.L(c)
        rules = []
        tags = {DisjointUnion: 0, CartesianProduct: 1, Complement: 2, Quotient: 3}
        for c, rule in list(spec.rules_dict.items()):
            isrule = isinstance(rule, Rule)
            kids = [self.L(k) for k in rule.children]
            tag, params = -1, []
            if isrule:
                try:
                    con = rule.constructor
                    tag = tags.get(type(con), 10 + intern.setdefault("T" + type(con).__name__, len(intern)))
                    for d in con.extra_parameters:
                        params.append([intern.setdefault("V" + v, len(intern)) for v in d.values()])
                except (NotImplementedError, AssertionError):
                    tag, params = -1, []
            atom = bool(c.is_atom())
            akey = []
            if atom:
                sz = next(c.objects_of_size(c.minimum_size_of_object())).size()
                terms = rule.get_terms(sz)
                akey = [[sz]] + sorted([list(k) + [v] for k, v in terms.items()])
            rules.append([self.lab[c], int(isrule), kids, int(bool(rule.is_equivalence())), [tag, params], int(atom),
                          akey])
        self.rules = rules
        self.empty = [i for i, c in enumerate(self.classes) if c.is_empty()]
        self.root = self.L(spec.root)

    def L(self, c):
        if c not in self.lab:
            self.lab[c] = len(self.classes)
            self.classes.append(c)
        return self.lab[c]

    def enc(self):
        return [self.root, self.rules, self.empty]

    def tree(self, cls, obj):
        """parse tree of an object of cls"""
        rule = self.spec.rules_dict[cls]
        if not rule.children:
            return [0, self.lab[cls]]
        parts = rule.forward_map(obj)
        return [1, self.lab[cls],
                [[] if p is None else [self.tree(ch, p)] for ch, p in zip(rule.children, parts)]]

    def wf(self):
        """the hypotheses of the theorems (Iso/Valid.v wf_spec, and those of C12_reflexive_atoms), decided on
        the descriptor; returns the list of the ones that fail"""
        rules = {r[0]: r for r in self.rules}
        empty = set(self.empty)
        bad = []

        def chain_ends(c, seen=()):
            if c in seen or c not in rules:
                return False
            r = rules[c]
            if not r[3]:
                return True
            return len(r[2]) == 1 and r[2][0] not in empty and bool(r[1]) and chain_ends(r[2][0], seen + (c,))

        for c, r in rules.items():
            _, isrule, kids, iseq, (tag, _), atom, _ = r
            if iseq and not chain_ends(c):
                bad.append("eq_wf")
            if isrule and not iseq and tag == 1 and any(k in empty for k in kids):
                bad.append("prod_wf")
            if kids and not isrule:
                bad.append("children-of-non-rule")
            if kids and all(k in empty for k in kids):
                bad.append("no-non-empty-child")
            if any(k not in rules and k not in empty for k in kids):
                bad.append("not-closed")
        if self.root in empty:
            bad.append("root-empty")
        return sorted(set(bad))

    def flat(self):
        """no chained equivalence rules (hypothesis of C12_symmetric_flat)"""
        rules = {r[0]: r for r in self.rules}
        return all(not (r[3] and r[2] and r[2][0] in rules and rules[r[2][0]][3]) for r in self.rules)

    def verified_all_atoms(self):
        """every verified class is an atom OR EMPTY (searched specifications hold an EmptyStrategy rule for their
        empty classes; _are_isomorphic never descends into an empty child)"""
        from comb_spec_searcher.strategies.rule import VerificationRule

        return all(c.is_atom() or c.is_empty() for c, r in self.spec.rules_dict.items()
                   if isinstance(r, VerificationRule))

    def verified_all_atoms_strict(self):
        """the form before the weakening: every verified class, the empty ones included, is an atom (hypothesis of
        C12_check_reflexive; false on ~96% of the searched specifications)"""
        from comb_spec_searcher.strategies.rule import VerificationRule

        return all(c.is_atom() for c, r in self.spec.rules_dict.items() if isinstance(r, VerificationRule))

    def refl_hyps(self, strict=False):
        """the hypotheses of C12_check_reflexive_nonempty, decided on the descriptor exactly as Iso/DecidersRefl.v
        refl_hypsb does (the extracted run evaluates refl_hypsb on the same descriptor and the two verdicts are
        COMPARED on every case); returns the list of the hypotheses that fail.  strict=True: the hypotheses of the
        older C12_check_reflexive instead (every class, the empty ones included; no condition on the root being
        non-empty) - only used to report how much the weakening gained"""
        rules = {r[0]: r for r in self.rules}
        empty = set() if strict else set(self.empty)
        real_empty = set(self.empty)
        bad = []
        if "eq_wf" in self.wf():
            bad.append("eq_wf")
        if self.root in empty:
            bad.append("root-empty")
        if self.root not in rules:
            bad.append("root-without-rule")
        for c, r in rules.items():
            _, isrule, kids, _iseq, _con, atom, _ = r
            if c in empty:
                continue            # the rule of an empty class is never read by the search on (s, s)
            if not kids:
                if not atom:
                    bad.append("verified-class-not-an-atom" if strict else "non-empty-verified-class-not-an-atom")
                continue
            ne = [k for k in kids if k not in real_empty]
            if not ne:
                bad.append("no-non-empty-child")
            if not isrule:
                bad.append("children-of-non-rule")
            if any(k not in rules for k in ne):
                bad.append("not-closed")
        return sorted(set(bad))


def _code(ex):
    return ERR.get(type(ex).__name__, 99)


def _brute(cls, n):
    return sorted(cls.objects_of_size(n), key=repr)


NOSPEC_ENC = [0, [0, [], []], [0, [], []], 10, [], [], []]
MAXOBJ = 36


def _impl_equiv(case):
    from comb_spec_searcher.strategies.constructor import CartesianProduct, Complement, DisjointUnion, Quotient

    types = [DisjointUnion, CartesianProduct, Complement, Quotient]

    def mk(tag, params):
        # the four equiv methods read only type(self) and self.extra_parameters
        obj = object.__new__(types[tag])
        obj.extra_parameters = tuple({"x%d" % i: "y%d" % v for i, v in enumerate(d)} for d in params)
        return obj

    a, b = mk(case["t1"], case["p1"]), mk(case["t2"], case["p2"])
    ab, ba, aa, bb = a.equiv(b), b.equiv(a), a.equiv(a), b.equiv(b)
    why = []
    if bool(ab[0]) != bool(ba[0]):
        why.append("Constructor.equiv is not symmetric on %s / %s" % (case["p1"], case["p2"]))
    if not aa[0] or not bb[0]:
        why.append("Constructor.equiv is not reflexive")
    return {"out": [0, int(bool(ab[0]))], "enc": [2, [case["t1"], case["p1"]], [case["t2"], case["p2"]]],
            "why": "; ".join(why) or None, "tags": ["equiv", "equiv:%d" % int(bool(ab[0]))]}


def _nonequiv_reverse(spec):
    from comb_spec_searcher.strategies.rule import ReverseRule

    return any(isinstance(r, ReverseRule) and len(r.original_rule.non_empty_children()) != 1
               for r in spec.rules_dict.values())


# ------------------------------------------------------------------ hypotheses of the *_objects theorems, decided
def c07_descs(d):
    """the C07 descriptors (harness/props/c07.py _rule_desc, imported - not copied) of the specification of the Desc
    `d` under d's labels; objects interned as integers; forms tabulated to size 0 only (the deciders read kinds,
    children, minimum / maximum sizes, atoms).  None when c07.py cannot describe the specification."""
    from harness.props import c07

    table = {}
    try:
        w = c07.world_of_spec(d.spec, order=list(d.classes), mutate=False)
        return c07.descriptors(w, 0, enc=lambda o: table.setdefault(o, len(table)))
    except Exception:  # pylint: disable=broad-except
        return None


def idescribes_py(d, descs):
    """Iso/DecidersObjects.v idescribesb, recomputed on the Desc `d` and the C07 descriptors `descs`"""
    rules = {}
    for r in d.rules:
        rules.setdefault(r[0], r)
    empty = set(d.empty)
    ok = all(0 <= r[0] < len(descs) for r in d.rules)
    for c, ds in enumerate(descs):
        r = rules.get(c)
        if ds[0] in (0, 1):
            kids = list(ds[1])
            ok = ok and (r is not None and c not in empty and list(r[2]) == kids and bool(kids) and bool(r[1])
                         and ((bool(r[3]) and len(kids) == 1) or (not r[3] and r[4][0] == ds[0])))
        elif ds[0] == 3:
            asize = r[6][0][0] if r is not None and r[6] and r[6][0] else 0
            ok = ok and (r is not None and c not in empty and not r[2] and bool(r[5]) and ds[1] == asize)
        else:
            ok = ok and (r is None or c in empty or (not r[2] and not r[5])
                         or (not r[3] and not r[1] and not (not r[2] and r[5])))
    return int(bool(ok))


def objects_verdict(d1, d2, descs):
    """[idescribes1, rank1, closed1, idescribes2, rank2, closed2] (what run_c12 answers for the appended input field)"""
    from harness.props import c07

    if not descs:
        return []
    out = []
    for d, ds in zip((d1, d2), descs):
        shapes = [[0, x[1]] if x[0] == 0 else [1, x[1], x[2], x[3]] if x[0] == 1 else [2] for x in ds]
        rv = c07.rank_verdict(shapes)
        out += [idescribes_py(d, ds), rv[0], rv[1]]
    return out


def impl(case):
    from comb_spec_searcher.isomorphism import Bijection, Isomorphism

    if case["t"] == "q":
        return _impl_equiv(case)

    s1, s2, how = build(case)
    if s1 is None or s2 is None:
        # nothing to compare: the model is given two specifications without rules (KeyError = 1)
        return {"out": [1], "enc": NOSPEC_ENC, "how": how, "why": None, "tags": ["nospec"]}
    tags = [how]
    why = []

    def chk(a, b):
        try:
            return bool(Isomorphism.check(a, b))
        except Exception as ex:  # pylint: disable=broad-except
            return "%s: %s" % (type(ex).__name__, str(ex)[:80])

    iso = Isomorphism(s1, s2)
    found = bool(iso.are_isomorphic())
    bij = Bijection.construct(s1, s2)
    # since 25bcc90 no bijection is handed out when a specification uses the reverse of a non-equivalence
    # rule (objects cannot be mapped through it); the isomorphism test itself still answers
    blocked = _nonequiv_reverse(s1) or _nonequiv_reverse(s2)
    if (bij is not None) != (found and not blocked):
        why.append("Bijection.construct returned %s although are_isomorphic() is %s%s"
                   % (bij, found, " and a non-equivalence reverse rule is present" if blocked else ""))
    if blocked:
        tags.append("non-equivalence-reverse-rule")
        if found and bij is None:
            tags.append("construct-refusal")
    # ---- symmetry / reflexivity of the isomorphism test (oracle part)
    back = chk(s2, s1)
    asym = back != found
    if found and bij is not None and case.get("json"):
        bij = Bijection.from_dict(json.loads(json.dumps(bij.to_jsonable())))
        s1, s2 = bij.domain, bij.codomain
        tags.append("json")
        # the RELOADED pair must still be isomorphic, in both directions (a from_dict that keeps the order map
        # but hands back other specifications would otherwise go unnoticed)
        for x, y, nm in ((s1, s2, "domain, codomain"), (s2, s1, "codomain, domain")):
            r = chk(x, y)
            if r is not True:
                why.append("after the JSON round trip of the bijection check(%s) = %s" % (nm, r))
    intern = {}
    d1, d2 = Desc(s1, intern), Desc(s2, intern)
    # descriptor guard (Iso/Construct.v nonequiv_reverse, C12_construct): the reverse of a non-equivalence rule
    # reads on the descriptor as a Rule that is not an equivalence with a Complement (2) / Quotient (3)
    # constructor; this reading must agree with the test Bijection.construct itself performs
    desc_blocked = any(r[1] and not r[3] and r[4][0] in (2, 3) for d in (d1, d2) for r in d.rules)
    if desc_blocked != bool(blocked) and not case.get("json"):
        why.append("descriptor guard: a non-equivalence Complement/Quotient rule is %s in the descriptors but "
                   "Bijection.construct's own test says %s" % ("present" if desc_blocked else "absent", bool(blocked)))
    # reflexivity up to empty classes (C12_check_reflexive_nonempty): on every specification on which its hypotheses
    # hold (Desc.refl_hyps = Iso/DecidersRefl.v refl_hypsb, decided on the descriptor, compared with the extracted
    # run below) Isomorphism.check(s, s) MUST be True; also required (as before) whenever every verified class is an
    # atom in the strict sense
    refl = []
    for d, nm in ((d1, "spec1"), (d2, "spec2")):
        hyp = d.refl_hyps()
        strict = d.verified_all_atoms_strict()
        refl.append([int(not hyp), int(not d.refl_hyps(strict=True)), hyp])
        if not hyp or strict:
            r = chk(d.spec, d.spec)
            if r is not True:
                why.append("check(%s, %s) = %s although every NON-EMPTY verified class of %s is an atom%s - the test is not "
                           "reflexive on this specification (failing input: %s of this case)"
                           % (nm, nm, r, nm, " and the hypotheses of C12_check_reflexive_nonempty hold" if not hyp else "",
                              nm))
        if not hyp and not d.verified_all_atoms():
            why.append("harness inconsistency: refl_hyps holds on %s but a verified class is neither an atom nor empty" % nm)
    order = bij._get_order if bij is not None else {}  # pylint: disable=protected-access
    out_order = [[d1.lab[c1], d2.lab[c2], list(p)] for (c1, c2), p in order.items()]
    trees1, trees2, res1, res2 = [], [], [], []
    unsupported = None
    if bij is not None:
        tags.append("bijection")
        nmax = max(case["N"], min(s1.root.minimum_size_of_object(), 8) + 2)
        seen_objs = 0
        all1, all2 = [], []
        for n in range(nmax + 1):
            if seen_objs > 600:
                break
            if case["t"] == "g" and max(s1.root.g.count(s1.root.nt, n), s2.root.g.count(s2.root.nt, n)) > 400:
                break       # classes with very many objects of a small size (products of size-0 objects)
            o1, o2 = _brute(s1.root, n), _brute(s2.root, n)
            seen_objs += len(o1) + len(o2)
            if len(o1) != len(o2):
                why.append("a bijection was constructed but the classes have %d and %d objects of size %d"
                           % (len(o1), len(o2), n))
            try:
                im = [bij.map(o) for o in o1]
                bk = [bij.inverse_map(x) for x in im]
                inv = [bij.inverse_map(p) for p in o2]
                fw = [bij.map(x) for x in inv]
            except NotImplementedError as ex:
                unsupported = str(ex)[:60]
                break
            except Exception as ex:  # pylint: disable=broad-except
                why.append("map/inverse_map raised %s: %s on size %d" % (type(ex).__name__, str(ex)[:60], n))
                im = bk = inv = fw = None
            if im is not None:
                if sorted(im, key=repr) != o2:
                    why.append("map does not send the %d objects of size %d one-to-one onto those of the second class"
                               % (len(o1), n))
                if bk != o1:
                    why.append("inverse_map(map(o)) != o for some o of size %d" % n)
                if sorted(inv, key=repr) != o1 or fw != o2:
                    why.append("map(inverse_map(p)) != p for some p of size %d" % n)
                if any(x.size() != n for x in im):
                    why.append("map changes the size of an object of size %d" % n)
            all1.extend(o1)
            all2.extend(o2)
        # trees for the model: a bounded sample of the objects of all sizes
        for objs, dsrc, ddst, rsrc, rdst, fmap, trees, ress in (
                (all1, d1, d2, s1.root, s2.root, bij.map, trees1, res1),
                (all2, d2, d1, s2.root, s1.root, bij.inverse_map, trees2, res2)):
            if unsupported:
                break
            step = max(1, (len(objs) + MAXOBJ - 1) // MAXOBJ)
            for o in objs[::step][:MAXOBJ]:
                try:
                    t = dsrc.tree(rsrc, o)
                except NotImplementedError as ex:
                    unsupported = str(ex)[:60]
                    break
                trees.append(t)
                try:
                    ress.append([0, ddst.tree(rdst, fmap(o))])
                except Exception as ex:  # pylint: disable=broad-except
                    ress.append([_code(ex)])
        if unsupported:
            # a constructed bijection must map every object (C12); NotImplementedError is no excuse
            tags.append("maps-unsupported")
            why.append("a constructed bijection refuses to map: NotImplementedError: %s" % unsupported)
            trees1, trees2, res1, res2 = [], [], [], []
    if bij is not None:
        enc = [1, d1.enc(), d2.enc(), FUEL, out_order, trees1, trees2, exact_mode()]
        out = [0, 1, 1, res1, res2]
    else:
        enc = [0, d1.enc(), d2.enc(), FUEL, [], [], [], exact_mode()]
        out = [0, int(found), 0, [], []]
    # appended fields of run_c12 (Iso/Run.v): [same entries, wf_specb spec1, wf_specb spec2].  wf_spec is decided here
    # by Desc.wf (its parts eq_wf / prod_wf / root not empty) and in Coq by Iso/Deciders.v wf_specb; the model's own
    # search must leave the ENTRIES of the order map the real Bijection holds (then C12_constructed_bijection, which
    # speaks of the model's order map, speaks of the real one; a different valid certificate would be a mismatch to
    # investigate - none on seeds 0-2)
    wfv = [int(not (set(d.wf()) & {"eq_wf", "prod_wf", "root-empty"})) for d in (d1, d2)]
    out = out + [int(bij is not None)] + wfv
    if bij is not None:
        # cert_ok = 1 is EXPECTED in `out`: check_cert runs on the real order map on every constructed bijection
        tags.append("thm:C12_transport_inverse_decided:covered" if all(wfv) else
                    "thm:C12_transport_inverse_decided:not_covered(wf_spec)")
    # appended INPUT field 8 = the C07 descriptors of both specifications; appended output = objects_verdict
    descs7 = [c07_descs(d1), c07_descs(d2)]
    if None in descs7:
        descs7 = []
    ov = objects_verdict(d1, d2, descs7)
    enc = enc + [descs7]
    out = out + [ov]
    # appended output fields 10, 11 of run_c12: Iso/DecidersRefl.v refl_hypsb of the two descriptors (the hypotheses of
    # C12_check_reflexive_nonempty, decided; sound by C12_check_reflexive_decided) against Desc.refl_hyps
    out = out + [r[0] for r in refl]
    for r, nm in zip(refl, ("spec1", "spec2")):
        tags.append("thm:C12_check_reflexive_nonempty:%s" % ("covered" if r[0] else "not_covered(%s)" % " + ".join(r[2])))
    if bij is not None:
        names = ("idescribes spec1", "rank spec1", "closed spec1", "idescribes spec2", "rank spec2", "closed spec2")
        missing = ["no C07 descriptor"] if not ov else [h for h, b in zip(names, ov) if not b]
        missing += [] if all(wfv) else ["wf_spec"]
        tags.append("thm:C12_transport_inverse_objects:covered" if not missing else
                    "thm:C12_transport_inverse_objects:not_covered(%s)" % " + ".join(missing))
    for d, nm in ((d1, "spec1"), (d2, "spec2")):
        for b in d.wf():
            tags.append("hypothesis-fails:%s" % b)
    isflat = d1.flat() and d2.flat()
    tags.append("flat" if isflat else "chained-equivalences")
    if asym:
        why.insert(0, "check(spec1, spec2) = %s but check(spec2, spec1) = %s%s"
                   % (found, back, "" if isflat else " [chained equivalence rules]"))
    shape = _shape(d1, d2, out_order)
    return {"out": out, "enc": enc, "how": how, "why": "; ".join(why[:3]) or None, "tags": tags + shape,
            "nobj": len(trees1), "unsupported": unsupported,
            "refl": [r[:2] for r in refl], "refl_why": [r[2] for r in refl], "searched": int(case["t"] in ("w", "s"))}


def _shape(d1, d2, order):
    """features of the matched pair, for the input distribution and non-triviality"""
    tags = []
    r1 = {r[0]: r for r in d1.rules}
    r2 = {r[0]: r for r in d2.rules}
    if any(sorted(p) == list(range(len(p))) and p != sorted(p) for _, _, p in order):
        tags.append("permuted-children")
    if any(len(p) >= 3 for _, _, p in order):
        tags.append("arity>=3")
    if any(len(set(r1[a][2])) < len(r1[a][2]) for a, _, _ in order if a in r1):
        tags.append("repeated-children")
    if any(set(r1[a][2]) & set(d1.empty) or set(r2[b][2]) & set(d2.empty) for a, b, _ in order if a in r1 and b in r2):
        tags.append("empty-children")
    n1 = sum(1 for r in d1.rules if r[3])
    n2 = sum(1 for r in d2.rules if r[3])
    if order and n1 != n2:
        tags.append("eq-steps-differ")
    if order and len({a for a, _, _ in order}) < len(order):
        tags.append("class-matched-twice")
    return tags


def canon_model(mo):
    """field 5 (the model's search left the implementation's order map IN THE SAME INSERTION ORDER) is informational:
    the order of a dict is not observable through Bijection.map; the fields after it are compared"""
    if isinstance(mo, list) and len(mo) == 6:
        return mo[:5]
    if isinstance(mo, list) and len(mo) in (9, 10, 12):
        # fields 6-8 ARE compared: same ENTRIES as the implementation's order map (insertion order ignored), and the
        # verdicts wf_specb of the two descriptors (Iso/Deciders.v) against Desc.wf; fields 10-11: refl_hypsb of the two
        # descriptors (Iso/DecidersRefl.v) against Desc.refl_hyps
        return mo[:5] + mo[6:]
    return mo


def encode_with(case, res):
    return res.get("enc", NOSPEC_ENC)


def oracle(case, res):
    if "why" not in res:
        return "implementation raised %s" % res.get("exception", "?")
    return res["why"]


def finding_match(case, why):
    """the finding fixed by 91c1aef: the two directions of Isomorphism.check differ (both answer, no exception, nothing
    else wrong) on a pair with chained equivalence rules, with the ancestor test of the code BEFORE the fix
    (exact_mode() == 0).  On /repo as it is exact_mode() is 1 and the entry is `fixed`: nothing matches, nothing is masked"""
    if (why and why.startswith("check(spec1, spec2) = ") and why.endswith(" [chained equivalence rules]")
            and ";" not in why and ":" not in why.split("=", 1)[1] and exact_mode() == 0):
        return KF_ASYM
    return None


MIN_COVERED = 0.98     # of the constructed bijections; measured 1.00 on seeds 0, 1, 2 (quick tier)
MIN_COVERED_OBJECTS = 0.88   # *_objects theorems; measured 0.933-0.941 (the rest: StatAtom leaves), seeds 0, 1, 2


def _extra_covered(ctx):
    """on how many constructed bijections the hypotheses of C12_transport_inverse hold as DECIDED verdicts: wf_spec of
    both descriptors (wf_specb in the extracted run = Desc.wf here, compared by the core) and valid_cert of the order
    map the real code built (check_cert in the extracted run, 1 expected here: a 0 is a mismatch); fails when the
    generator drifts away from the theorem"""
    n = k = ko = 0
    reasons = {}
    for res, _why, _nt in ctx.impl_res:
        t = res.get("tags", [])
        if "bijection" not in t:
            continue
        n += 1
        k += "thm:C12_transport_inverse_decided:covered" in t
        ko += "thm:C12_transport_inverse_objects:covered" in t
        for x in t:
            if x.startswith("thm:C12_transport_inverse_objects:not_covered"):
                reasons[x[45:]] = reasons.get(x[45:], 0) + 1
    objects = (
        "covered_by_theorem C12_transport_inverse_objects / C12_constructed_bijection_objects: %d of %d constructed "
        "bijections" % (ko, n), n == 0 or ko / n >= MIN_COVERED_OBJECTS,
        "covered = additionally idescribes, the rank certificate and closedness hold for BOTH specifications, decided "
        "on the C07 descriptors of the same specifications (c07.py _rule_desc under Desc's labels) by the extracted run "
        "(Iso/DecidersObjects.v idescribesb, Count/ParseTreesDeciders.v rankb / closedb) and recomputed here; node_ok "
        "(the strategies' bijection contracts) stays a hypothesis. Not covered: %s - the specifications with "
        "statistics, whose atoms are verified by StatAtom, not AtomStrategy: the C07 descriptor has no leaf for them "
        "(CLAUSES C07 (c)1); minimum fraction %.2f" % (reasons or "none", MIN_COVERED_OBJECTS))
    return [objects,
        ("covered_by_theorem C12_transport_inverse_decided: %d of %d constructed bijections" % (k, n),
         n == 0 or k / n >= MIN_COVERED,
         "retained cases in which Bijection.construct returned a bijection; covered = wf_specb of both descriptors and "
         "check_cert of the REAL order map are 1 (hypotheses of C12_transport_inverse, decided by the extracted run and "
         "compared with the harness on every case); on every one of them the model's own search also left the same "
         "order-map entries as the real code (compared field `same entries`), so C12_constructed_bijection speaks of the "
         "same order map; the *_objects theorems additionally need node_ok / rank / idescribes, decided by no run; "
         "minimum fraction %.2f" % MIN_COVERED),
    ]


MIN_COVERED_REFL = 0.95     # of the searched specifications; measured: see LEVEL_NOTE


def _extra_reflexive(ctx):
    """on how many SEARCHED specifications (word / statistics streams: found by CombinatorialSpecificationSearcher or
    the parallel finder, possibly reloaded from JSON) the hypotheses of C12_check_reflexive_nonempty hold as decided
    verdicts (refl_hypsb in the extracted run = Desc.refl_hyps here, compared by the core); on every one of them the
    oracle has REQUIRED Isomorphism.check(s, s) to be True"""
    n = k = k0 = ng = kg = 0
    reasons = {}
    for res, _why, _nt in ctx.impl_res:
        for (cov, cov_old), hyp in zip(res.get("refl", []), res.get("refl_why", [])):
            if res.get("searched"):
                n += 1
                k += cov
                k0 += cov_old
                if not cov:
                    kk = " + ".join(hyp)
                    reasons[kk] = reasons.get(kk, 0) + 1
            else:
                ng += 1
                kg += cov
    return [
        ("covered_by_theorem C12_check_reflexive_nonempty: %d of %d searched specifications" % (k, n),
         n == 0 or k / n >= MIN_COVERED_REFL,
         "under the older C12_check_reflexive (every childless class, the EMPTY ones included, an atom): %d of %d; "
         "hand-built grammar specifications covered: %d of %d; not covered: %s; minimum fraction %.2f. "
         "Counted: both specifications of every word / statistics case; covered = eq_wf, root not empty and with a "
         "rule, every NON-EMPTY childless class an atom, every non-empty class with children a Rule with a non-empty "
         "child, every non-empty child has a rule - decided by the extracted run (Iso/DecidersRefl.v refl_hypsb, sound "
         "by C12_check_reflexive_decided) and recomputed here, the two compared on every case; on every covered "
         "specification Isomorphism.check(s, s) was REQUIRED to be True (a False / an exception is a violation)"
         % (k0, n, kg, ng, reasons or "none", MIN_COVERED_REFL)),
    ]


def nontrivial(case, res):
    t = res.get("tags", [])
    if case["t"] == "q":
        return len([d for d in case["p1"] if d]) >= 2
    return "bijection" in t and res.get("nobj", 0) >= 8


def key(case):
    c = dict(case)
    c.pop("edits", None)
    return json.dumps(c, sort_keys=True)


COVER = {}       # tag -> number of DISTINCT cases carrying it (main process, filled by classify)
_COVER_SEEN = set()
# coverage the run must reach (quick tier, 7000 cases; measured on seeds 0-2, floor = about half of the smallest count)
COVER_MIN = {"quick": {"bijection+permuted-children": 150, "construct-refusal": 15, "json": 100},
             "thorough": {"bijection+permuted-children": 400, "construct-refusal": 60, "json": 250}}


def classify(case, res):
    k = key(case)
    if k not in _COVER_SEEN:
        _COVER_SEEN.add(k)
        tt = set(res.get("tags", []))
        for tag in tt:
            if tag in ("construct-refusal", "json") or tag.startswith("hypothesis-fails:"):
                COVER[tag] = COVER.get(tag, 0) + 1
        if "bijection" in tt and "permuted-children" in tt and res.get("nobj", 0) >= 1:
            COVER["bijection+permuted-children"] = COVER.get("bijection+permuted-children", 0) + 1
    t = list(res.get("tags", []))
    t.append("type:" + case["t"])
    out = res.get("out")
    if isinstance(out, list) and len(out) > 1:
        t.append("isomorphic" if out[1] else "not-isomorphic")
    return t


def extra_checks(ctx):
    """coverage REQUIREMENTS (each can fail): the verdicts of this check are only worth something if the inputs reach
    the branches they talk about"""
    out = list(_extra_covered(ctx))
    out.extend(_extra_reflexive(ctx))
    out.append(("repair 91c1aef in force: the witness pair of C12_symmetric_refuted is answered False in both directions "
                "(the model runs with exact = %d)" % exact_mode(), exact_mode() == 1,
                "ok" if exact_mode() == 1 else "failing input: the specifications of grammars ASYM_G1 / ASYM_G2 (harness/props/c12.py; "
                "findings/C12_asymmetric_check.py): Isomorphism.check(s1, s2) and Isomorphism.check(s2, s1) are not both False "
                "(answers differ by direction, or raise) - clause 'are_isomorphic is symmetric' / the fixed finding returned"))
    hf = {k: v for k, v in COVER.items() if k.startswith("hypothesis-fails:")}
    out.append(("no case violates a hypothesis of the theorems (tag hypothesis-fails:*)", not hf,
                "0 cases" if not hf else "the descriptor well-formedness the theorems assume fails: %r - the theorems do "
                "not apply to these compared cases" % (hf,)))
    need = COVER_MIN.get(ctx.tier, COVER_MIN["quick"])
    if getattr(ctx, "cases", None) is not None and len(_COVER_SEEN) < N.get(ctx.tier, 0) // 2:
        return out      # a run cut short (--n): coverage floors are stated for the full tier
    for tag, n in sorted(need.items()):
        got = COVER.get(tag, 0)
        what = {"bijection+permuted-children": "constructed bijections with a permuted child order that mapped objects",
                "construct-refusal": "isomorphic pairs on which Bijection.construct refused (non-equivalence reverse rule)",
                "json": "bijections compared after a JSON round trip"}[tag]
        out.append(("coverage: >= %d distinct cases with %s" % (n, what), got >= n, "%d distinct cases" % got))
    return out


def shrink(case):
    if case["t"] == "q":
        for side in ("p1", "p2"):
            for i in range(len(case[side])):
                c = dict(case)
                c[side] = case[side][:i] + case[side][i + 1:]
                yield c
        return
    if case["N"] > 2:
        c = dict(case)
        c["N"] = case["N"] - 1
        yield c
    if case.get("json"):
        c = dict(case)
        c["json"] = 0
        yield c
    if case["t"] != "g":
        return
    G = _G()
    for side in ("1", "2"):
        g, r = case["g" + side], case["r" + side]
        for i, p in enumerate(g):
            cands = []
            if p[0] in "upn":
                for j in range(len(p[1])):
                    if len(p[1]) > 1:
                        cands.append([p[0], p[1][:j] + p[1][j + 1:]])
                if i != r:
                    cands.append(["a", "a"])
            elif p[0] == "a" and len(p[1]) > 1:
                cands.append(["a", p[1][:1]])
            for q in cands:
                g2 = copy.deepcopy(g)
                g2[i] = q
                if G.grammar(g2).empty[r]:
                    continue
                c = dict(case)
                c["g" + side] = g2
                c["grp" + side] = 0 if _uses_unary_product(g2, r) else case["grp" + side]
                yield c
        if not case["grp" + side] and not _uses_unary_product(g, r):
            c = dict(case)
            c["grp" + side] = 1
            yield c

# strengthening of the oracles (CLAUSES.md G.1 item 10)
RULE += (
    " 2% of the cases pair a specification containing the reverse of a non-equivalence rule (REFUSAL_STARTS, pack factory2, forest database) with the same or the letter-swapped class, so that the branch 'isomorphic but Bijection.construct refuses' is reached; after a JSON round trip of a bijection Isomorphism.check is re-run on the reloaded pair in both directions; extra checks REQUIRE coverage (distinct cases: no hypothesis-fails tag, >= 150 mapped bijections with a permuted child order, >= 15 refusals, >= 100 JSON round trips in the quick tier)."
)
